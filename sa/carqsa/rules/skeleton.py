"""Cursor-skeleton abstract execution (R4/R10 for count-driven code).

The function's AST is interpreted over an abstract store in which
  * integers that depend only on the size/count arguments are concrete,
  * pointers derived from a buffer parameter are (buffer, byte offset) pairs,
  * everything that depends on buffer *contents* is Unknown (never computed),
  * a branch on an Unknown condition forks the execution (bounded).
No data is read, nothing is compiled or run: only the cursor arithmetic of the code is
evaluated, for every count in a finite range that covers all residues of the loop strides.
The execution records every byte range read or written through each tracked buffer, so a rule
can decide "all accesses lie inside [0, extent)" and "every input byte is read" per count.
"""
import re
from ..facts import src

U = ("U",)   # unknown value


class Ptr:
    __slots__ = ("base", "off", "esz")

    def __init__(self, base, off, esz):
        self.base = base
        self.off = off
        self.esz = esz

    def __repr__(self):
        return "Ptr(%s+%s,%s)" % (self.base, self.off, self.esz)


class Stop(Exception):
    pass


class Budget(Exception):
    pass


class _Break(Exception):
    pass


class _Continue(Exception):
    pass


class _Goto(Exception):
    def __init__(self, label):
        self.label = label


class _Return(Exception):
    def __init__(self, v):
        self.v = v


class _Trial(Exception):
    pass


def _same_val(a, b):
    if isinstance(a, Ptr) and isinstance(b, Ptr):
        return a.base == b.base and a.off == b.off and a.esz == b.esz
    if isinstance(a, Ptr) or isinstance(b, Ptr):
        return False
    return a == b


def _has_effects(n):
    for x in n.walk():
        if x.k in ("CompoundAssignOperator", "CallExpr"):
            return True
        if x.k == "BinaryOperator" and x.op == "=":
            return True
        if x.k == "UnaryOperator" and x.op in ("++", "--"):
            return True
    return False


TYPE_SIZES = {"char": 1, "unsigned char": 1, "signed char": 1, "uint8_t": 1, "int8_t": 1, "bool": 1,
              "_Bool": 1, "short": 2, "unsigned short": 2, "uint16_t": 2, "int16_t": 2,
              "int": 4, "unsigned int": 4, "uint32_t": 4, "int32_t": 4, "float": 4,
              "long": 8, "unsigned long": 8, "uint64_t": 8, "int64_t": 8, "size_t": 8, "double": 8,
              "long long": 8, "unsigned long long": 8, "ssize_t": 8, "ptrdiff_t": 8, "uintptr_t": 8,
              "__m128i": 16, "__m128": 16, "__m128d": 16, "__m256i": 32, "__m256": 32, "__m256d": 32,
              "__m512i": 64, "__m512": 64, "__m512d": 64, "void": 1, "__mmask16": 2, "__mmask8": 1,
              "__mmask32": 4, "__mmask64": 8}
UNSIGNED = {"unsigned char": 8, "uint8_t": 8, "unsigned short": 16, "uint16_t": 16, "unsigned int": 32,
            "uint32_t": 32, "unsigned long": 64, "uint64_t": 64, "size_t": 64, "unsigned long long": 64,
            "uintptr_t": 64, "bool": 1, "_Bool": 1, "__mmask16": 16, "__mmask8": 8, "__mmask32": 32,
            "__mmask64": 64}
SIGNED = {"char": 8, "signed char": 8, "int8_t": 8, "short": 16, "int16_t": 16, "int": 32, "int32_t": 32,
          "long": 64, "int64_t": 64, "long long": 64, "ssize_t": 64, "ptrdiff_t": 64}


def clean_type(t):
    if t is None:
        return ""
    t = t.replace("const ", "").replace("volatile ", "").replace("restrict", "").replace("__restrict", "")
    return t.strip()


RECORD_SIZES = {}      # struct / typedef name -> size in bytes (filled from the fact base by Interp)


def pointee_size(t):
    t = clean_type(t)
    if t.endswith("*"):
        base = t[:-1].strip()
        if base.endswith("*"):
            return 8
        return TYPE_SIZES.get(base, None) or RECORD_SIZES.get(base.replace("struct ", ""), None)
    return None


class OutOfBounds(Exception):
    def __init__(self, access):
        Exception.__init__(self, "access outside a bounded buffer")
        self.access = access


def _wrap_off(off):
    """pointer arithmetic is address arithmetic modulo 2^64: an offset of 2^64 - k is the address k bytes in front"""
    off &= (1 << 64) - 1
    return off - (1 << 64) if off >= (1 << 63) else off


def wrap(v, t):
    if not isinstance(v, int):
        return v
    t = clean_type(t)
    if t in UNSIGNED:
        return v & ((1 << UNSIGNED[t]) - 1)
    if t in SIGNED:
        b = SIGNED[t]
        v &= (1 << b) - 1
        if v >= 1 << (b - 1):
            v -= 1 << b
        return v
    return v


class Sym:
    """An opaque integer term: the value of an input the rule wants to follow through the arithmetic (a hash, a
    loaded word). Operations on it build terms instead of collapsing to Unknown; a branch on a term forks like any
    unknown condition and is recorded as ("branch", term, outcome) in the path's events."""
    __slots__ = ("t", "bits")

    def __init__(self, t, bits=64):
        self.t = t
        self.bits = bits

    def __eq__(self, o):
        return isinstance(o, Sym) and o.t == self.t and o.bits == self.bits

    def __hash__(self):
        return hash((self.t, self.bits))

    def __repr__(self):
        return "Sym(%r,%d)" % (self.t, self.bits)


def _bits_of(t):
    t = clean_type(t)
    return UNSIGNED.get(t) or SIGNED.get(t) or 64


def sym_cast(v, t):
    b = _bits_of(t)
    if b < v.bits:
        return Sym(("cast", b, v.t), b)
    return Sym(v.t, b) if b != v.bits else v


class FuncRef:
    """The address of a function of the program (an entry of a function-pointer table)."""
    __slots__ = ("name",)

    def __init__(self, name):
        self.name = name

    def __repr__(self):
        return "&%s" % self.name

    def __eq__(self, o):
        return isinstance(o, FuncRef) and o.name == self.name

    def __hash__(self):
        return hash(("fn", self.name))


class StructVal:
    """A struct rvalue (returned, passed or assigned by value): {byte offset: member value}."""
    __slots__ = ("fields", "size")

    def __init__(self, fields, size):
        self.fields, self.size = dict(fields), size

    def __repr__(self):
        return "Struct%r" % (self.fields,)

    def __eq__(self, o):
        return isinstance(o, StructVal) and o.fields == self.fields

    def __hash__(self):
        return hash(tuple(sorted((k, repr(v)) for k, v in self.fields.items())))


class Access:
    __slots__ = ("base", "lo", "hi", "kind", "node", "masked")

    def __init__(self, base, lo, hi, kind, node, masked=False):
        self.base, self.lo, self.hi, self.kind, self.node, self.masked = base, lo, hi, kind, node, masked


# intrinsic / libc access models: name -> list of (kind, ptr arg index, byte count or callable(args))
def _vec_model():
    m = {}
    for pre, width in (("_mm", 16), ("_mm256", 32), ("_mm512", 64)):
        for suf in ("si128", "si256", "si512", "ps", "pd", "epi8", "epi16", "epi32", "epi64"):
            m["%s_loadu_%s" % (pre, suf)] = [("r", 0, width)]
            m["%s_load_%s" % (pre, suf)] = [("r", 0, width)]
            m["%s_lddqu_%s" % (pre, suf)] = [("r", 0, width)]
            m["%s_storeu_%s" % (pre, suf)] = [("w", 0, width)]
            m["%s_store_%s" % (pre, suf)] = [("w", 0, width)]
            m["%s_stream_%s" % (pre, suf)] = [("w", 0, width)]
    m["_mm_loadl_epi64"] = [("r", 0, 8)]
    m["_mm_storel_epi64"] = [("w", 0, 8)]
    m["_mm_loadu_si64"] = [("r", 0, 8)]
    m["_mm_loadu_si32"] = [("r", 0, 4)]
    m["_mm_storeu_si64"] = [("w", 0, 8)]
    m["_mm_storeu_si32"] = [("w", 0, 4)]
    m["_mm_cvtsi32_si128"] = []
    return m


VEC = _vec_model()


class Interp:
    def __init__(self, P, fn, budget=200000, max_forks=4096, inline_depth=3):
        self.P = P
        self.fn = fn
        if RECORD_SIZES.get("\0program") is not P:
            RECORD_SIZES.clear()            # the table belongs to one program (mutant / refactored trees differ)
            RECORD_SIZES["\0program"] = P
            for name, r in P.records.items():
                if r.get("size"):
                    RECORD_SIZES[name] = r["size"]
                    RECORD_SIZES.setdefault(name + "_t", r["size"])
                    if name.endswith("_s"):
                        RECORD_SIZES.setdefault(name[:-2], r["size"])      # zlib style: typedef struct z_stream_s z_stream
        self.budget = budget
        self.steps = 0
        self.max_forks = max_forks
        self.inline_depth = inline_depth
        self.unknown_calls = set()
        self.unknown_mem = []     # accesses through tracked pointers with unknown offset
        self.notes = []
        self.hooks = {}           # callee name -> f(interp, call node, args) -> value
        self.align = None         # {buffer base: address residue}: makes (uintptr_t)ptr concrete modulo a page
        self.forced = {}          # {local decl id: value}: the local holds this value whatever is assigned to it
        self.heap0 = {}            # tracked object state (struct members, locals whose address is taken)
        self.heap = None          # fields are state (not data); stores update it, loads read it (per explored path)
        self.ptr_to_int = False   # a pointer was converted to an integer while no residue was given
        self.events = []          # free-form events recorded by hooks (per outcome)

    # ----- public
    def run(self, args):
        """args: list of values (int, Ptr, U) for fn's parameters. Returns list of outcomes:
        each outcome is (accesses, return value). Forks on unknown conditions are enumerated."""
        outcomes = []
        # fork enumeration by decision strings
        pending = [()]
        seen = 0
        while pending:
            decisions = pending.pop()
            seen += 1
            if seen > self.max_forks:
                raise Budget("too many forks")
            self.decisions = list(decisions)
            self.dpos = 0
            self.new_forks = []
            self.acc = []
            self.events = []
            self.heap = dict(self.heap0) if self.heap0 is not None else None
            # (base, lo, hi) regions cleared by memset(p, 0, n): loads that miss the heap read 0. A heap handed on from an
            # earlier run (chained calls on one object) carries its regions along under a reserved key.
            self.zeroed = list(self.heap.get(("\0zeroed", 0), ())) if self.heap is not None else []
            self._objs = 0
            if getattr(self, "on_path_start", None) is not None:
                self.on_path_start()        # hooks with per-path state (allocation counters, file position) reset it
            env = {}
            for p, v in zip(self.fn.params, args):
                env[p["d"]] = v
            ret = None
            try:
                self.exec_fn(self.fn, env, 0)
            except _Return as r:
                ret = r.v
            if getattr(self, "with_heap", False):
                if self.heap is not None and getattr(self, "zeroed", None):
                    self.heap[("\0zeroed", 0)] = tuple(self.zeroed)
                outcomes.append((self.acc, ret, self.events, self.heap))
            else:
                outcomes.append((self.acc, ret, self.events) if getattr(self, "with_events", False) else (self.acc, ret))
            for d in self.new_forks:
                pending.append(d)
        return outcomes

    # ----- helpers
    def tick(self):
        self.steps += 1
        if self.steps > self.budget:
            raise Budget("step budget exhausted")

    def decide(self, node):
        """Truth value for an unknown condition: replay recorded decisions, fork on new ones."""
        if getattr(self, "in_trial", False):
            raise _Trial()
        if self.dpos < len(self.decisions):
            v = self.decisions[self.dpos]
            self.dpos += 1
            return v
        # new decision point: take True now, schedule False
        prefix = tuple(self.decisions[:self.dpos])
        self.new_forks.append(prefix + (False,))
        self.decisions.append(True)
        self.dpos += 1
        return True

    def exec_fn(self, fn, env, depth):
        try:
            self.stmt(fn.body, env, fn, depth)
        except _Return:
            raise
        except _Goto as g:
            raise Stop("goto %s: label not in an enclosing block" % g.label)

    # ----- statements
    def stmt(self, s, env, fn, depth):
        if s is None:
            return
        self.tick()
        k = s.k
        if k == "CompoundStmt":
            self.block(s.kids(), env, fn, depth)
        elif k == "DeclStmt":
            for d, init in zip(s.get("decls", []), s.c):
                if "d" not in d:
                    continue
                if init is not None:
                    v = self.ev(init, env, fn, depth)
                    env[d["d"]] = wrap(v, d["t"]) if isinstance(v, int) else v
                else:
                    env[d["d"]] = U
                rsz = RECORD_SIZES.get(clean_type(d.get("t") or "").replace("struct ", ""))
                if rsz and self.heap is not None:
                    # a struct object on the stack: its members live in the tracked heap
                    obj = self.new_object(d["n"], rsz)
                    env[("obj", d["d"])] = obj
                    iv = env.get(d["d"])
                    if init is not None and init.strip().k == "InitListExpr":
                        iv = self.init_list(init.strip(), d.get("t"), env, fn, depth)
                    if isinstance(iv, StructVal):
                        self.store_struct(obj, iv)
                    env[d["d"]] = U
                if self.heap is not None and not rsz:
                    # a local array (plain or `static const` lookup table): an object of its own, filled from its initialiser
                    tarr = clean_type(d.get("t") or "")
                    m_arr = re.match(r"^(.*?)\[(\d+)\](.*)$", tarr)
                    if m_arr and (init is None or init.strip().k == "InitListExpr"):
                        asz = self.sizeof(tarr)
                        esz_ = self.sizeof((m_arr.group(1) + m_arr.group(3)).strip())
                        if not esz_ and init is not None and not m_arr.group(3):
                            # an array of a typedef'd function-pointer type: recognised by what initialises it
                            kids_ = [x for x in init.strip().c if x is not None]
                            isfn_ = [x for x in kids_ if x.strip_casts() is not None and x.strip_casts().k == "DeclRefExpr" and x.strip_casts().name in self.P.by_name]
                            if isfn_ and all((x.strip_casts() is not None and ((x.strip_casts().k == "DeclRefExpr" and x.strip_casts().name in self.P.by_name)
                                                                               or x.strip_casts().cv == 0)) or x.cv == 0 or x.k == "ImplicitValueInitExpr" for x in kids_):
                                self.__dict__.setdefault("_fnptr_types", set()).add(m_arr.group(1).strip())
                                esz_ = 8
                                asz = int(m_arr.group(2)) * 8
                        if asz and esz_ and asz <= 65536:
                            obj = self.new_object(d["n"], esz_)
                            env[("obj", d["d"])] = obj
                            if init is not None:
                                self._fill(obj.base, 0, tarr, init.strip(), fn, env if d.get("dk") != "slocal" else None, depth)
                            env[d["d"]] = U
                if d["d"] in self.forced and fn is self.fn:
                    env[d["d"]] = self.forced[d["d"]]
        elif k == "IfStmt":
            kids = [x for x in s.c if x is not None]
            v = self.rv(self.ev(kids[0], env, fn, depth), env)
            if isinstance(v, (int, Ptr, FuncRef)):
                c = (v != 0) if isinstance(v, int) else True
            elif isinstance(v, Sym):
                c = self.decide(kids[0])
                self.events.append(("branch", v.t, c))
            else:
                # unknown condition: if both arms leave the cursor state identical, do not fork
                if self.try_merge(kids, env, fn, depth):
                    return
                c = self.decide(kids[0])
            if c:
                self.stmt(kids[1], env, fn, depth)
            elif len(kids) > 2:
                self.stmt(kids[2], env, fn, depth)
        elif k == "WhileStmt":
            cond, body = s.c[-2], s.c[-1]
            while self.truth(cond, env, fn, depth):
                self.tick()
                try:
                    self.stmt(body, env, fn, depth)
                except _Break:
                    break
                except _Continue:
                    continue
        elif k == "DoStmt":
            body, cond = s.c[0], s.c[1]
            while True:
                self.tick()
                try:
                    self.stmt(body, env, fn, depth)
                except _Break:
                    break
                except _Continue:
                    pass
                if not self.truth(cond, env, fn, depth):
                    break
        elif k == "ForStmt":
            init, cond, inc, body = s.c[0], s.c[2], s.c[3], s.c[4]
            if init is not None:
                self.stmt(init, env, fn, depth) if init.k == "DeclStmt" else self.ev(init, env, fn, depth)
            while cond is None or self.truth(cond, env, fn, depth):
                self.tick()
                try:
                    self.stmt(body, env, fn, depth)
                except _Break:
                    break
                except _Continue:
                    pass
                if inc is not None:
                    self.ev(inc, env, fn, depth)
        elif k == "SwitchStmt":
            self.switch(s, env, fn, depth)
        elif k == "ReturnStmt":
            v = self.ev(s.c[0], env, fn, depth) if s.c and s.c[0] is not None else None
            raise _Return(v)
        elif k == "BreakStmt":
            raise _Break()
        elif k == "ContinueStmt":
            raise _Continue()
        elif k in ("NullStmt",):
            pass
        elif k in ("CaseStmt", "DefaultStmt"):
            self.stmt(s.c[-1], env, fn, depth)
        elif k == "LabelStmt":
            self.stmt(s.c[-1] if s.c else None, env, fn, depth)
        elif k == "GotoStmt":
            # forward jumps to a label of an enclosing block (cleanup / fail / done labels) are resumed
            # by the block that holds the label; anything else is not modelled
            raise _Goto(s.get("label"))
        elif s.get("omp"):
            for ch in s.kids():
                if ch.k in ("CompoundStmt", "ForStmt"):
                    self.stmt(ch, env, fn, depth)
        else:
            self.ev(s, env, fn, depth)

    def try_merge(self, kids, env, fn, depth):
        if getattr(self, "in_trial", False):
            raise _Trial()
        if getattr(self, "with_heap", False) and any(x.k == "CallExpr" for k_ in kids[1:] for x in k_.walk()):
            return False        # arms with calls are observable (recorded events): explore them separately
        acc0 = len(self.acc)
        um0 = len(self.unknown_mem)
        self.in_trial = True
        try:
            e1 = dict(env)
            self.stmt(kids[1], e1, fn, depth)
            e2 = dict(env)
            if len(kids) > 2:
                self.stmt(kids[2], e2, fn, depth)
        except (_Trial, _Return, _Break, _Continue):
            del self.acc[acc0:]
            del self.unknown_mem[um0:]
            self.in_trial = False
            return False
        self.in_trial = False
        keys = set(e1) | set(e2)
        for k_ in keys:
            if not _same_val(e1.get(k_, U), e2.get(k_, U)):
                # values that differ but are never cursor-relevant become unknown
                a, b = e1.get(k_, U), e2.get(k_, U)
                if isinstance(a, Ptr) or isinstance(b, Ptr):
                    del self.acc[acc0:]
                    del self.unknown_mem[um0:]
                    return False
                e1[k_] = U
        env.clear()
        env.update(e1)
        return True

    def block(self, stmts, env, fn, depth):
        i = 0
        jumps = 0
        while i < len(stmts):
            try:
                self.stmt(stmts[i], env, fn, depth)
            except _Goto as g:
                tgt = None
                for j, st in enumerate(stmts):
                    if st.k == "LabelStmt" and st.get("label") == g.label:
                        tgt = j
                if tgt is None:
                    raise
                if tgt <= i:
                    jumps += 1
                    if jumps > 64:
                        raise Stop("backward goto loop")
                    self.tick()
                i = tgt
                continue
            i += 1

    def switch(self, s, env, fn, depth):
        v = self.ev(s.c[-2], env, fn, depth)
        body = s.c[-1]
        stmts = body.kids() if body.k == "CompoundStmt" else [body]
        # flatten nested case labels
        flat = []

        def add(st):
            labs = []
            while st is not None and st.k in ("CaseStmt", "DefaultStmt"):
                if st.k == "CaseStmt":
                    labs.append(st.c[0].cv)
                else:
                    labs.append("default")
                st = st.c[-1] if st.c else None
            flat.append((labs, st))
        for st in stmts:
            add(st)
        if not isinstance(v, int):
            # unknown selector: fork over the arms
            labels = [l for labs, _ in flat for l in labs]
            choice = None
            for lab in labels:
                if self.decide(s):
                    choice = lab
                    break
            if choice is None:
                return
            v = choice
        start = None
        for idx, (labs, st) in enumerate(flat):
            if v in labs:
                start = idx
                break
        if start is None:
            for idx, (labs, st) in enumerate(flat):
                if "default" in labs:
                    start = idx
                    break
        if start is None:
            return
        try:
            for labs, st in flat[start:]:
                self.stmt(st, env, fn, depth)
        except _Break:
            pass

    # ----- expressions
    def truth(self, e, env, fn, depth):
        v = self.ev(e, env, fn, depth)
        if isinstance(v, int):
            return v != 0
        if isinstance(v, (Ptr, FuncRef)):
            return True
        v = self.rv(v, env) if isinstance(v, tuple) else v
        if isinstance(v, Sym):
            d = self.decide(e)
            self.events.append(("branch", v.t, d))
            return d
        return self.decide(e)

    # ---- const file-scope objects (lookup tables): materialised from their initialisers
    def sizeof(self, t):
        t = clean_type(t or "").replace("struct ", "").strip()
        if t.endswith("*") or "(*)" in t or t in self.__dict__.get("_fnptr_types", ()):
            return 8
        m = re.match(r"^(.*?)\[(\d+)\](.*)$", t)
        if m:
            inner = self.sizeof((m.group(1) + m.group(3)).strip())
            return int(m.group(2)) * inner if inner else None
        if t in TYPE_SIZES:
            return TYPE_SIZES[t]
        if t in RECORD_SIZES:
            return RECORD_SIZES[t]
        ar = self.anon_record(t)
        if ar is not None:
            return ar["size"]
        if t.startswith("enum ") or t in self.P.enums or (t.endswith("_t") and t[:-2] in self.P.enums):
            return 4
        return None

    def global_ptr(self, name, fn):
        """Ptr to a const file-scope object whose initialiser is known (its members are put in the heap)."""
        if self.heap is None:
            return None
        if name in (self.__dict__.get("seeded_globals") or {}):
            return Ptr("g:" + name, 0, self.seeded_globals[name])
        cache = self.__dict__.setdefault("_globals", {})
        if name in cache:
            g = cache[name]
        else:
            cands = [g_ for u, g_ in self.P.globals if g_["name"] == name and g_.get("init") is not None]
            same = [g_ for g_ in cands if g_.get("file") == fn.file]
            g = (same or cands or [None])[0]
            cache[name] = g
        seeded = self.__dict__.get("seeded_globals") or {}
        if name in seeded:
            return Ptr("g:" + name, 0, seeded[name])     # a mutable global whose state the caller supplied in heap0
        if g is None:
            return None
        if not g.get("const") and not self._never_written_global(name):
            return None
        base = "g:" + name
        size = self.sizeof(g["t"])
        if not size:
            # an array of a typedef'd function-pointer type: recognised by what initialises it
            m0 = re.match(r"^(.*?)\[(\d+)\](.*)$", clean_type(g["t"]))
            init = g.get("init")
            kids = [x for x in init.c if x is not None] if init is not None and init.strip().k == "InitListExpr" else []
            isfn = [x for x in kids if x.strip_casts() is not None and x.strip_casts().k == "DeclRefExpr" and x.strip_casts().name in self.P.by_name]
            if m0 and not m0.group(3) and isfn and all(
                    (x.strip_casts().k == "DeclRefExpr" and x.strip_casts().name in self.P.by_name) or x.cv == 0 or
                    (x.strip_casts() is not None and x.strip_casts().cv == 0) or x.k == "ImplicitValueInitExpr" for x in kids):
                self.__dict__.setdefault("_fnptr_types", set()).add(m0.group(1).strip())
                size = int(m0.group(2)) * 8
            else:
                return None
        if (base, "filled") not in self.heap:
            self.heap[(base, "filled")] = 1
            self._fill(base, 0, g["t"], g["init"], fn)
        t = clean_type(g["t"])
        m = re.match(r"^(.*?)\[(\d+)\](.*)$", t)
        esz = self.sizeof((m.group(1) + m.group(3)).strip()) if m else size
        return Ptr(base, 0, esz or 1)

    def _never_written_global(self, name):
        """A file-scope object without `const` that no function of the program stores to, takes the address of as a whole
        or hands to a callee through a non-const pointer is a constant table in everything but its spelling (a static
        table of function pointers, say). Only static (file-local) arrays with an initialiser qualify."""
        memo = self.P.__dict__.setdefault("_memo", {}).setdefault("_effectively_const", {})
        if name in memo:
            return memo[name]
        memo[name] = False
        gs = [g_ for u, g_ in self.P.globals if g_["name"] == name]
        if len(gs) != 1 or gs[0].get("init") is None or "[" not in (gs[0].get("t") or "") or not gs[0].get("static", True):
            return False
        for f in self.P.functions.values():
            if f.body is None:
                continue
            for n in f.body.walk():
                if n.k != "DeclRefExpr" or n.get("dk") != "global" or n.name != name:
                    continue
                # walk up: a use is harmless when it is an rvalue element read `name[i]` (or a call through it)
                p_ = n.parent
                while p_ is not None and p_.k in ("ParenExpr", "ImplicitCastExpr"):
                    p_ = p_.parent
                if p_ is None or p_.k != "ArraySubscriptExpr":
                    return False
                q = p_.parent
                while q is not None and q.k in ("ParenExpr",):
                    q = q.parent
                if q is None:
                    return False
                if q.k == "ImplicitCastExpr" and q.get("ck") in ("LValueToRValue", "FunctionToPointerDecay"):
                    continue
                if q.k == "CallExpr" and q.c and any(y is p_ for y in q.c[0].walk()):
                    continue
                return False
        memo[name] = True
        return True

    def _fill(self, base, off, t, node, fn, env=None, depth=0):
        t = clean_type(t or "").strip()
        n = node.strip() if node is not None and hasattr(node, "strip") else node
        m = re.match(r"^(.*?)\[(\d+)\](.*)$", t)
        if m:
            et = (m.group(1) + m.group(3)).strip()
            esz = self.sizeof(et)
            if not esz:
                return
            kids = [x for x in n.c] if n is not None and n.k == "InitListExpr" else []
            for i in range(int(m.group(2))):
                self._fill(base, off + i * esz, et, kids[i] if i < len(kids) else None, fn, env, depth)
            return
        rec = self.record_of(t)
        if rec is not None:
            fields = [f for f in rec["fields"] if f.get("off") is not None and f["n"]]
            kids = [x for x in n.c] if n is not None and n.k == "InitListExpr" else []
            for i, f in enumerate(fields):
                self._fill(base, off + f["off"] // 8, f["t"], kids[i] if i < len(kids) else None, fn, env, depth)
            return
        if n is None or n.k == "ImplicitValueInitExpr":
            self.heap[(base, off)] = 0
            return
        if n.cv is not None:
            self.heap[(base, off)] = wrap(n.cv, t)
            return
        x = n.strip_casts()
        if x is not None and x.k == "UnaryOperator" and x.op == "&":
            x = x.c[0].strip_casts()
        if x is not None and x.k == "DeclRefExpr" and x.get("dk") in ("func", "function") or (
                x is not None and x.k == "DeclRefExpr" and x.name in self.P.by_name):
            self.heap[(base, off)] = FuncRef(x.name)
            return
        if env is not None:
            # an automatic array initialised from run-time values (`{ 1, &obj->member, &obj->member_len }`)
            try:
                self.heap[(base, off)] = self.rv(self.ev(n, env, fn, depth), env)
                return
            except (Stop, Budget):
                raise
            except Exception:
                pass
        self.heap[(base, off)] = U

    # ---- struct objects and struct values
    def new_object(self, name, size):
        self._objs = getattr(self, "_objs", 0) + 1
        return Ptr("local%d:%s" % (self._objs, name), 0, size)

    def snapshot(self, p, size):
        if self.heap is None or not isinstance(p, Ptr) or not isinstance(p.off, int):
            return U
        return StructVal({o - p.off: v for (b, o), v in self.heap.items()
                          if b == p.base and isinstance(o, int) and p.off <= o < p.off + size}, size)

    def store_struct(self, p, sv):
        if self.heap is None or not isinstance(p, Ptr) or not isinstance(p.off, int):
            return
        for k_ in [k_ for k_ in self.heap if k_[0] == p.base and isinstance(k_[1], int) and p.off <= k_[1] < p.off + sv.size]:
            del self.heap[k_]
        for o, v in sv.fields.items():
            self.heap[(p.base, p.off + o)] = v

    def anon_record(self, t):
        """the record behind `struct (unnamed struct at FILE:LINE:COL)`"""
        m = re.search(r"\((?:unnamed|anonymous)[^)]*? at (.+?):(\d+):\d+\)", t or "")
        if not m:
            return None
        for _u, r in self.P.records_all:
            if r.get("file") == m.group(1) and r.get("line") == int(m.group(2)):
                return r
        return None

    def record_of(self, t):
        r = self.anon_record(t)
        if r is not None:
            return r
        name = clean_type(t or "").replace("struct ", "").replace("const ", "").strip()
        for cand in (name, name[:-2] if name.endswith("_t") else None, name + "_s"):
            if cand and cand in self.P.records:
                return self.P.records[cand]
        return None

    def init_list(self, il, t, env, fn, depth):
        """{a, b, ...} for a struct type: members in declaration order (missing ones are zero)."""
        rec = self.record_of(t)
        if rec is None:
            return U
        fields = [f for f in rec["fields"] if f.get("off") is not None and f["n"]]
        out = {f["off"] // 8: 0 for f in fields if TYPE_SIZES.get(clean_type(f["t"])) or "*" in f["t"]}
        vals = [x for x in il.c if x is not None]
        for f, x in zip(fields, vals):
            if x.k in ("ImplicitValueInitExpr",):
                continue
            if x.k == "DesignatedInitExpr":
                return U
            v = self.rv(self.ev(x, env, fn, depth), env)
            out[f["off"] // 8] = wrap(v, f["t"]) if isinstance(v, int) else v
        return StructVal(out, rec["size"])

    def lval_set(self, node, val, env, fn, depth):
        n = node.strip()
        if isinstance(val, StructVal):
            p, _sz = self.addr(n, env, fn, depth)
            if p is not None:
                # a struct assignment through a pointer is a write of the whole object
                wsz = getattr(val, "size", None) or _sz
                if isinstance(wsz, int) and n.k != "DeclRefExpr":
                    self.access(p, wsz, "w", node)
                self.store_struct(p, val)
            return
        if n.k == "DeclRefExpr" and n.get("d") is not None and n.get("dk") in ("local", "param", "slocal"):
            env[n.get("d")] = wrap(val, n.t) if isinstance(val, int) else val
            if n.get("dk") == "local" and n.get("d") in self.forced and fn is self.fn:
                env[n.get("d")] = self.forced[n.get("d")]
            return
        if n.k == "UnaryOperator" and n.op == "*" and not _has_effects(n.c[0]):
            pv = self.rv(self.ev(n.c[0], env, fn, depth), env)
            if isinstance(pv, tuple) and pv and pv[0] == "ADDR" and len(pv) > 3:
                pv[3][pv[1]] = wrap(val, pv[2]) if isinstance(val, int) else val
                return
        # store through a pointer: record a write when tracked
        p, size = self.addr(n, env, fn, depth)
        if p is not None:
            self.access(p, size, "w", node)
            if self.heap is not None and isinstance(p.off, int):
                self.heap[(p.base, p.off)] = wrap(val, n.t) if isinstance(val, int) else val

    def addr(self, n, env, fn, depth):
        """Address of an lvalue expression as (Ptr or None, size)."""
        n = n.strip()
        if n.k == "DeclRefExpr" and ("obj", n.get("d")) in env:
            o = env[("obj", n.get("d"))]
            return o, o.esz
        if n.k == "DeclRefExpr" and n.get("dk") == "global":
            g = self.global_ptr(n.name, fn)
            if g is not None:
                return g, (self.sizeof(n.t) or g.esz)
        if n.k == "UnaryOperator" and n.op == "*":
            p = self.ev(n.c[0], env, fn, depth)
            sz = TYPE_SIZES.get(clean_type(n.t), None)
            return (p if isinstance(p, Ptr) else None), sz or (p.esz if isinstance(p, Ptr) else 1)
        if n.k == "ArraySubscriptExpr":
            b = self.ev(n.c[0], env, fn, depth)
            i = self.ev(n.c[1], env, fn, depth)
            sz = TYPE_SIZES.get(clean_type(n.t), None) or RECORD_SIZES.get(clean_type(n.t).replace("struct ", ""), None)
            if sz is None and self.heap is not None:
                sz = self.sizeof(n.t)          # enums, typedef'd records
            if isinstance(b, Ptr):
                esz = sz or b.esz or 1
                if isinstance(i, int) and isinstance(b.off, int):
                    return Ptr(b.base, b.off + i * esz, esz), esz
                if isinstance(i, Sym) and isinstance(b.off, int):
                    t_ = i.t if esz == 1 else ("*", i.t, esz, 64)
                    return Ptr(b.base, Sym(t_ if b.off == 0 else ("+", t_, b.off, 64), 64), esz), esz
                return Ptr(b.base, U, esz), esz
            return None, sz or 1
        if n.k == "MemberExpr":
            off = self.field_offset(n)
            sz = TYPE_SIZES.get(clean_type(n.t), None) or 1
            if off is None or not n.c:
                return None, sz
            if n.get("arrow"):
                b = self.rv(self.ev(n.c[0], env, fn, depth), env)
            else:
                b, _ = self.addr(n.c[0], env, fn, depth)
            if isinstance(b, Ptr):
                if isinstance(b.off, int):
                    return Ptr(b.base, b.off + off, sz), sz
                return Ptr(b.base, U, sz), sz
            return None, sz
        return None, 0

    def field_offset(self, n):
        rec = self.P.records.get(n.get("rec"))
        if "<anon>" in (n.get("rec") or "") and n.c and n.c[0] is not None:
            rec = self.anon_record(n.c[0].strip().t or n.c[0].t) or rec
        if not rec:
            return None
        for f in rec["fields"]:
            if f["n"] == n.name and f.get("off") is not None:
                return f["off"] // 8
        return None

    def access(self, p, size, kind, node, masked=False):
        if not isinstance(p, Ptr):
            return
        if not isinstance(p.off, int) or not isinstance(size, int):
            if not (isinstance(p.base, str) and p.base.startswith("g:")):
                self.unknown_mem.append((p.base, kind, node))     # (a lookup in a const table of the program is not a buffer access)
            return
        self.acc.append(Access(p.base, p.off, p.off + size, kind, node, masked))
        b = getattr(self, "bounds", None)
        if b is not None and p.base in b and size > 0 and (p.off < b[p.base][0] or p.off + size > b[p.base][1]):
            # the rule asked to stop at the first access outside a buffer it handed in (what follows is not C any more)
            raise OutOfBounds(self.acc[-1])

    def ev(self, e, env, fn, depth):
        if e is None:
            return U
        self.tick()
        k = e.k
        if k in ("ParenExpr", "ConstantExpr"):
            return self.ev(e.c[0], env, fn, depth)
        if e.cv is not None and k not in ("DeclRefExpr",):
            return e.cv
        if k == "ImplicitCastExpr" or k == "CStyleCastExpr":
            v = self.ev(e.c[0], env, fn, depth)
            ck = e.get("ck")
            if ck == "LValueToRValue":
                if isinstance(v, StructVal):
                    return v            # a compound literal used as a value
                return self.load(e.c[0], v, env, fn, depth)
            if ck == "ArrayToPointerDecay" and e.c[0].strip().k == "DeclRefExpr" and ("obj", e.c[0].strip().get("d")) in env:
                o_ = env[("obj", e.c[0].strip().get("d"))]
                return Ptr(o_.base, o_.off, pointee_size(e.t) or o_.esz or 1)
            if ck == "ArrayToPointerDecay" and e.c[0].strip().k in ("MemberExpr", "ArraySubscriptExpr"):
                p_, _sz = self.addr(e.c[0].strip(), env, fn, depth)
                if p_ is not None:
                    return Ptr(p_.base, p_.off, pointee_size(e.t) or 1)
                return U
            if isinstance(v, Ptr) and ck == "PointerToIntegral":
                # the numeric address of a buffer: known only modulo the alignment class under analysis
                if self.align is not None and v.base in self.align:
                    return (1 << 40) + self.align[v.base] + v.off
                self.ptr_to_int = True
                return U
            if isinstance(v, Ptr):
                ps = pointee_size(e.t)
                if ps is not None and ck in ("BitCast", "NoOp", "CPointerToObjCPointerCast") or (ps is not None and k == "CStyleCastExpr"):
                    return Ptr(v.base, v.off, ps)
                return v
            if isinstance(v, int):
                if ck in ("IntegralCast", "IntegralToBoolean") or k == "CStyleCastExpr":
                    if ck == "IntegralToBoolean":
                        return 1 if v else 0
                    return wrap(v, e.t)
            if isinstance(v, Sym) and (ck in ("IntegralCast",) or k == "CStyleCastExpr") and "*" not in (e.t or ""):
                return sym_cast(v, e.t)
            if isinstance(v, Sym) and ck == "IntegralToBoolean":
                return Sym(("cmp", "!=", v.t, 0), 32)
            return v
        if k == "DeclRefExpr":
            if e.get("dk") == "enum":
                return e.cv
            d = e.get("d")
            if d is not None and d in env:
                return ("LV", d)
            if e.get("dk") == "global" and self.heap is not None:
                g = self.global_ptr(e.name, fn)
                if g is not None:
                    return g if "[" in (e.t or "") else ("MEM", e)
            if self.heap is not None and e.name in self.P.by_name and e.get("dk") not in ("local", "param", "global", "enum"):
                return FuncRef(e.name)
            return U
        if k == "IntegerLiteral" or k == "CharacterLiteral":
            return e.get("v")
        if k == "StringLiteral" and self.heap is not None and isinstance(e.get("v"), str):
            # a string literal is an object of its own: its bytes and the terminating NUL
            base = "lit:%d" % e.i
            try:
                bs = e.get("v").encode("utf-8")
            except Exception:
                return U
            if (base, len(bs)) not in self.heap:
                for i_, b_ in enumerate(bs):
                    self.heap[(base, i_)] = b_
                self.heap[(base, len(bs))] = 0
            return Ptr(base, 0, 1)
        if k == "UnaryOperator":
            return self.unary(e, env, fn, depth)
        if k in ("BinaryOperator", "CompoundAssignOperator"):
            return self.binary(e, env, fn, depth)
        if k == "ConditionalOperator":
            c = self.ev(e.c[0], env, fn, depth)
            c = self.rv(c, env)
            if isinstance(c, tuple) and c and c[0] == "MEM":
                c = self.load(c[1], c, env, fn, depth)
            if isinstance(c, (Ptr, FuncRef)):
                c = 1               # a pointer to an object is not null
            if isinstance(c, int):
                return self.rv(self.ev(e.c[1] if c else e.c[2], env, fn, depth), env)
            if self.decide(e):
                return self.rv(self.ev(e.c[1], env, fn, depth), env)
            return self.rv(self.ev(e.c[2], env, fn, depth), env)
        if k == "CallExpr":
            return self.call(e, env, fn, depth)
        if k == "MemberExpr" and not e.get("arrow") and e.c and e.c[0] is not None and \
                e.c[0].strip().k in ("CallExpr", "CompoundLiteralExpr", "ConditionalOperator"):
            b = self.rv(self.ev(e.c[0], env, fn, depth), env)      # member of a struct rvalue
            off = self.field_offset(e)
            return b.fields.get(off, U) if isinstance(b, StructVal) and off is not None else U
        if k == "ArraySubscriptExpr" or k == "MemberExpr":
            return ("MEM", e)
        if k == "CompoundLiteralExpr" and e.c and e.c[0] is not None and e.c[0].strip().k == "InitListExpr" and self.heap is not None:
            return self.init_list(e.c[0].strip(), e.t, env, fn, depth)
        if k == "InitListExpr" and self.heap is not None and self.record_of(e.t) is not None:
            return self.init_list(e, e.t, env, fn, depth)
        if k == "UnaryExprOrTypeTraitExpr":
            return e.cv if e.cv is not None else U
        if k in ("StmtExpr",):
            return U
        return U

    def rv(self, v, env):
        if isinstance(v, tuple) and v and v[0] == "LV":
            return env.get(v[1], U)
        if isinstance(v, tuple) and v and v[0] == "MEM":
            return U
        return v

    def load(self, lnode, v, env, fn, depth):
        """Value of an lvalue expression (LValueToRValue)."""
        if isinstance(v, tuple) and v and v[0] == "LV":
            if ("obj", v[1]) in env:
                o = env[("obj", v[1])]
                return self.snapshot(o, o.esz)
            return env.get(v[1], U)
        n = lnode.strip()
        if self.heap is not None and n.k in ("MemberExpr", "ArraySubscriptExpr") or (
                self.heap is not None and n.k == "UnaryOperator" and n.op == "*") or (
                self.heap is not None and n.k == "DeclRefExpr" and n.get("dk") == "global"):
            rsz = RECORD_SIZES.get(clean_type(n.t or "").replace("struct ", "").replace("const ", "").strip())
            if rsz:
                p, _s = self.addr(n, env, fn, depth)
                if p is not None:
                    return self.snapshot(p, rsz)
        if n.k == "UnaryOperator" and n.op == "*" and not _has_effects(n.c[0]):
            pv = self.rv(self.ev(n.c[0], env, fn, depth), env)
            if isinstance(pv, tuple) and pv and pv[0] == "ADDR" and len(pv) > 3:
                return pv[3].get(pv[1], U)          # *(&local) in the frame that owns the local
        if n.k in ("ArraySubscriptExpr", "MemberExpr") or (n.k == "UnaryOperator" and n.op == "*") or \
                (n.k == "DeclRefExpr" and n.get("dk") == "global"):
            p, size = self.addr(n, env, fn, depth)
            if p is not None:
                self.access(p, size, "r", lnode)
                if self.heap is not None and isinstance(p.off, int) and (p.base, p.off) in self.heap:
                    return self.heap[(p.base, p.off)]
                if self.heap is not None and isinstance(p.off, int):
                    for zb, lo, hi in getattr(self, "zeroed", ()):
                        if zb == p.base and lo <= p.off and p.off + (size or 1) <= hi:
                            return 0
                mem = getattr(self, "memory", None)
                if mem is not None and isinstance(p.off, int):
                    v2 = mem(p.base, p.off, size)
                    if v2 is not None:
                        return v2
            return U
        return U

    def unary(self, e, env, fn, depth):
        op = e.op
        if op in ("++", "--"):
            tgt = e.c[0].strip()
            cur = self.ev(tgt, env, fn, depth)
            old = self.rv(cur, env)
            if isinstance(cur, tuple) and cur and cur[0] == "MEM":
                old = self.heap_value(tgt, env, fn, depth)
            delta = 1 if op == "++" else -1
            if isinstance(old, Ptr):
                new = Ptr(old.base, old.off + delta * (old.esz or 1) if isinstance(old.off, int) else U, old.esz)
            elif isinstance(old, int):
                new = wrap(old + delta, e.t)
            else:
                new = U
            self.lval_set(tgt, new, env, fn, depth)
            return old if e.get("post") else new
        if op == "*":
            # lvalue; loads happen at LValueToRValue
            return ("MEM", e)
        if op == "&":
            t = e.c[0].strip()
            if t.k in ("ArraySubscriptExpr", "MemberExpr") or (t.k == "UnaryOperator" and t.op == "*"):
                p, size = self.addr(t, env, fn, depth)
                return p if p is not None else U
            if t.k == "DeclRefExpr" and ("obj", t.get("d")) in env:
                return env[("obj", t.get("d"))]
            if t.k == "DeclRefExpr" and t.get("dk") == "global" and self.heap is not None:
                g = self.global_ptr(t.name, fn)
                if g is not None:
                    return g
            if t.k == "DeclRefExpr" and t.get("d") is not None and t.get("dk") in ("local", "param", "slocal"):
                return ("ADDR", t.get("d"), t.t, env)      # address of a local: carries the frame it lives in
            return U
        v = self.rv(self.ev(e.c[0], env, fn, depth), env)
        if isinstance(v, Sym):
            if op == "!":
                return Sym(("cmp", "==", v.t, 0), 32)
            if op in ("~", "-"):
                return Sym((op, v.t, _bits_of(e.t)), _bits_of(e.t))
            if op == "+":
                return v
            return U
        if not isinstance(v, int):
            if op == "!" and isinstance(v, (Ptr, FuncRef)):
                return 0
            return U
        if op == "-":
            return wrap(-v, e.t)
        if op == "+":
            return v
        if op == "~":
            return wrap(~v, e.t)
        if op == "!":
            return 0 if v else 1
        return U

    def binary(self, e, env, fn, depth):
        op = e.op
        if op == ",":
            self.ev(e.c[0], env, fn, depth)
            return self.rv(self.ev(e.c[1], env, fn, depth), env)
        if op == "&&":
            a = self.rv(self.ev(e.c[0], env, fn, depth), env)
            if isinstance(a, int) and a == 0:
                return 0
            if not isinstance(a, (int, Ptr)):
                if not _has_effects(e.c[1]):
                    b = self.rv(self.ev(e.c[1], env, fn, depth), env)
                    return 0 if (isinstance(b, int) and b == 0) else U
                if not self.decide(e.c[0]):
                    return 0
            b = self.rv(self.ev(e.c[1], env, fn, depth), env)
            if isinstance(b, int):
                return (1 if b else 0) if isinstance(a, (int, Ptr)) else (0 if b == 0 else U)
            if isinstance(b, Ptr):
                return 1 if isinstance(a, (int, Ptr)) else U
            return U
        if op == "||":
            a = self.rv(self.ev(e.c[0], env, fn, depth), env)
            if (isinstance(a, int) and a != 0) or isinstance(a, Ptr):
                return 1
            if not isinstance(a, int):
                if not _has_effects(e.c[1]):
                    b = self.rv(self.ev(e.c[1], env, fn, depth), env)
                    return 1 if ((isinstance(b, int) and b != 0) or isinstance(b, Ptr)) else U
                if self.decide(e.c[0]):
                    return 1
            b = self.rv(self.ev(e.c[1], env, fn, depth), env)
            if isinstance(b, int):
                return (1 if b else 0) if isinstance(a, int) else (1 if b != 0 else U)
            if isinstance(b, Ptr):
                return 1
            return U
        if op == "=":
            v = self.rv(self.ev(e.c[1], env, fn, depth), env)
            self.ev_lhs_effects(e.c[0], env, fn, depth)
            self.lval_set(e.c[0], v, env, fn, depth)
            return v
        if e.k == "CompoundAssignOperator":
            lhs_ = e.c[0].strip()
            if _has_effects(lhs_) and (lhs_.k in ("ArraySubscriptExpr", "MemberExpr") or (lhs_.k == "UnaryOperator" and lhs_.op == "*")):
                # `*p++ |= x`: the lvalue is evaluated once
                p_, size_ = self.addr(lhs_, env, fn, depth)
                cur = U
                if p_ is not None:
                    self.access(p_, size_, "r", e)
                    if self.heap is not None and isinstance(p_.off, int):
                        if (p_.base, p_.off) in self.heap:
                            cur = self.heap[(p_.base, p_.off)]
                        else:
                            mem = getattr(self, "memory", None)
                            v2 = mem(p_.base, p_.off, size_) if mem is not None else None
                            cur = v2 if v2 is not None else U
                r = self.rv(self.ev(e.c[1], env, fn, depth), env)
                v = self.arith(op[:-1], cur, r, e.c[0].t, e)
                if p_ is not None:
                    self.access(p_, size_, "w", e)
                    if self.heap is not None and isinstance(p_.off, int):
                        self.heap[(p_.base, p_.off)] = wrap(v, lhs_.t) if isinstance(v, int) else v
                return v
            cur0 = self.ev(e.c[0].strip(), env, fn, depth)
            cur = self.rv(cur0, env)
            if isinstance(cur0, tuple) and cur0 and cur0[0] == "MEM":
                cur = self.heap_value(e.c[0].strip(), env, fn, depth)
                if not _has_effects(e.c[0]):
                    pr_, sr_ = self.addr(e.c[0].strip(), env, fn, depth)
                    if pr_ is not None:
                        self.access(pr_, sr_, "r", e)        # `x op= y` reads x before it writes it
            r = self.rv(self.ev(e.c[1], env, fn, depth), env)
            v = self.arith(op[:-1], cur, r, e.c[0].t, e)
            self.lval_set(e.c[0], v, env, fn, depth)
            return v
        a = self.rv(self.ev(e.c[0], env, fn, depth), env)
        b = self.rv(self.ev(e.c[1], env, fn, depth), env)
        return self.arith(op, a, b, e.t, e)

    def heap_value(self, lnode, env, fn, depth):
        """Current value of a memory lvalue when object state is tracked (self.heap), else Unknown."""
        n = lnode.strip()
        if n.k == "UnaryOperator" and n.op == "*" and not _has_effects(n.c[0]):
            pv = self.rv(self.ev(n.c[0], env, fn, depth), env)
            if isinstance(pv, tuple) and pv and pv[0] == "ADDR" and len(pv) > 3:
                return pv[3].get(pv[1], U)
        if self.heap is None:
            return U
        p, size = self.addr(lnode, env, fn, depth)
        if p is not None and isinstance(p.off, int) and (p.base, p.off) in self.heap:
            return self.heap[(p.base, p.off)]
        if p is not None and isinstance(p.off, int):
            for zb, lo, hi in getattr(self, "zeroed", ()):
                if zb == p.base and lo <= p.off and p.off + (size or 1) <= hi:
                    return 0
        mem = getattr(self, "memory", None)
        if mem is not None and p is not None and isinstance(p.off, int):
            v2 = mem(p.base, p.off, size)
            if v2 is not None:
                return v2
        return U

    def byte_at(self, base, off):
        """The byte stored at (base, off) when it is known: a byte-granular heap entry, a cleared region, the
        memory oracle, or a byte of a wider scalar stored at a lower offset (little-endian)."""
        v = self.heap.get((base, off)) if self.heap is not None else None
        if isinstance(v, int):
            return v & 0xFF
        if v is not None:
            return v
        mem = getattr(self, "memory", None)
        if mem is not None:
            v2 = mem(base, off, 1)
            if v2 is not None:
                return v2           # the oracle knows this byte: nothing stored at a lower offset covers it
        for back in range(1, 8):
            w = self.heap.get((base, off - back)) if self.heap is not None else None
            if isinstance(w, int):
                return (w >> (8 * back)) & 0xFF
            if w is not None:
                break
        for zb, lo, hi in getattr(self, "zeroed", ()):
            if zb == base and lo <= off < hi:
                return 0
        return U

    def ev_lhs_effects(self, lhs, env, fn, depth):
        pass

    def arith(self, op, a, b, t, e):
        if (isinstance(a, Sym) and isinstance(b, (int, Sym))) or (isinstance(b, Sym) and isinstance(a, int)):
            ta = a.t if isinstance(a, Sym) else a
            tb = b.t if isinstance(b, Sym) else b
            if op in ("<", "<=", ">", ">=", "==", "!="):
                return Sym(("cmp", op, ta, tb), 32)
            if op in ("+", "-", "*", "/", "%", "<<", ">>", "&", "|", "^"):
                return Sym((op, ta, tb, _bits_of(t)), _bits_of(t))
            return U
        if isinstance(a, Ptr) and isinstance(b, Sym) and op == "+" and isinstance(a.off, int):
            # pointer + opaque index: the offset becomes a term (bytes), so a rule can read which element was selected
            esz_ = a.esz or 1
            t_ = b.t if esz_ == 1 else ("*", b.t, esz_, 64)
            return Ptr(a.base, Sym(t_ if a.off == 0 else ("+", t_, a.off, 64), 64), a.esz)
        if isinstance(b, Ptr) and isinstance(a, Sym) and op == "+" and isinstance(b.off, int):
            esz_ = b.esz or 1
            t_ = a.t if esz_ == 1 else ("*", a.t, esz_, 64)
            return Ptr(b.base, Sym(t_ if b.off == 0 else ("+", t_, b.off, 64), 64), b.esz)
        if isinstance(a, Ptr) and isinstance(b, int) and op in ("+", "-"):
            if not isinstance(a.off, int):
                return a
            return Ptr(a.base, _wrap_off(a.off + (b if op == "+" else -b) * (a.esz or 1)), a.esz)
        if isinstance(b, Ptr) and isinstance(a, int) and op == "+":
            if not isinstance(b.off, int):
                return b
            return Ptr(b.base, _wrap_off(b.off + a * (b.esz or 1)), b.esz)
        if isinstance(a, Ptr) and isinstance(b, Ptr):
            if a.base == b.base and isinstance(a.off, int) and isinstance(b.off, int):
                if op == "-":
                    return (a.off - b.off) // (a.esz or 1)
                if op in ("<", "<=", ">", ">=", "==", "!="):
                    return int({"<": a.off < b.off, "<=": a.off <= b.off, ">": a.off > b.off,
                                ">=": a.off >= b.off, "==": a.off == b.off, "!=": a.off != b.off}[op])
            if a.base != b.base and op in ("==", "!="):
                return int(op == "!=")          # pointers into two different objects
            return U
        if isinstance(a, Ptr) and op in ("+", "-") and not isinstance(b, int):
            return Ptr(a.base, U, a.esz)
        if isinstance(a, (Ptr, FuncRef)) and isinstance(b, int) and op in ("==", "!=") and b == 0:
            return int(op == "!=")
        if isinstance(a, FuncRef) and isinstance(b, FuncRef) and op in ("==", "!="):
            return int((a == b) == (op == "=="))
        if not isinstance(a, int) or not isinstance(b, int):
            # partial knowledge: x & 0 etc. are not worth modelling
            return U
        try:
            if op == "+":
                r = a + b
            elif op == "-":
                r = a - b
            elif op == "*":
                r = a * b
            elif op == "/":
                if b == 0:
                    return U
                r = abs(a) // abs(b) * (1 if (a >= 0) == (b >= 0) else -1)
            elif op == "%":
                if b == 0:
                    return U
                r = abs(a) % abs(b) * (1 if a >= 0 else -1)
            elif op == "<<":
                r = a << (b & 63)
            elif op == ">>":
                r = a >> (b & 63)
            elif op == "&":
                r = a & b
            elif op == "|":
                r = a | b
            elif op == "^":
                r = a ^ b
            elif op == "<":
                return int(a < b)
            elif op == "<=":
                return int(a <= b)
            elif op == ">":
                return int(a > b)
            elif op == ">=":
                return int(a >= b)
            elif op == "==":
                return int(a == b)
            elif op == "!=":
                return int(a != b)
            else:
                return U
        except Exception:
            return U
        return wrap(r, t)

    def call(self, e, env, fn, depth):
        name = e.callee
        args = [self.rv(self.ev(a, env, fn, depth), env) for a in e.args()]
        if name is None and self.heap is not None and e.c and e.c[0] is not None:
            tgt = self.rv(self.ev(e.c[0], env, fn, depth), env)
            if isinstance(tgt, tuple) and tgt and tgt[0] == "MEM":
                tgt = self.load(tgt[1], tgt, env, fn, depth)
            if isinstance(tgt, FuncRef):
                name = tgt.name
        if name is None:
            return U
        if name in self.hooks:
            self.cur_env = env          # lets a hook model an out-parameter (`&local`) of the hooked callee
            return self.hooks[name](self, e, args)
        if name in ("memcpy", "memmove", "__builtin_memcpy", "__builtin_memmove", "__memcpy_chk"):
            n = args[2] if len(args) > 2 else U
            self.access(args[0], n, "w", e)
            self.access(args[1], n, "r", e)
            if isinstance(n, int) and n > (1 << 26):
                # a copy of more than 64 MB: no buffer of any rule is that large; the accesses are recorded (they are
                # outside whatever they point into), the bytes are not moved one by one
                return args[0]
            if isinstance(args[0], tuple) and args[0] and args[0][0] == "ADDR":
                tgt_env = args[0][3] if len(args[0]) > 3 else env
                val = U
                mem = getattr(self, "memory", None)
                if mem is not None and isinstance(args[1], Ptr) and isinstance(args[1].off, int) and isinstance(n, int):
                    v2 = mem(args[1].base, args[1].off, n)
                    if v2 is not None:
                        val = wrap(v2, args[0][2]) if isinstance(v2, int) else v2
                        ct_ = clean_type(args[0][2])
                        tb_ = UNSIGNED.get(ct_) or SIGNED.get(ct_)
                        if isinstance(v2, int) and isinstance(tb_, int) and 0 < 8 * n < tb_:
                            # fewer bytes than the object has: the low n bytes come from the source, the rest keep what they held
                            old_ = tgt_env.get(args[0][1])
                            if isinstance(old_, int):
                                m_ = (1 << (8 * n)) - 1
                                val = wrap((old_ & ~m_ & ((1 << tb_) - 1)) | (v2 & m_), args[0][2])
                            else:
                                val = U
                if val is U and self.heap is not None and isinstance(args[1], Ptr) and isinstance(args[1].off, int) and isinstance(n, int) and 0 < n <= 8:
                    # bytes the program itself stored one by one (little-endian target)
                    bs = [self.heap.get((args[1].base, args[1].off + i)) for i in range(n)]
                    if all(isinstance(b, int) for b in bs):
                        val = wrap(sum((b & 0xFF) << (8 * i) for i, b in enumerate(bs)), args[0][2])
                    else:
                        # opaque bytes (the oracle names them one by one): the scalar is their little-endian composition
                        bs = [self.byte_at(args[1].base, args[1].off + i) for i in range(n)]
                        if all(isinstance(b, int) or (isinstance(b, Sym) and b.bits == 8) for b in bs) and any(isinstance(b, Sym) for b in bs):
                            t_ = None
                            for i, b in enumerate(bs):
                                bt = b.t if isinstance(b, Sym) else (b & 0xFF)
                                part = bt if i == 0 else ("<<", bt, 8 * i, 8 * n)
                                t_ = part if t_ is None else ("|", t_, part, 8 * n)
                            val = Sym(t_, 8 * n)
                tgt_env[args[0][1]] = val
            elif isinstance(args[1], tuple) and args[1] and args[1][0] == "ADDR" and self.heap is not None \
                    and isinstance(args[0], Ptr) and isinstance(args[0].off, int) and isinstance(n, int) and 0 < n <= 8:
                # memcpy(p, &scalar, n): the scalar's bytes in memory order (little-endian target)
                src_env = args[1][3] if len(args[1]) > 3 else env
                v = src_env.get(args[1][1], U)
                if isinstance(v, Sym) and v.bits == 8 * n:
                    for i in range(1, n):
                        self.heap.pop((args[0].base, args[0].off + i), None)
                    self.heap[(args[0].base, args[0].off)] = v         # an opaque term the size of the copy: kept whole
                else:
                    for i in range(n):
                        self.heap[(args[0].base, args[0].off + i)] = ((v >> (8 * i)) & 0xFF) if isinstance(v, int) else U
            elif self.heap is not None and isinstance(args[0], Ptr) and isinstance(args[1], Ptr) and isinstance(n, int) \
                    and isinstance(args[0].off, int) and isinstance(args[1].off, int) and 0 < n <= (1 << 20):
                # tracked memory to tracked memory: whatever is stored at each source offset moves to the same
                # offset of the destination (scalars stay whole); bytes nobody stored are read through the cleared
                # regions / the memory oracle
                (db, do), (sb, so) = (args[0].base, args[0].off), (args[1].base, args[1].off)
                vals = [self.heap.get((sb, so + i)) for i in range(n)]
                stored = any(v is not None for v in vals)
                for i in range(n):
                    v = vals[i]
                    if v is None and not stored:
                        v = self.byte_at(sb, so + i)
                        v = None if v is U else v
                    if v is None:
                        self.heap.pop((db, do + i), None)
                    else:
                        self.heap[(db, do + i)] = v
                self.zeroed = [z for z in getattr(self, "zeroed", []) if not (z[0] == db and z[1] < do + n and do < z[2])] + \
                    [(db, do + (z[1] - so if z[1] > so else 0), do + min(n, z[2] - so)) for z in getattr(self, "zeroed", [])
                     if z[0] == sb and z[1] < so + n and so < z[2]]
            return args[0]
        if name in ("strlen", "__builtin_strlen") and self.heap is not None and args and isinstance(args[0], Ptr) and isinstance(args[0].off, int) \
                and name not in self.hooks:
            n_ = 0
            while n_ < 4096:
                b_ = self.heap.get((args[0].base, args[0].off + n_))
                if not isinstance(b_, int):
                    return U
                if b_ & 0xFF == 0:
                    self.access(args[0], n_ + 1, "r", e)
                    return n_
                n_ += 1
            return U
        if name in ("memset", "__builtin_memset", "__memset_chk"):
            self.access(args[0], args[2] if len(args) > 2 else U, "w", e)
            if self.heap is not None and isinstance(args[0], Ptr) and isinstance(args[0].off, int) and len(args) > 2 \
                    and isinstance(args[2], int) and 0 < args[2] <= (1 << 20):
                lo, hi = args[0].off, args[0].off + args[2]
                for k_ in [k_ for k_ in self.heap if k_[0] == args[0].base and isinstance(k_[1], int) and lo <= k_[1] < hi]:
                    if args[1] == 0:
                        self.heap[k_] = 0       # a member the caller tracks stays visible in the final heap, now cleared
                    else:
                        del self.heap[k_]
                if args[1] == 0:
                    self.zeroed.append((args[0].base, lo, hi))
                else:
                    self.zeroed = [z for z in getattr(self, "zeroed", []) if not (z[0] == args[0].base and z[1] < hi and lo < z[2])]
            return args[0]
        if name in ("memcmp",):
            self.access(args[0], args[2], "r", e)
            self.access(args[1], args[2], "r", e)
            if self.heap is not None and isinstance(args[0], Ptr) and isinstance(args[1], Ptr) and isinstance(args[2], int) \
                    and isinstance(args[0].off, int) and isinstance(args[1].off, int) and 0 <= args[2] <= 4096:
                # both operands are tracked bytes: the comparison has one outcome
                for i in range(args[2]):
                    x, y = self.byte_at(args[0].base, args[0].off + i), self.byte_at(args[1].base, args[1].off + i)
                    if not isinstance(x, int) or not isinstance(y, int):
                        return U
                    if (x & 0xFF) != (y & 0xFF):
                        return -1 if (x & 0xFF) < (y & 0xFF) else 1
                return 0
            return U
        if name in VEC:
            for kind, ai, width in VEC[name]:
                if ai < len(args):
                    self.access(args[ai], width, kind, e)
            return U
        if name.startswith("_mm") and ("maskz_loadu" in name or "mask_loadu" in name or "mask_storeu" in name
                                      or "maskstore" in name or "maskload" in name):
            # masked forms touch at most the bytes selected by the mask: record as masked access
            width = 64 if name.startswith("_mm512") else 32 if name.startswith("_mm256") else 16
            for a in args:
                if isinstance(a, Ptr):
                    self.access(a, width, "w" if "store" in name else "r", e, masked=True)
            return U
        if name.startswith("_mm") and "gather" in name:
            for a in args:
                if isinstance(a, Ptr):
                    self.unknown_mem.append((a.base, "r", e))
            return U
        if name in ("__builtin_prefetch", "_mm_prefetch"):
            return U
        if name in ("__builtin_expect",):
            return args[0]
        if name in ("__builtin_ctz", "__builtin_ctzll", "__builtin_ctzl", "__builtin_clz", "__builtin_clzll",
                    "__builtin_clzl", "__builtin_popcount", "__builtin_popcountll", "__builtin_popcountl",
                    "_mm_popcnt_u32", "_mm_popcnt_u64"):
            v = args[0] if args else U
            if not isinstance(v, int):
                return U
            bits = 64 if name.endswith(("ll", "l", "u64")) else 32
            v &= (1 << bits) - 1
            if "popc" in name:
                return bin(v).count("1")
            if v == 0:
                return U   # undefined behaviour of clz/ctz at 0
            if "clz" in name:
                return bits - v.bit_length()
            return (v & -v).bit_length() - 1
        # repo function: inline
        cands = [f for f in self.P.by_name.get(name, []) if f.file == fn.file] or \
                [f for f in self.P.by_name.get(name, [])]
        if cands and depth < self.inline_depth and not name.startswith("_mm"):
            callee = cands[0]
            cenv = {}
            for p, v in zip(callee.params, args):
                cenv[p["d"]] = v
                if isinstance(v, StructVal) and self.heap is not None:
                    cenv[("obj", p["d"])] = self.new_object(p["n"], v.size)     # a struct passed by value
                    self.store_struct(cenv[("obj", p["d"])], v)
                    cenv[p["d"]] = U
            try:
                self.stmt(callee.body, cenv, callee, depth + 1)
            except _Return as r:
                return r.v if r.v is not None else U
            return U
        if name.startswith("_mm") or name.startswith("__builtin"):
            return U
        # unknown external/un-inlined call with a tracked pointer argument: note it
        if any(isinstance(a, Ptr) for a in args):
            self.unknown_calls.add(name)
        return U
