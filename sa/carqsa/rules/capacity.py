"""R17: a buffer pointer and its capacity field move together.

`if (need > obj->capacity) { free; obj->buf = malloc(need); obj->capacity = need; }` is only safe
when capacity > 0 implies that buf holds capacity elements. Every store of NULL into a buffer member
(dropping a borrowed view, cleaning up after a failed allocation) must therefore be followed by a
store to the capacity member before the capacity is read again or the function returns."""
from ..facts import src
from ..util import is_assign
from .flow import find_path_avoiding, reaches_exit_avoiding, describe_path


def _member_store(e, field):
    if is_assign(e) and e.op == "=":
        t = e.c[0].strip()
        return t.k == "MemberExpr" and t.name == field
    return False


def _reads_member(e, field):
    """element e reads obj->field (an rvalue use)"""
    if e.k == "MemberExpr" and e.name == field:
        p = e.parent
        while p is not None and p.k in ("ParenExpr",):
            p = p.parent
        if p is not None and is_assign(p) and p.op == "=" and p.c[0].strip() is e:
            return False
        return True
    return False


def check(ctx, fns, pairs, rule="R17.capacity", key_prefix="ptr-capacity"):
    """pairs: [(pointer member, capacity member)]"""
    P = ctx.P
    n = 0
    for fn in fns:
        if fn.cfg is None:
            continue
        w = fn.cfg.where()
        seen = {}
        for ptr, cap in pairs:
            for s in fn.body.walk():
                if not _member_store(s, ptr) or s.c[1].strip_casts().cv != 0:
                    continue
                if s.i not in w:
                    continue
                rec = P.records.get((s.c[0].strip().get("rec") or "").replace("struct ", ""))
                if rec is not None and not any(f_["n"] == cap for f_ in rec["fields"]):
                    continue        # a record that has the pointer member but no such capacity member: not an instance
                n += 1
                k = "%s|%s:%s|%s" % (key_prefix, P.rel(fn.file), fn.name, ptr)
                seen[k] = seen.get(k, 0) + 1
                key = k + ("#%d" % (seen[k] - 1) if seen[k] > 1 else "")
                b, i = w[s.i]
                ev = lambda e: _member_store(e, cap)
                p1 = find_path_avoiding(fn.cfg, ev, lambda e: _reads_member(e, cap), start=(b, i + 1))
                p2 = reaches_exit_avoiding(fn.cfg, ev, start=(b, i + 1)) if p1 is None else None
                path = p1 or p2
                ctx.ob(rule, key, P.where(s),
                       "after `%s = NULL` the capacity `%s` is reset before it is read again or the function returns"
                       % (ptr, cap), path is None,
                       ("%s with a stale capacity: %s" % ("capacity read" if p1 else "function exit",
                                                          describe_path(fn, fn.cfg, path))) if path else "")
    return n

