"""Semantic trace of the libzstd wrapper against a model of the library.

carquet_zstd_decompress is executed abstractly with libzstd hooked by a model of *a valid frame that
decodes to N bytes*: the decompression entry points return N when the destination they are given holds N
bytes (an error code otherwise), ZSTD_isError recognises error codes, and the frame-header queries answer
what the scenario says - the content size may be recorded in the frame (N) or absent
(ZSTD_CONTENTSIZE_UNKNOWN: streaming encoders such as zstd-jni omit it, and the format allows that).
Scenarios: N equal to / below the capacity x content size recorded / absent x a decompression context
available / not. In every scenario the wrapper must report OK and N, and must hand the library the
caller's source and destination extents unchanged. A library function the model does not know makes the
rule inconclusive, never a violation."""
from . import sem
from .skeleton import Ptr, U

ZS = "src/compression/zstd.c"
ERR_BASE = (1 << 64) - 120
UNKNOWN = (1 << 64) - 1
CS_ERROR = (1 << 64) - 2
MODELLED = {"ZSTD_createDCtx", "ZSTD_decompressDCtx", "ZSTD_decompress", "ZSTD_isError", "ZSTD_getFrameContentSize",
            "ZSTD_findFrameCompressedSize", "ZSTD_decompressBound", "ZSTD_getDecompressedSize", "ZSTD_DCtx_reset",
            "ZSTD_freeDCtx", "ZSTD_getErrorName", "ZSTD_getErrorCode"}


def _externals(P, fn, seen=None):
    seen = set() if seen is None else seen
    out = set()
    if fn.key() in seen:
        return out
    seen.add(fn.key())
    for c in fn.calls():
        if not c.callee:
            continue
        local = [g for g in P.by_name.get(c.callee, []) if g.file == fn.file]
        if local:
            out |= _externals(P, local[0], seen)
        elif not P.by_name.get(c.callee):
            out.add(c.callee)
    return out


def bid(p):
    return (p.base, p.off) if isinstance(p, Ptr) else p


def trace(P, n, cap, size_known, have_ctx, src_size=77):
    fn = P.fn("carquet_zstd_decompress", ZS)

    def dec(ev, dst, dcap, src, ssize):
        ev.append(("decompress", bid(dst), dcap, bid(src), ssize))
        if isinstance(dcap, int) and dcap >= n:
            return n
        return ERR_BASE + 50 if isinstance(dcap, int) else U
    hooks = {
        "ZSTD_createDCtx": lambda ev, a, it: Ptr("dctx", 0, 1) if have_ctx else 0,
        "ZSTD_decompressDCtx": lambda ev, a, it: dec(ev, a[1], a[2], a[3], a[4]),
        "ZSTD_decompress": lambda ev, a, it: dec(ev, a[0], a[1], a[2], a[3]),
        "ZSTD_isError": lambda ev, a, it: (1 if a[0] >= ERR_BASE else 0) if isinstance(a[0], int) else U,
        "ZSTD_getFrameContentSize": lambda ev, a, it: n if size_known else UNKNOWN,
        "ZSTD_getDecompressedSize": lambda ev, a, it: n if size_known else 0,
        "ZSTD_findFrameCompressedSize": lambda ev, a, it: a[1],
        "ZSTD_decompressBound": lambda ev, a, it: n if size_known else n + 4096,
        "ZSTD_DCtx_reset": lambda ev, a, it: 0, "ZSTD_freeDCtx": lambda ev, a, it: 0,
        "ZSTD_getErrorName": lambda ev, a, it: Ptr("errname", 0, 1), "ZSTD_getErrorCode": lambda ev, a, it: 0,
        "pthread_once": lambda ev, a, it: 0, "pthread_getspecific": lambda ev, a, it: 0, "pthread_setspecific": lambda ev, a, it: 0,
    }
    globs = {}
    heap0 = {}
    for unit, g in P.globals:
        if P.rel(g["file"]) == ZS and g.get("def") and not g.get("const") and "*" in g["t"]:
            globs[g["name"]] = 8
            heap0[("g:" + g["name"], 0)] = 0
    args = [Ptr("src", 0, 1), src_size, Ptr("dst", 0, 1), cap, Ptr("out_size", 0, 8)]
    ret, ev, heap = sem.run(P, fn, args, heap0=heap0, hooks=hooks, single=True, max_forks=8, budget=50000, globals_=globs)
    return ret, ev, heap.get(("out_size", 0))


def check(ctx, rule="R28.codec-wrapper", key="zstd-valid-frame|" + ZS + ":carquet_zstd_decompress"):
    P = ctx.P
    fn = P.fn("carquet_zstd_decompress", ZS)
    what = ("carquet_zstd_decompress returns OK and the decoded size for every valid frame that fits the destination, whether or "
            "not the frame records its content size, and hands the library the caller's extents (libzstd modelled; 8 scenarios)")
    unknown = sorted(x for x in _externals(P, fn) if x not in MODELLED and not x.startswith("pthread_") and not x.startswith("__builtin"))
    if unknown:
        ctx.inconclusive(rule, key, P.where(fn.body), what, "library functions outside the model: %s" % ", ".join(unknown))
        return 0
    bad = None
    n_sc = 0
    try:
        for n, cap in ((480, 480), (100, 480)):
            for size_known in (True, False):
                for have_ctx in (True, False):
                    n_sc += 1
                    ret, ev, out = trace(P, n, cap, size_known, have_ctx)
                    sc = "frame of %d bytes into %d, content size %s, context %s" % (
                        n, cap, "recorded" if size_known else "absent", "available" if have_ctx else "unavailable")
                    decs = [e for e in ev if e[0] == "decompress"]
                    if ret != 0 or out != n:
                        bad = bad or "%s: returns %s with size %s" % (sc, ret, out)
                    elif len(decs) != 1 or decs[0][1:] != (("dst", 0), cap, ("src", 0), 77):
                        bad = bad or "%s: the library is called with %s" % (sc, decs)
    except sem.Inconclusive as ex:
        ctx.inconclusive(rule, key, P.where(fn.body), what, str(ex))
        return 0
    ctx.ob(rule, key, P.where(fn.body), what, bad is None, bad or "")
    # a destination smaller than the frame is refused
    try:
        ret, ev, out = trace(P, 480, 100, True, True)
        ctx.ob(rule, key + "|small", P.where(fn.body), "a frame larger than the destination is reported as an error", ret not in (0, None) and ret is not U,
               "returns %s" % (ret,))
    except sem.Inconclusive as ex:
        ctx.inconclusive(rule, key + "|small", P.where(fn.body), "a frame larger than the destination is reported as an error", str(ex))
    return n_sc


# ---- compression side: status, and the state a reused context is left in
C_MODELLED = {"ZSTD_maxCLevel", "ZSTD_minCLevel", "ZSTD_compress", "ZSTD_isError", "ZSTD_createCCtx", "ZSTD_freeCCtx", "ZSTD_CCtx_setParameter",
              "ZSTD_compressStream2", "ZSTD_CCtx_reset", "ZSTD_compress2", "ZSTD_compressCCtx", "ZSTD_compressBound", "ZSTD_getErrorName",
              "ZSTD_CCtx_setPledgedSrcSize", "ZSTD_defaultCLevel"}


def check_compress(ctx, rule="R28.codec-wrapper", key="zstd-compress|" + ZS + ":carquet_zstd_compress"):
    """carquet_zstd_compress against a model of libzstd: the one-shot entry points return a size or an error code;
    a streaming call on a context either finishes the frame (0), leaves it unfinished (> 0: the destination was too
    small) or fails - in the last two cases the context stays inside a frame until it is reset or freed.
    The wrapper must report OK exactly when the frame was finished, and must not return with a context it keeps
    still inside a frame (the next call on that thread would continue the dead frame)."""
    P = ctx.P
    fn = P.fn("carquet_zstd_compress", ZS)
    what = ("carquet_zstd_compress reports OK exactly when the library finished the frame, and leaves no compression context inside an "
            "unfinished frame (libzstd modelled: one-shot ok/error; streaming finished / unfinished / error; context available or not)")
    unknown = sorted(x for x in _externals(P, fn) if x not in C_MODELLED and x not in MODELLED and not x.startswith("pthread_") and not x.startswith("__builtin"))
    if unknown:
        ctx.inconclusive(rule, key, P.where(fn.body), what, "library functions outside the model: %s" % ", ".join(unknown))
        return 0
    bad = None
    n = 0
    try:
        for have_ctx in (True, False):
            for outcome in ("finished", "unfinished", "error"):
                n += 1
                st = {"ctx": None, "dirty": False, "calls": 0}

                def oneshot(ev, a, it, st=st):
                    st["calls"] += 1
                    return 33 if outcome == "finished" else ERR_BASE + 70

                def stream(ev, a, it, st=st):
                    st["calls"] += 1
                    if outcome == "finished":
                        st["dirty"] = False
                        return 0
                    st["dirty"] = True
                    return 5 if outcome == "unfinished" else ERR_BASE + 70

                def reset(ev, a, it, st=st):
                    st["dirty"] = False
                    return 0

                def create(ev, a, it, st=st):
                    if not have_ctx:
                        return 0
                    st["ctx"] = "live"
                    return Ptr("cctx", 0, 1)

                def freec(ev, a, it, st=st):
                    st["ctx"] = "freed"
                    st["dirty"] = False
                    return 0
                hooks = {"ZSTD_maxCLevel": lambda ev, a, it: 22, "ZSTD_minCLevel": lambda ev, a, it: -7, "ZSTD_defaultCLevel": lambda ev, a, it: 3,
                         "ZSTD_compress": oneshot, "ZSTD_compress2": oneshot, "ZSTD_compressCCtx": oneshot,
                         "ZSTD_isError": lambda ev, a, it: (1 if a[0] >= ERR_BASE else 0) if isinstance(a[0], int) else U,
                         "ZSTD_createCCtx": create, "ZSTD_freeCCtx": freec, "ZSTD_CCtx_setParameter": lambda ev, a, it: 0,
                         "ZSTD_CCtx_setPledgedSrcSize": lambda ev, a, it: 0, "ZSTD_compressStream2": stream, "ZSTD_CCtx_reset": reset,
                         "ZSTD_compressBound": lambda ev, a, it: 1000, "ZSTD_getErrorName": lambda ev, a, it: Ptr("errname", 0, 1)}
                args = [Ptr("src", 0, 1), 77, Ptr("dst", 0, 1), 1000, Ptr("out_size", 0, 8), 3]
                ret, ev, heap = sem.run(P, fn, args, heap0={}, hooks=hooks, single=True, max_forks=8, budget=50000,
                                        on_start=lambda st=st: st.update({"ctx": None, "dirty": False, "calls": 0}))
                sc = "library outcome %s, compression context %s" % (outcome, "available" if have_ctx else "unavailable")
                if st["calls"] == 0:
                    bad = bad or "%s: no compression call is made" % sc
                elif (ret == 0) != (outcome == "finished"):
                    bad = bad or "%s: returns %s" % (sc, ret)
                elif st["dirty"] and st["ctx"] == "live":
                    bad = bad or "%s: returns %s with the context it keeps still inside the unfinished frame (no ZSTD_CCtx_reset / ZSTD_freeCCtx on this path)" % (sc, ret)
    except sem.Inconclusive as ex:
        ctx.inconclusive(rule, key, P.where(fn.body), what, str(ex))
        return 0
    ctx.ob(rule, key, P.where(fn.body), what, bad is None, bad or "")
    return n
