"""R33: a signed value decoded from the input is sign-checked before it offsets a pointer or sizes a copy.

Instance: a pointer addition `p + X` or a memcpy/memmove/memset length X where X is (a local initialised from)
an element A[i] of an array that the same function had filled by a callee (the array was handed, non-const, to a
decoding call): its elements are whatever the input says, negative values included.
Accepted guards:
  - the use is inside the true branch of `X > 0` / `X >= 0`, or is dominated by `if (X < 0) <exit>`;
  - an earlier loop of the function tests the same array element-wise (`A[j] < 0`, alone or in an `||` chain)
    and leaves the function when the test holds - or a static helper that is handed the array does so and its
    call dominates the use.
Without one, X = -1 moves the pointer in front of the buffer (or becomes a huge size): violation."""
from ..facts import src
from ..util import is_assign

SIGNED = ("int", "int32_t", "int64_t", "long", "ssize_t", "ptrdiff_t", "int16_t", "short", "long long")
COPY = ("memcpy", "memmove", "memset")


def _t(n):
    return (n.t or "").replace("const ", "").strip()


def _filled_arrays(fn):
    """names of pointer locals handed as a non-const argument to a callee (other than free/memset)"""
    out = set()
    for c in fn.calls():
        if not c.callee or c.callee in ("free", "memset", "realloc"):
            continue
        for a in c.args():
            x = a.strip_casts() if a is not None else None
            if x is not None and x.k == "DeclRefExpr" and x.get("dk") == "local" and "*" in _t(x) and "const" not in (a.t or ""):
                out.add(x.get("d"))
    return out


def _origin(fn, x, filled):
    """(array decl, array name) when x is / was loaded from an element of a filled array"""
    x = x.strip_casts()
    if x.k == "ArraySubscriptExpr":
        b = x.c[0].strip_casts()
        if b.k == "DeclRefExpr" and b.get("d") in filled:
            return b.get("d"), b.name
    if x.k == "DeclRefExpr" and x.get("dk") == "local":
        defs = []
        for n in fn.body.walk():
            if n.k == "DeclStmt":
                for dd, init in zip(n.get("decls", []), n.c):
                    if dd.get("d") == x.get("d") and init is not None:
                        defs.append(init)
            elif is_assign(n) and n.c[0].strip().k == "DeclRefExpr" and n.c[0].strip().get("d") == x.get("d"):
                defs.append(n.c[1] if n.op == "=" else None)
        if len(defs) == 1 and defs[0] is not None:
            return _origin(fn, defs[0], filled)
    return None


def _sign_tests(node):
    """[(tested expression text, 'neg'|'pos')] for the leaves of a condition"""
    out = []
    c = node.strip_casts() if node is not None else None
    if c is None:
        return out
    if c.k == "BinaryOperator" and c.op in ("||", "&&"):
        return _sign_tests(c.c[0]) + _sign_tests(c.c[1])
    if c.k == "BinaryOperator" and c.op in ("<", "<=", ">", ">=") and c.c[1].cv is not None and c.c[1].cv in (0, 1, -1):
        k = c.c[1].cv
        txt = src(c.c[0].strip_casts())
        if (c.op == "<" and k in (0, 1)) or (c.op == "<=" and k in (-1, 0)):
            out.append((txt, "neg"))
            # (a | b) < 0: the sign bit of an OR is the OR of the sign bits - every operand is tested
            def ors(x):
                x = x.strip_casts()
                if x.k == "BinaryOperator" and x.op == "|":
                    return ors(x.c[0]) + ors(x.c[1])
                return [x]
            if k == 0 and c.op == "<":
                for o_ in ors(c.c[0]):
                    if src(o_) != txt:
                        out.append((src(o_), "neg"))
        elif (c.op == ">" and k in (0, -1)) or (c.op == ">=" and k in (0, 1)):
            out.append((txt, "pos"))
    return out


def check(ctx, fns, rule="R33.signed-offset", key_prefix="signed-offset"):
    P = ctx.P
    n = 0
    for fn in fns:
        if fn.body is None or fn.cfg is None:
            continue
        filled = _filled_arrays(fn)
        if not filled:
            continue
        uses = []
        for x in fn.body.walk():
            if x.k == "BinaryOperator" and x.op == "+" and "*" in (x.t or "") and x.c[1] is not None and x.c[1].cv is None \
                    and _t(x.c[1].strip_casts()) in SIGNED:
                uses.append((x, x.c[1], "offsets the pointer `%s`" % src(x.c[0])[:30]))
            elif x.k == "CallExpr" and x.callee in COPY and len(x.args()) == 3 and x.args()[2].cv is None \
                    and _t(x.args()[2].strip_casts()) in SIGNED:
                uses.append((x, x.args()[2], "is the length of a %s" % x.callee))
        per = {}
        for use, xn, role in uses:
            org = _origin(fn, xn, filled)
            if org is None:
                continue
            adecl, aname = org
            n += 1
            xt = src(xn.strip_casts())
            idx = per[xt] = per.get(xt, -1) + 1
            key = "%s|%s:%s|%s#%d" % (key_prefix, P.rel(fn.file), fn.name, xt, idx)
            what = "`%s`, an element of the decoded array %s, is known to be non-negative where it %s" % (xt, aname, role)
            ok = None
            # (a) enclosing / dominating test of X itself
            cur = use
            for a in use.ancestors():
                if a.k == "IfStmt":
                    kids = [k for k in a.c if k is not None]
                    inthen = len(kids) > 1 and any(z is cur for z in kids[1].walk())
                    tests = _sign_tests(kids[0])
                    if inthen and (xt, "pos") in tests and kids[0].strip_casts().op != "||" if kids[0].strip_casts().k == "BinaryOperator" else inthen and (xt, "pos") in tests:
                        ok = "inside `%s`" % src(kids[0])[:40]
                cur = a
            if ok is None:
                for g in fn.body.walk():
                    if g.k != "IfStmt":
                        continue
                    kids = [k for k in g.c if k is not None]
                    tests = _sign_tests(kids[0])
                    exits = len(kids) > 1 and any(r.k in ("ReturnStmt", "GotoStmt", "ContinueStmt", "BreakStmt") for r in kids[1].walk())
                    if not exits or (kids[0].strip_casts().k == "BinaryOperator" and kids[0].strip_casts().op == "&&"):
                        continue
                    w_ = fn.cfg.where()
                    firsts = [z for z in kids[0].walk() if z.i in w_]
                    if (xt, "neg") in tests and firsts and fn.cfg.node_dominates(min(firsts, key=lambda z: z.i), use):
                        ok = "after `if (%s) <exit>`" % src(kids[0])[:40]
                    # (b) element-wise validation of the array in an earlier loop
                    for txt, pol in tests:
                        if pol == "neg" and txt.startswith(aname + "[") and any(a.k in ("ForStmt", "WhileStmt") for a in g.ancestors()) \
                                and any(r.k in ("ReturnStmt", "GotoStmt") for r in kids[1].walk()) and g.l < use.l:
                            ok = ok or "the loop at line %d rejects negative elements of %s" % (g.l, aname)
            if ok is None:
                # (c) the element-wise validation lives in a static helper that receives the array
                for c in fn.calls():
                    hs = [h for h in P.by_name.get(c.callee or "", []) if h.file == fn.file and h.static and h.body is not None]
                    if not hs or not fn.cfg.node_dominates(c, use):
                        continue
                    h = hs[0]
                    for ai, a in enumerate(c.args()):
                        x = a.strip_casts() if a is not None else None
                        if x is None or x.k != "DeclRefExpr" or x.get("d") != adecl or ai >= len(h.params):
                            continue
                        pname = h.params[ai]["n"]
                        for g in h.body.walk():
                            if g.k != "IfStmt" or not any(z.k in ("ForStmt", "WhileStmt") for z in g.ancestors()):
                                continue
                            kids = [k for k in g.c if k is not None]
                            if kids[0].strip_casts().k == "BinaryOperator" and kids[0].strip_casts().op == "&&":
                                continue
                            errs = [r for r in kids[1].walk() if r.k == "ReturnStmt" and r.c and r.c[0] is not None and r.c[0].cv is not None]
                            if errs and any(pol == "neg" and txt.startswith(pname + "[") for txt, pol in _sign_tests(kids[0])):
                                ok = "%s() rejects negative elements of %s before this use" % (h.name, aname)
            if ok:
                ctx.ok(rule, key, P.where(use), what, ok)
            else:
                ctx.bad(rule, key, P.where(use), what, "no test of the sign of `%s` (or of the elements of %s) covers this use: with %s = -1 the %s" % (
                    xt, aname, xt, "pointer moves in front of its buffer" if "offsets" in role else "length becomes SIZE_MAX"))
    return n
