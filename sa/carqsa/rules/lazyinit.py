"""R22: lazily built tables are built before they are read.

Pattern (discovered structurally, then armed): a file-scope array T is stored to only by one function
INIT of its file; INIT also sets a file-scope scalar flag F to a non-zero constant; the other
functions call INIT under a test of F. The rule: in every other function that reads T, every CFG path
from the entry to a read of T passes a call of INIT or leaves a test of F through the edge on which F
is known to be set. A read reachable without either uses whatever the table holds before it is
built (zeros) - the result then depends on whether some earlier call happened to build it."""
from ..facts import src
from ..util import is_assign
from .flow import find_path_avoiding, describe_path


def _global_ref(n, names):
    return n.k == "DeclRefExpr" and n.get("dk") == "global" and n.name in names


def _base_global(lv):
    x = lv.strip_casts()
    while x is not None and x.k in ("ArraySubscriptExpr", "MemberExpr"):
        x = x.c[0].strip_casts() if x.c else None
    return x.name if x is not None and x.k == "DeclRefExpr" and x.get("dk") == "global" else None


def instances(P, relfiles):
    """[(file, INIT function, flag name, {table names})]"""
    out = []
    for rf in relfiles:
        fns = P.funcs_in(rf)
        writers = {}      # global -> set(function names storing to its elements)
        flagsets = {}     # function name -> {global scalar: constant}
        for f in fns:
            for n in f.body.walk():
                if is_assign(n):
                    tgt = n.c[0].strip_casts()
                    if tgt.k in ("ArraySubscriptExpr",):
                        g = _base_global(tgt)
                        if g:
                            writers.setdefault(g, set()).add(f.name)
                    elif tgt.k == "DeclRefExpr" and tgt.get("dk") == "global" and n.op == "=" and n.c[1].cv not in (None, 0):
                        flagsets.setdefault(f.name, {})[tgt.name] = n.c[1].cv
        for init, flags in sorted(flagsets.items()):
            tables = set(g for g, ws in writers.items() if ws == {init})
            if not tables:
                continue
            # the flag must be tested where INIT is called
            for flag in sorted(flags):
                guarded = 0
                for f in fns:
                    for c in f.calls():
                        if c.callee == init and any(
                                a.k == "IfStmt" and any(_global_ref(x, {flag}) for x in [y for y in a.c if y is not None][0].walk())
                                for a in c.ancestors()):
                            guarded += 1
                if guarded:
                    out.append((rf, init, flag, tables))
    return out


def _cut_for(flag):
    def cut(B, si):
        # the edge on which the flag is known to be set: `!F` false / `F` true (a condition on F alone)
        if B.cond is None or len(B.succs) != 2:
            return False
        c = B.cond.strip_casts()
        neg = False
        while c is not None and c.k == "UnaryOperator" and c.op == "!":
            neg = not neg
            c = c.c[0].strip_casts()
        if c is not None and _global_ref(c, {flag}):
            return (si == 0) != neg
        return False
    return cut


def _unprotected(P, rf, f, init, flag, is_target, depth):
    """A witness (function, block path) that reaches a target of f without the tables being built, or None.
    A static helper that reads the tables unguarded is fine when every call of it happens after the build."""
    path = find_path_avoiding(f.cfg, lambda e: e.k == "CallExpr" and e.callee == init, is_target, _cut_for(flag))
    if path is None:
        return None
    if not f.static or depth <= 0:
        return (f, path)
    fns = P.funcs_in(rf)
    sites = [(g, c) for g in fns if g.cfg is not None for c in g.calls() if c.callee == f.name]
    refs = sum(1 for g in fns for x in g.body.walk() if x.k == "DeclRefExpr" and x.name == f.name and x.get("dk") not in ("local", "param"))
    if not sites or refs > len(sites):
        return (f, path)            # never called here, or its address escapes: judged on its own
    for g, c in sites:
        if g.name == init:
            continue
        w = _unprotected(P, rf, g, init, flag, lambda e, c=c: e is c or (e.k == "CallExpr" and e.i == c.i), depth - 1)
        if w is not None:
            return w
    return None


def check(ctx, relfiles, rule="R22.lazy-init", key_prefix="lazy-init"):
    P = ctx.P
    n = 0
    inst = instances(P, relfiles)
    for rf, init, flag, tables in inst:
        for f in P.funcs_in(rf):
            if f.name == init or f.cfg is None:
                continue
            reads = [x for x in f.body.walk() if _global_ref(x, tables)]
            if not reads:
                continue
            n += 1
            rids = set(x.i for x in reads)

            def is_read(e):
                return any(x.i in rids for x in e.walk()) if e.k != "DeclRefExpr" else e.i in rids
            w = _unprotected(P, rf, f, init, flag, is_read, 2)
            key = "%s|%s:%s|%s" % (key_prefix, rf, f.name, "+".join(sorted(tables)))
            what = ("every read of %s in %s is preceded on every path by %s() or by a test that found %s set%s"
                    % ("/".join(sorted(tables)), f.name, init, flag, " (in the function or before every call of it)" if f.static else ""))
            if w is None:
                ctx.ok(rule, key, P.where(f.body), what)
            else:
                g, path = w
                ctx.bad(rule, key, P.where(reads[0]), what,
                        "unguarded path in %s: %s" % (g.name, describe_path(g, g.cfg, path)), witness={"blocks": list(path)[-40:]})
    return n, inst
