"""R39: an indexed table read stays inside the size that was validated.

Shape (the dictionary decoders, any function written the same way): a byte table `P` with its size `S` and its
entry count `N` as parameters; a guard `S < N * K2 -> error`; an index guard `x >= N -> error`; a read of W bytes
at `P + x * K1`. The last entry read ends at (N - 1) * K1 + W, the guard promises N * K2 bytes, so the read is
inside the table for every admitted (S, N, x) iff W <= K1 <= K2. Otherwise the witness is N entries in a table of
exactly N * K2 bytes and the index N - 1.

W comes from the little-endian reader used (carquet_read_{i16,u16,i32,u32,f32,i64,u64,f64}_le) or the constant
length of a memcpy; K1 and K2 are integer constants after folding `sizeof`."""
from ..facts import src

READ_W = {"carquet_read_i16_le": 2, "carquet_read_u16_le": 2, "carquet_read_i32_le": 4, "carquet_read_u32_le": 4,
          "carquet_read_f32_le": 4, "carquet_read_i64_le": 8, "carquet_read_u64_le": 8, "carquet_read_f64_le": 8}


def _param(n):
    x = n.strip_casts() if n is not None else None
    return x if x is not None and x.k == "DeclRefExpr" and x.get("dk") == "param" else None


def _mul_const(e):
    """(other operand node, K) for `a * K` / `K * a` with K constant."""
    x = e.strip_casts()
    if x.k == "BinaryOperator" and x.op == "*":
        for a, b in ((x.c[0], x.c[1]), (x.c[1], x.c[0])):
            if b.cv is not None and a.cv is None:
                return a.strip_casts(), b.cv
    return None


def _exits(stmt):
    return any(r.k in ("ReturnStmt", "GotoStmt") for r in stmt.walk())


def _leaves(c):
    c = c.strip()
    if c.k == "BinaryOperator" and c.op == "||":
        return _leaves(c.c[0]) + _leaves(c.c[1])
    return [c]


def check(ctx, fns, rule="R39.scaled-extent", key_prefix="scaled-extent"):
    P = ctx.P
    n = 0
    for fn0 in fns:
        if fn0.body is None or fn0.cfg is None:
            continue
        # a guard that lives in a static helper taking the entry size as a parameter is read in the caller's terms
        helper_calls = [c for c in fn0.calls() if c.callee and any(g.static and g.file == fn0.file for g in P.by_name.get(c.callee, []))]
        fn = P.inlined(fn0, 2) if helper_calls else fn0
        inlined = fn is not fn0
        pnames = [p["n"] for p in fn.params]
        # size guards: S < N * K2 -> exit   (or N * K2 > S)
        size_guards = []      # (S decl, N decl, K2, node)
        idx_guards = []       # (index text, N decl, node)
        for g in fn.body.walk():
            if g.k != "IfStmt":
                continue
            kids = [x for x in g.c if x is not None]
            if not _exits(kids[1]):
                continue
            for lf in _leaves(kids[0]):
                if lf.k != "BinaryOperator" or lf.op not in ("<", ">", ">=", "<="):
                    continue
                l, r = lf.c[0], lf.c[1]
                if lf.op in (">", ">="):
                    l, r = r, l         # normalise to small < big / small <= big
                pl = _param(l)
                mr = _mul_const(r)
                if pl is not None and mr is not None and _param(mr[0]) is not None and lf.op in ("<", ">"):
                    size_guards.append((pl.get("d"), _param(mr[0]).get("d"), mr[1], g))
                # index guard: x >= N  (normalised: N <= x)
                if lf.op in (">=", "<=") and _param(l) is not None and r.strip_casts().cv is None:
                    idx_guards.append((src(r.strip_casts()), _param(l).get("d"), g))
        if not size_guards:
            continue
        for c in fn.calls():
            W = READ_W.get(c.callee)
            arg = c.args()[0] if W and c.args() else None
            if c.callee in ("memcpy", "__builtin_memcpy") and len(c.args()) == 3 and c.args()[2].cv is not None:
                W, arg = c.args()[2].cv, c.args()[1]
            if not W or arg is None:
                continue
            a = arg.strip_casts()
            if a.k != "BinaryOperator" or a.op != "+":
                continue
            base, offs = _param(a.c[0]), a.c[1]
            if base is None:
                base, offs = _param(a.c[1]), a.c[0]
            if base is None or "*" not in (base.t or ""):
                continue
            m = _mul_const(offs)
            if m is None:
                continue
            xtext, K1 = src(m[0]), m[1]
            bi = pnames.index(base.name) if base.name in pnames else -1
            for S, N, K2, g in size_guards:
                # the size parameter is the one that follows the table pointer
                if bi < 0 or bi + 1 >= len(fn.params) or fn.params[bi + 1]["d"] != S:
                    continue
                ig = [x for x in idx_guards if x[0] == xtext and x[1] == N]
                if not ig:
                    continue
                if inlined:
                    pass        # node order is not comparable across an expanded helper; the guard's presence is what is read
                elif not fn.cfg.node_dominates(min((y for y in g.walk() if y.i in fn.cfg.where()), key=lambda y: y.i), c):
                    continue
                n += 1
                key = "%s|%s:%s|%s" % (key_prefix, P.rel(fn.file), fn.name, c.callee)
                nname = [p["n"] for p in fn.params if p["d"] == N][0]
                sname = [p["n"] for p in fn.params if p["d"] == S][0]
                what = "the %d-byte read at %s + %s * %d stays inside the %s >= %s * %d bytes that were validated" % (
                    W, base.name, xtext, K1, sname, nname, K2)
                ok = W <= K1 <= K2
                ctx.ob(rule, key, P.where(c), what, ok,
                       "" if ok else "with %s = 4 and %s = %d (accepted by `%s`) the index 3 reads bytes %d..%d" % (
                           nname, sname, 4 * K2, src([x for x in g.c if x is not None][0])[:60], 3 * K1, 3 * K1 + W - 1))
                break
    return n
