"""R32: a reader is not asked for more elements than the buffers handed to it were allocated for.

Contract (frozen): carquet_column_read_batch(reader, values, max_values, def_levels, rep_levels) and
carquet_read_next_page(reader, values, max_values, def_levels, rep_levels, ...) store up to max_values
elements through each non-NULL buffer. At a call site whose buffer was allocated in the same function as
`malloc(element size * M)` (directly, through a size local, or through a member assigned from it), the
request must be M:
  ok            the request is the same expression as M (casts and single-definition locals resolved);
  violation     the request is a different variable N and the function itself establishes M <= N
                (`if (M > N) M = N`): whenever the clamp was not taken the callee may store N > M elements;
  inconclusive  any other relation.
Stack arrays and buffers that are parameters are outside the rule (their extents belong to the caller)."""
from ..canon import Canon
from ..facts import src
from ..util import is_assign

CONTRACT = {"carquet_column_read_batch": (2, (1, 3, 4)), "carquet_read_next_page": (2, (1, 3, 4))}
ALLOC = ("malloc", "calloc")


def _nocast(t):
    while isinstance(t, tuple) and t and t[0] == "cast":
        t = t[2]
    if isinstance(t, tuple):
        return tuple(_nocast(x) for x in t)
    return t


def _factors(t):
    """flatten a product into its factors"""
    t = _nocast(t)
    if isinstance(t, tuple) and len(t) == 4 and t[0] == "bin" and t[1] == "*":
        return _factors(t[2]) + _factors(t[3])
    if isinstance(t, tuple) and len(t) == 4 and t[0] == "bin" and t[1] == "<<" and isinstance(t[3], tuple) and t[3][0] == "int":
        return _factors(t[2]) + [("int", 1 << t[3][1])]
    return [t]


def _alloc_of(fn, cz, arg):
    """canonical allocation size of the buffer expression: follows `p = malloc(S)` for a local p or a member path"""
    text = src(arg.strip_casts())
    found = []
    for n in fn.body.walk():
        init = None
        if n.k == "DeclStmt":
            for dd, i_ in zip(n.get("decls", []), n.c):
                if dd.get("n") == text and i_ is not None:
                    init = i_
        elif is_assign(n) and n.op == "=" and src(n.c[0].strip_casts()) == text:
            init = n.c[1]
        if init is None:
            continue
        x = init.strip_casts()
        while x is not None and x.k == "ConditionalOperator":
            x = x.c[1].strip_casts()
        if x is not None and x.k == "CallExpr" and x.callee in ALLOC:
            a = x.args()
            size = cz(a[0]) if x.callee == "malloc" else ("bin", "*", cz(a[0]), cz(a[1]), None)
            found.append(size)
        elif x is not None and x.cv == 0:
            continue
        else:
            return None
    return found or None


def check(ctx, fns, rule="R32.request-fits", key_prefix="request-fits"):
    P = ctx.P
    n = 0
    for fn in fns:
        if fn.body is None:
            continue
        cz = Canon(fn)
        per = {}
        for c in fn.calls(*CONTRACT):
            ci, bufs = CONTRACT[c.callee]
            args = c.args()
            if len(args) <= max(bufs + (ci,)):
                continue
            req = _nocast(cz(args[ci]))
            for bi in bufs:
                b = args[bi]
                if b.cv == 0 or b.strip_casts().cv == 0:
                    continue
                x = b.strip_casts()
                if x.k == "DeclRefExpr" and x.get("dk") == "param":
                    continue
                if "[" in (x.t or "") or (x.k == "ImplicitCastExpr"):
                    continue
                sizes = _alloc_of(fn, cz, b)
                if not sizes:
                    continue
                n += 1
                idx = per[c.callee] = per.get(c.callee, -1) + 1
                key = "%s|%s:%s|%s#%d" % (key_prefix, P.rel(fn.file), fn.name, c.callee, idx)
                what = "%s is asked for as many elements as `%s` was allocated for" % (c.callee, src(b)[:40])
                facs = [f for s_ in sizes for f in _factors(s_)]
                if req in facs:
                    ctx.ok(rule, key, P.where(c), what)
                    continue
                # min(X, M) written as a conditional: (X > M) ? M : X and its mirror forms
                if isinstance(req, tuple) and req and req[0] == "cond" and len(req) == 4:
                    cnd, a1, a2 = req[1], req[2], req[3]
                    if isinstance(cnd, tuple) and cnd[0] == "bin" and cnd[1] in (">", ">=", "<", "<="):
                        l, r = cnd[2], cnd[3]
                        gt = cnd[1] in (">", ">=")
                        big_small = (l, r) if gt else (r, l)       # condition true  =>  big_small[0] >(=) big_small[1]
                        # true arm must be the smaller operand, false arm the other one, and one of them the allocation count
                        if a1 == big_small[1] and a2 == big_small[0] and (a1 in facs or a2 in facs):
                            ctx.ok(rule, key, P.where(c), what, "the request is the minimum of the allocation count and what is wanted")
                            continue
                # the request clamped to the allocation count: `if (req > M) req = M`
                rtext = src(args[ci].strip_casts())
                clamped_req = False
                for g in fn.body.walk():
                    if g.k != "IfStmt":
                        continue
                    kids = [k for k in g.c if k is not None]
                    for a in kids[1].walk():
                        if is_assign(a) and a.op == "=" and src(a.c[0].strip_casts()) == rtext and _nocast(cz(a.c[1])) in facs \
                                and rtext in src(kids[0]) and fn.cfg is not None:
                            w_ = fn.cfg.where()
                            firsts = [x for x in kids[0].walk() if x.i in w_]
                            if firsts and fn.cfg.node_dominates(min(firsts, key=lambda x: x.i), c):
                                clamped_req = True
                if clamped_req:
                    ctx.ok(rule, key, P.where(c), what, "the request is clamped to the allocation count first")
                    continue
                # a different request: does the function clamp the allocation count by it?
                clamp = None
                for g in fn.body.walk():
                    if g.k != "IfStmt":
                        continue
                    kids = [k for k in g.c if k is not None]
                    cnd = _nocast(cz(kids[0]))
                    if isinstance(cnd, tuple) and cnd[0] == "bin" and cnd[1] in (">", ">=", "<", "<="):
                        for a in kids[1].walk():
                            if is_assign(a) and a.op == "=":
                                l, r = _nocast(cz(a.c[0])), _nocast(cz(a.c[1]))
                                if r == req and any(l == f or src(a.c[0].strip()) in repr(f) for f in facs):
                                    clamp = g
                names = [f for f in facs if isinstance(f, tuple) and f and f[0] in ("local", "param", "member")]
                if clamp is not None:
                    ctx.bad(rule, key, P.where(c), what,
                            "the buffer was allocated for a count that line %d clamps to at most `%s`, and the request is `%s` itself: whenever "
                            "the count is smaller than that, the callee may store past the buffer" % (clamp.l, src(args[ci])[:30], src(args[ci])[:30]))
                else:
                    ctx.inconclusive(rule, key, P.where(c), what, "request `%s` is not the allocation count and no relation between them is established here" % src(args[ci])[:40])
    return n
