"""R19: byte offsets into typed arrays are element-scaled.

`memset((uint8_t*)arr + X, v, n * sizeof(T))` addresses an array of s-byte elements through a byte
pointer. The length is in bytes (scaled by sizeof); the offset X must be in bytes too, i.e. carry a
factor sizeof(T) / s somewhere (directly, or through a local defined with one). An unscaled X is an
element count used as a byte count: the call then touches the wrong part of the array (for growth
code: it wipes live entries instead of initialising the new tail)."""
from ..facts import src
from .skeleton import pointee_size


def _byte_cast_base(e):
    """(typed pointer expr, offset expr) when e = (byte*)P + X with pointee(P) > 1, else None"""
    x = e.strip_casts() if e.k != "BinaryOperator" else e
    while x.k in ("ParenExpr", "ImplicitCastExpr"):
        x = x.c[0]
    if x.k == "CStyleCastExpr":
        x = x.c[0]
        while x.k in ("ParenExpr", "ImplicitCastExpr"):
            x = x.c[0]
    if x.k != "BinaryOperator" or x.op != "+":
        return None
    l = x.c[0]
    while l.k in ("ParenExpr", "ImplicitCastExpr"):
        l = l.c[0]
    if l.k != "CStyleCastExpr" or pointee_size(l.t or "") != 1:
        return None
    inner = l.c[0].strip_casts()
    s = pointee_size(inner.t or "")
    if not s or s <= 1:
        return None
    return inner, x.c[1], s


def _scaled(fn, e, s, depth=0):
    for n in e.walk():
        if n.k == "UnaryExprOrTypeTraitExpr":
            return True
        if n.k == "BinaryOperator" and n.op in ("*", "<<"):
            for side in n.c:
                if side is not None and side.cv is not None and (
                        (n.op == "*" and side.cv % s == 0 and side.cv != 0) or (n.op == "<<" and (1 << side.cv) % s == 0)):
                    return True
        if n.k == "DeclRefExpr" and n.get("dk") == "local" and depth < 2:
            for d in fn.body.walk():
                if d.k == "DeclStmt":
                    for dd, init in zip(d.get("decls", []), d.c):
                        if dd.get("d") == n.get("d") and init is not None and _scaled(fn, init, s, depth + 1):
                            return True
    return False


def sites(P, fns):
    """[(fn, call, typed base, offset, element size, scaled?)]"""
    out = []
    for fn in fns:
        for c in fn.body.walk():
            if c.k != "CallExpr" or c.callee not in ("memset", "memcpy", "memmove") or len(c.args()) != 3:
                continue
            for a in c.args()[:2 if c.callee != "memset" else 1]:
                r = _byte_cast_base(a)
                if r is None:
                    continue
                inner, off, s = r
                out.append((fn, c, inner, off, s, _scaled(fn, off, s)))
    return out


def check(ctx, fns, rule="R19.units", key_prefix="byte-offset"):
    P = ctx.P
    n = 0
    for fn, c, inner, off, s, ok in sites(P, fns):
        n += 1
        ctx.ob(rule, "%s|%s:%s|%s" % (key_prefix, P.rel(fn.file), fn.name, src(inner)[:30]), P.where(c),
               "byte offset `%s` into the %d-byte-element array `%s` is element-scaled" % (src(off)[:30], s, src(inner)[:30]),
               ok, "" if ok else "no sizeof / multiple of %d in the offset" % s)
    return n
