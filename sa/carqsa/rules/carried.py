"""R14: a loop-carried predecessor reference is advanced on every iteration.

Incremental encodings (DELTA_BYTE_ARRAY prefixes, DELTA_BINARY_PACKED deltas) define element i
relative to element i-1. The code carries "the previous element" in a local that is read in the
loop body and re-assigned there from the current element. Encoder and decoder agree only if both
advance that reference on every iteration; an update that sits under a condition makes one side
skip elements the other side counts. The rule finds such carriers structurally and requires that
no path from the head of the loop body to the loop's next iteration avoids the update."""
from ..facts import src
from ..util import is_assign
from .flow import find_path_avoiding, describe_path


def _loop_parts(loop):
    if loop.k == "ForStmt":
        return loop.c[-1], loop.c[-2]      # body, inc
    return loop.c[-1], None


def carriers(fn):
    """[(loop, decl id, name, [store nodes])] for locals declared outside the loop, assigned inside it from
    an expression that mentions the loop's induction variable or a per-iteration local, and read in the body."""
    out = []
    for loop in fn.body.walk():
        if loop.k != "ForStmt":
            continue
        body, inc = _loop_parts(loop)
        if body is None or inc is None:
            continue
        iv = None
        for x in inc.walk():
            if x.k == "DeclRefExpr" and x.get("dk") == "local":
                iv = x.get("d")
                break
        if iv is None:
            continue
        inner = set()
        for n in body.walk():
            if n.k == "DeclStmt":
                for d in n.get("decls", []):
                    if "d" in d:
                        inner.add(d["d"])
        stores = {}
        for n in body.walk():
            if is_assign(n) and n.op == "=":
                t = n.c[0].strip()
                if t.k == "DeclRefExpr" and t.get("dk") == "local" and t.get("d") not in inner and t.get("d") != iv:
                    rhs_refs = [x.get("d") for x in n.c[1].walk() if x.k == "DeclRefExpr" and x.get("dk") == "local"]
                    if any(x.k == "CallExpr" for x in n.c[1].walk()):
                        continue        # a computed result (status, hash), not a reference to the element
                    # running extremum / conditional selection: the guard itself reads the carrier
                    guarded_by_self = False
                    for a in n.ancestors():
                        if a is body:
                            break
                        if a.k in ("IfStmt", "ConditionalOperator"):
                            cond = [x for x in a.c if x is not None][0]
                            if any(x.k == "DeclRefExpr" and x.get("d") == t.get("d") for x in cond.walk()):
                                guarded_by_self = True
                    if guarded_by_self:
                        continue
                    if iv in rhs_refs or any(r in inner for r in rhs_refs):
                        stores.setdefault((t.get("d"), t.name), []).append(n)
        for (d, name), sts in stores.items():
            reads = [x for x in body.walk() if x.k == "DeclRefExpr" and x.get("d") == d
                     and not any(x is s.c[0].strip() for s in sts)]
            if reads:
                out.append((loop, d, name, sts))
    return out


def check(ctx, fns, rule="R14.carried", key_prefix="carried"):
    P = ctx.P
    n = 0
    for fn in fns:
        if fn.cfg is None:
            continue
        w = fn.cfg.where()
        for loop, d, name, sts in carriers(fn):
            body, inc = _loop_parts(loop)
            first = min((x for x in body.walk() if x.i in w), key=lambda x: x.i, default=None)
            incn = min((x for x in inc.walk() if x.i in w), key=lambda x: x.i, default=None)
            if first is None or incn is None:
                continue
            n += 1
            ids = set(s.i for s in sts)
            inc_ids = set(x.i for x in inc.walk())
            start = w[first.i]
            path = find_path_avoiding(fn.cfg, lambda e: e.i in ids, lambda e: e.i in inc_ids, start=(start[0], start[1]))
            key = "%s|%s:%s|%s" % (key_prefix, P.rel(fn.file), fn.name, name)
            ctx.ob(rule, key, P.where(sts[0]),
                   "the carried reference `%s` is advanced on every iteration of the loop at line %d" % (name, loop.l),
                   path is None, "iteration path without the update: %s" % describe_path(fn, fn.cfg, path) if path else "")
    return n
