"""R26: the output of a call depends on its arguments only (no state carried between calls).

Over a set of functions (those reachable from the writer's entry points):
  static-local   a mutable `static` local is overwritten (memset of the whole object, or a plain assignment
                 for a scalar) on every path before it is first read in the call; a read reachable without that
                 sees what the previous call left behind, so two identical calls can differ;
  global         a mutable file-scope variable that is referenced is thread-local, or one of the lazily built
                 tables of R22 (written only by their initialiser, whose contents do not depend on the call) or
                 the flag of one;
  clock/entropy  no call of a function whose result changes from call to call (time, clock, rand, getpid ...).
"""
from ..facts import src
from ..util import is_assign
from .flow import find_path_avoiding, describe_path
from . import lazyinit

NONDET = {"time", "clock", "clock_gettime", "gettimeofday", "rand", "random", "srand", "srandom", "rand_r", "drand48",
          "lrand48", "getpid", "getppid", "gettid", "pthread_self", "getrandom", "arc4random", "localtime", "gmtime",
          "tmpnam", "mkstemp", "tempnam", "getenv", "omp_get_thread_num", "omp_get_wtime"}


def _lhs_root(n):
    x = n.strip()
    while x is not None and x.k in ("ArraySubscriptExpr", "MemberExpr"):
        x = x.c[0].strip_casts() if x.c else None
    return x


def static_locals(fn):
    out = []
    for n in fn.body.walk():
        if n.k == "DeclStmt":
            for d in n.get("decls", []):
                if d.get("static") and "const" not in (d.get("t") or "").split("*")[0] and not d.get("tls"):
                    out.append((n, d))
    return out


def _stale_read(fn, d):
    """Path from the entry to a read of static local d that passes no whole-object overwrite, or None."""
    decl = d["d"]
    scalar = "[" not in (d.get("t") or "")
    writes = set()      # DeclRefExpr ids that are written, not read
    for n in fn.body.walk():
        if is_assign(n) and n.op == "=":
            r = _lhs_root(n.c[0])
            if r is not None and r.k == "DeclRefExpr" and r.get("d") == decl:
                writes.add(r.i)
        if n.k == "CallExpr" and n.callee == "memset" and n.args():
            for x in n.args()[0].walk():
                if x.k == "DeclRefExpr" and x.get("d") == decl:
                    writes.add(x.i)
        if n.k == "UnaryExprOrTypeTraitExpr":
            for x in n.walk():
                if x.k == "DeclRefExpr" and x.get("d") == decl:
                    writes.add(x.i)

    def overwrite(e):
        if e.k == "CallExpr" and e.callee == "memset" and e.args():
            a = e.args()[0].strip_casts()
            return a is not None and a.k == "DeclRefExpr" and a.get("d") == decl
        if scalar and is_assign(e) and e.op == "=":
            t = e.c[0].strip()
            return t.k == "DeclRefExpr" and t.get("d") == decl
        return False

    def is_read(e):
        return e.k == "DeclRefExpr" and e.get("d") == decl and e.i not in writes
    return find_path_avoiding(fn.cfg, overwrite, is_read)


def check(ctx, fns, relfiles_for_lazy, rule="R26.hidden-state", key_prefix="hidden-state"):
    P = ctx.P
    lazy = {}
    for rf, init, flag, tables in lazyinit.instances(P, relfiles_for_lazy):
        for t in tables:
            lazy[(rf, t)] = init
        lazy[(rf, flag)] = init
    tls = set()
    mutable = {}
    for unit, g in P.globals:
        if g.get("def") and not g.get("const"):
            mutable[(P.rel(g["file"]), g["name"])] = g
            if g.get("tls"):
                tls.add((P.rel(g["file"]), g["name"]))
    ndecl = nglob = ncall = 0
    for fn in sorted(fns, key=lambda f: (f.file, f.line)):
        rf = P.rel(fn.file)
        for n in fn.body.walk():
            if n.k == "DeclStmt":
                ndecl += len(n.get("decls", []))
        for n, d in static_locals(fn):
            key = "%s|%s:%s|static:%s" % (key_prefix, rf, fn.name, d["n"])
            what = "static local `%s` of %s is overwritten before it is read in every call" % (d["n"], fn.name)
            path = _stale_read(fn, d) if fn.cfg is not None else None
            if path is None:
                ctx.ok(rule, key, P.where(n), what)
            else:
                ctx.bad(rule, key, P.where(n), what, "a read is reachable with the contents the previous call left: %s"
                        % describe_path(fn, fn.cfg, path), witness={"blocks": list(path)[-40:]})
        seen = set()
        for n in fn.body.walk():
            if n.k == "DeclRefExpr" and n.get("dk") == "global" and (rf, n.name) in mutable and n.name not in seen:
                seen.add(n.name)
                nglob += 1
                key = "%s|%s:%s|global:%s" % (key_prefix, rf, fn.name, n.name)
                what = "mutable file-scope `%s` used by %s is thread-local or a lazily built call-independent table" % (n.name, fn.name)
                if (rf, n.name) in tls:
                    ctx.ok(rule, key, P.where(n), what, "thread-local")
                elif (rf, n.name) in lazy:
                    ctx.ok(rule, key, P.where(n), what, "built by %s()" % lazy[(rf, n.name)])
                else:
                    ctx.inconclusive(rule, key, P.where(n), what, "the rule does not know what `%s` carries between calls" % n.name)
            if n.k == "CallExpr" and n.callee:
                ncall += 1
                if n.callee in NONDET:
                    ctx.bad(rule, "%s|%s:%s|call:%s" % (key_prefix, rf, fn.name, n.callee), P.where(n),
                            "%s does not consult the clock, the process or a random source" % fn.name, "%s()" % n.callee)
    return ndecl, nglob, ncall
