"""R16: the codec tag alone decides how page bytes are represented.

A page header names one codec for the whole column chunk; the bytes after the header are that
codec's output, whatever their size. Writer and reader must therefore choose between "raw" and
"codec stream" by the codec tag only:
 * compress_data appends the caller's input only under `codec == UNCOMPRESSED`; every other append
   takes the buffer and the size the compressor produced;
 * decompress_page touches its output (copy, size report, success return) only inside the switch
   over the codec, and the only arm that copies raw bytes is UNCOMPRESSED.
A size-based shortcut on either side (store raw when compression did not help / treat equal sizes
as raw) makes a genuinely compressed page whose size happens to coincide decode as garbage, and
writes non-UNCOMPRESSED chunks that other readers cannot decode."""
from ..extract import AnalysisBroken
from ..facts import src
from ..util import find_switches, switch_table, is_assign

PW = "src/writer/page_writer.c"
PR = "src/reader/page_reader.c"
UNC = "CARQUET_COMPRESSION_UNCOMPRESSED"


def _under_uncompressed_if(node, fn):
    """node is in the then-branch of `if (codec == UNCOMPRESSED)`"""
    child = node
    for a in node.ancestors():
        if a.k == "IfStmt":
            kids = [x for x in a.c if x is not None]
            c = kids[0].strip()
            inthen = _contains(kids[1], child)
            if inthen and c.k == "BinaryOperator" and c.op == "==" and \
                    any(x.k == "DeclRefExpr" and x.name == UNC for x in c.walk()):
                return True
        child = a
    return False


def _contains(root, n):
    x = n
    while x is not None:
        if x is root:
            return True
        x = x.parent
    return False


def writer(ctx, rule="R16.codec-alone", key_prefix="codec-alone"):
    """compress_data as a table over the codec values, by abstract execution (see rules/sem.py): the
    caller's bytes are appended only for UNCOMPRESSED; every other codec appends exactly the scratch
    buffer its own compressor filled (whatever size that produced), unknown codecs and a failed scratch
    allocation append nothing and return an error."""
    from .sem import run as sem_run, Inconclusive, set_out, Ptr
    P = ctx.P
    cd = P.fn("compress_data", PW)
    codecs = P.enum("carquet_compression")
    pairs = {"CARQUET_COMPRESSION_SNAPPY": "snappy", "CARQUET_COMPRESSION_LZ4": "lz4",
             "CARQUET_COMPRESSION_LZ4_RAW": "lz4", "CARQUET_COMPRESSION_GZIP": "gzip",
             "CARQUET_COMPRESSION_ZSTD": "zstd"}
    stems = ("snappy", "lz4", "gzip", "zstd")
    hooks = {"malloc": lambda ev, a, it: ev.append(("malloc", a[0])) or Ptr("scratch", 0, 1),
             "free": lambda ev, a, it: ev.append(("free", getattr(a[0], "base", a[0]))) or 0,
             "carquet_buffer_append": lambda ev, a, it: ev.append(("append", getattr(a[1], "base", a[1]), a[2])) or 0}
    for i_, st in enumerate(stems):
        hooks["carquet_%s_compress_bound" % st] = (lambda ev, a, it, st=st, i_=i_: ev.append(("bound", st, a[0])) or 5000 + i_)

        def comp(ev, a, it, st=st):
            ev.append(("compress", st, getattr(a[0], "base", a[0]), a[1], getattr(a[2], "base", a[2]), a[3]))
            if len(a) > 4:
                set_out(it, a[4])       # the produced size is data: unknown
            return 0
        hooks["carquet_%s_compress" % st] = comp
    values = dict(codecs)
    values["<unknown 99>"] = 99
    for cname, cval in sorted(values.items(), key=lambda kv: kv[1]):
        key = "%s|%s:compress_data|%s" % (key_prefix, PW, cname)
        try:
            paths = sem_run(P, cd, [cval, Ptr("input", 0, 1), 777, Ptr("output", 0, 1)], hooks=hooks, single=False)
        except Inconclusive as ex:
            ctx.inconclusive(rule, key, P.where(cd.body), "abstract execution of compress_data", str(ex))
            continue
        worst = None
        for ret, ev, _ in paths:
            if cname == "CARQUET_COMPRESSION_UNCOMPRESSED":
                ok = ev == [("append", "input", 777)]
                what = "UNCOMPRESSED appends the caller's bytes and nothing else"
            elif cname in pairs:
                st = pairs[cname]
                b = 5000 + stems.index(st)
                ok = (len(ev) >= 4 and ev[0] == ("bound", st, 777) and ev[1] == ("malloc", b)
                      and ev[2][:6] == ("compress", st, "input", 777, "scratch", b)
                      and [e for e in ev if e[0] == "append"] == [e for e in ev if e[0] == "append" and e[1] == "scratch"]
                      and len([e for e in ev if e[0] == "append"]) == 1 and ("free", "scratch") in ev
                      and not any(e[0] in ("bound", "compress") and e[1] != st for e in ev))
                what = ("%s: bound from carquet_%s_compress_bound(input_size), scratch = malloc(bound), compressed by "
                        "carquet_%s_compress(input, input_size, scratch, bound), only the scratch buffer is appended, then freed"
                        % (cname, st, st))
            else:
                ok = ret not in (0, None) and not any(e[0] in ("append", "compress") for e in ev)
                what = "%s (not implemented) is refused without writing anything" % cname
            if not ok and worst is None:
                worst = "events: %s, returns %s" % (ev[:6], ret)
        ctx.ob(rule, key, P.where(cd.body), what, worst is None, worst or "%d path(s)" % len(paths))
        if cname in pairs:
            # the scratch allocation fails: an error, nothing appended
            h2 = dict(hooks)
            h2["malloc"] = lambda ev, a, it: ev.append(("malloc", a[0])) or 0
            try:
                paths = sem_run(P, cd, [cval, Ptr("input", 0, 1), 777, Ptr("output", 0, 1)], hooks=h2, single=False)
            except Inconclusive as ex:
                ctx.inconclusive(rule, key + "|oom", P.where(cd.body), "abstract execution of compress_data", str(ex))
                continue
            badp = [(ret, ev) for ret, ev, _ in paths if ret in (0, None) or any(e[0] in ("append", "compress") for e in ev)]
            ctx.ob(rule, key + "|oom", P.where(cd.body),
                   "%s: when the scratch allocation fails compress_data returns an error and appends nothing" % cname,
                   not badp, "returns %s after %s" % (badp[0][0], badp[0][1][:4]) if badp else "")
    ctx.floor("compress_data codec values evaluated", len(values), 7)



def reader(ctx, rule="R16.codec-alone"):
    """decompress_page as a table over the codec values, by abstract execution: UNCOMPRESSED copies the
    stored bytes; every other codec hands exactly (compressed, compressed_size, decompressed, capacity,
    size out) to its own decompressor and returns its status; nothing else touches the output - in
    particular not when the two sizes happen to be equal."""
    from .sem import run as sem_run, Inconclusive, set_out, Ptr
    P = ctx.P
    dp = P.fn("decompress_page", PR)
    codecs = P.enum("carquet_compression")
    pairs = {"CARQUET_COMPRESSION_SNAPPY": "snappy", "CARQUET_COMPRESSION_LZ4": "lz4",
             "CARQUET_COMPRESSION_LZ4_RAW": "lz4", "CARQUET_COMPRESSION_GZIP": "gzip",
             "CARQUET_COMPRESSION_ZSTD": "zstd"}
    hooks = {"memcpy": lambda ev, a, it: ev.append(("copy", getattr(a[0], "base", a[0]), getattr(a[1], "base", a[1]), a[2])) or 0,
             "memmove": lambda ev, a, it: ev.append(("copy", getattr(a[0], "base", a[0]), getattr(a[1], "base", a[1]), a[2])) or 0}
    for st in ("snappy", "lz4", "gzip", "zstd"):
        hooks["carquet_%s_decompress" % st] = (lambda ev, a, it, st=st: ev.append(
            ("decompress", st, getattr(a[0], "base", a[0]), a[1], getattr(a[2], "base", a[2]), a[3],
             getattr(a[4], "base", a[4]) if len(a) > 4 else None)) or 4242)
    values = dict(codecs)
    values["<unknown 99>"] = 99
    n = 0
    for cname, cval in sorted(values.items(), key=lambda kv: kv[1]):
        worst = None
        for csize, cap in ((300, 500), (500, 500), (600, 500)):
            n += 1
            try:
                paths = sem_run(P, dp, [cval, Ptr("stored", 0, 1), csize, Ptr("out", 0, 1), cap, Ptr("outsize", 0, 8)],
                                hooks=hooks, single=False, heap0={})
            except Inconclusive as ex:
                ctx.inconclusive(rule, "codec-alone|%s:decompress_page|%s" % (PR, cname), P.where(dp.body),
                                 "abstract execution of decompress_page", str(ex))
                worst = "?"
                break
            for ret, ev, heap in paths:
                if cname == "CARQUET_COMPRESSION_UNCOMPRESSED":
                    if csize <= cap:
                        ok = ev == [("copy", "out", "stored", csize)] and ret == 0 and heap.get(("outsize", 0)) == csize
                    else:
                        ok = ev == [] and ret not in (0, None)
                elif cname in pairs:
                    ok = ev == [("decompress", pairs[cname], "stored", csize, "out", cap, "outsize")] and ret == 4242
                else:
                    ok = ev == [] and ret not in (0, None)
                if not ok and worst is None:
                    worst = "stored %d bytes, capacity %d: %s, returns %s" % (csize, cap, ev, ret)
        if worst == "?":
            continue
        what = ("UNCOMPRESSED copies the stored bytes when they fit, else fails" if cname == "CARQUET_COMPRESSION_UNCOMPRESSED"
                else ("%s is decoded by carquet_%s_decompress with the stored bytes and the full capacity, whatever the sizes"
                      % (cname, pairs[cname]) if cname in pairs else "%s (not implemented) is refused" % cname))
        ctx.ob(rule, "codec-alone|%s:decompress_page|%s" % (PR, cname), P.where(dp.body), what, worst is None, worst or "")
    ctx.floor("decompress_page table points", n, 21)


def loaders(ctx, rule="R16.codec-alone"):
    """The four page loaders, executed abstractly once per codec value (and with equal / different stored
    and uncompressed sizes): UNCOMPRESSED hands the stored bytes to the decoder as they are; every
    implemented codec sends exactly the stored bytes through its own decompressor and hands on the
    result; anything else is refused. Nothing but the codec tag decides."""
    from . import loaders as LD, sem
    P = ctx.P
    codecs = dict(P.enum("carquet_compression"))
    codecs["<unknown 99>"] = 99
    pairs = {"CARQUET_COMPRESSION_SNAPPY": "snappy", "CARQUET_COMPRESSION_LZ4": "lz4", "CARQUET_COMPRESSION_LZ4_RAW": "lz4",
             "CARQUET_COMPRESSION_GZIP": "gzip", "CARQUET_COMPRESSION_ZSTD": "zstd"}
    pt = P.enum("carquet_page_type")
    n = 0
    for name in LD.LOADERS:
        isdict = "dictionary" in name
        base = LD.DICT_OFF if isdict else LD.DATA_OFF
        fn = P.fn(name, PR)
        bad = None
        try:
            for cname, cval in sorted(codecs.items(), key=lambda kv: kv[1]):
                for csize, usize in ((120, 480), (120, 120), (480, 120)):
                    n += 1
                    ret, ev, out = LD.trace(P, name, pt["CARQUET_PAGE_DICTIONARY"] if isdict else pt["CARQUET_PAGE_DATA"],
                                            0, 1, 0, 0, cval, csize=csize, usize=usize)
                    if "fread" in name:
                        rd = [e for e in ev if e[0] == "read" and e[1] == base + LD.HEADER_SIZE]
                        payload = rd[0][2] if rd else None
                    else:
                        payload = ("map", base + LD.HEADER_SIZE)
                    dec = [e for e in ev if e[0] == "decompress"]
                    cons = [e for e in ev if e[0] in ("consume-dict", "consume-page")]
                    sc = "%s, %d stored / %d uncompressed bytes" % (cname, csize, usize)
                    if cname == "CARQUET_COMPRESSION_UNCOMPRESSED":
                        ok = ret == 0 and not dec and len(cons) == 1 and cons[0][1] == payload and cons[0][2] == csize
                    elif cname in pairs:
                        ok = ret == 0 and len(dec) == 1 and dec[0][1] == pairs[cname] and dec[0][2] == payload and dec[0][3] == csize \
                            and dec[0][5] == usize and len(cons) == 1 and cons[0][1] == dec[0][4] and cons[0][2] == usize
                    else:
                        ok = isinstance(ret, int) and ret != 0 and not cons
                    if not ok and bad is None:
                        bad = "%s: returns %s, codec calls %s, decoder input %s (stored bytes at %s)" % (sc, ret, dec, cons, payload)
            ctx.ob(rule, "codec-alone|%s:%s|select" % (PR, name), P.where(fn.body),
                   "%s: the codec tag alone decides - UNCOMPRESSED pages are decoded as stored, every implemented codec goes through its own "
                   "decompressor with exactly the stored bytes, other tags are refused (abstract execution per codec value x size relation)" % name,
                   bad is None, bad or "")
        except (sem.Inconclusive, KeyError) as ex:
            ctx.inconclusive(rule, "codec-alone|%s:%s|select" % (PR, name), P.where(fn.body), "abstract execution of %s" % name,
                             "%s: %s" % (type(ex).__name__, ex))
    ctx.floor("loader codec scenarios", n, 80)


PLAIN_TYPES = {"CARQUET_PHYSICAL_BOOLEAN": "boolean", "CARQUET_PHYSICAL_INT32": "int32",
               "CARQUET_PHYSICAL_INT64": "int64", "CARQUET_PHYSICAL_INT96": "int96",
               "CARQUET_PHYSICAL_FLOAT": "float", "CARQUET_PHYSICAL_DOUBLE": "double",
               "CARQUET_PHYSICAL_BYTE_ARRAY": "byte_array",
               "CARQUET_PHYSICAL_FIXED_LEN_BYTE_ARRAY": "fixed_byte_array"}


def plain_tables(ctx):
    """The PLAIN type -> codec tables of the page writer and of carquet_decode_plain, by execution."""
    from . import sem
    from ..extract import AnalysisBroken
    P = ctx.P
    PW = "src/writer/page_writer.c"
    PL = "src/encoding/plain.c"
    TYPES = PLAIN_TYPES
    av = P.fn("carquet_page_writer_add_values", PW)
    dp = P.fn("carquet_decode_plain", PL)
    # both dispatchers are executed once per physical type value (and for values outside the enum) with
    # every carquet_encode_plain_* / carquet_decode_plain_* hooked: the codec reached per type is the
    # table; switch, if-chain or an extracted helper make no difference
    pt = P.enum("carquet_physical_type")
    enc_names = sorted(f for f in P.by_name if f.startswith("carquet_encode_plain_"))
    dec_names = sorted(f for f in P.by_name if f.startswith("carquet_decode_plain_"))
    wo1 = sem.field_offsets(P, "carquet_page_writer")

    def wtable(tv):
        hooks = {n_: (lambda ev, a, it, n_=n_: ev.append(n_) or 0) for n_ in enc_names}
        heap0 = {("pw", wo1["type"]): tv, ("pw", wo1["max_def_level"]): 0, ("pw", wo1["max_rep_level"]): 0,
                 ("pw", wo1["type_length"]): 4, ("pw", wo1["num_values"]): 0, ("pw", wo1["num_nulls"]): 0,
                 ("pw", wo1["has_min_max"]): 0, ("pw", wo1["write_statistics"]): 0}
        return sem.run(P, av, [sem.Ptr("pw", 0, 1), sem.Ptr("vals", 0, 1), 0, 0, 0], heap0=heap0, hooks=hooks,
                       single=True, max_forks=64)

    def rtable(tv):
        hooks = {n_: (lambda ev, a, it, n_=n_: ev.append(n_) or 0) for n_ in dec_names}
        return sem.run(P, dp, [sem.Ptr("in", 0, 1), 64, tv, 4, sem.Ptr("out", 0, 1), 0], hooks=hooks,
                       single=True, max_forks=64)
    try:
        for ty, stem in TYPES.items():
            if ty not in pt:
                raise AnalysisBroken("physical type %s vanished" % ty)
            rret, rev, _h = rtable(pt[ty])
            if ty == "CARQUET_PHYSICAL_INT96":
                # INT96 is readable but not writable through the page writer
                ctx.ob("R5.agree", "codec-table|%s|%s" % (PL, ty), P.where(dp.body),
                       "INT96 pages are decoded by carquet_decode_plain_int96", rev == ["carquet_decode_plain_int96"], str(rev))
                continue
            wret, wev, _h = wtable(pt[ty])
            ctx.ob("R5.agree", "codec-table|%s/%s|%s" % (PW, PL, ty), P.where(av.body),
                   "%s is written by carquet_encode_plain_%s and read by carquet_decode_plain_%s (abstract execution of both dispatchers)"
                   % (ty, stem, stem),
                   wev == ["carquet_encode_plain_" + stem] and rev == ["carquet_decode_plain_" + stem] and wret == 0,
                   "writer %s (returns %s) / reader %s" % (wev, wret, rev))
        unknown = [v for v in (-1, max(pt.values()) + 1, 99) if v not in pt.values()]
        for nm, tab, fn in (("writer", wtable, av), ("reader", rtable, dp)):
            bad = None
            for v in unknown:
                ret, ev, _h = tab(v)
                refused = isinstance(ret, int) and ret != 0 and not ev
                if not refused and bad is None:
                    bad = "type value %d: codecs %s, returns %s" % (v, ev, ret)
            ctx.ob("R5.agree", "codec-default|%s" % nm, P.where(fn.body),
                   "unknown physical types are refused by the %s (no codec runs, a non-zero status / negative count is returned)" % nm,
                   bad is None, bad or "")
    except sem.Inconclusive as ex:
        ctx.inconclusive("R5.agree", "codec-table|%s/%s" % (PW, PL), P.where(av.body),
                         "abstract execution of the PLAIN dispatchers", str(ex))

