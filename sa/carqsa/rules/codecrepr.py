"""R16: the codec tag alone decides how page bytes are represented.

A page header names one codec for the whole column chunk; the bytes after the header are that
codec's output, whatever their size. Writer and reader must therefore choose between "raw" and
"codec stream" by the codec tag only:
 * compress_data appends the caller's input only under `codec == UNCOMPRESSED`; every other append
   takes the buffer and the size the compressor produced;
 * decompress_page touches its output (copy, size report, success return) only inside the switch
   over the codec, and the only arm that copies raw bytes is UNCOMPRESSED.
A size-based shortcut on either side (store raw when compression did not help / treat equal sizes
as raw) makes a genuinely compressed page whose size happens to coincide decode as garbage, and
writes non-UNCOMPRESSED chunks that other readers cannot decode."""
from ..extract import AnalysisBroken
from ..facts import src
from ..util import find_switches, switch_table, is_assign

PW = "src/writer/page_writer.c"
PR = "src/reader/page_reader.c"
UNC = "CARQUET_COMPRESSION_UNCOMPRESSED"


def _under_uncompressed_if(node, fn):
    """node is in the then-branch of `if (codec == UNCOMPRESSED)`"""
    child = node
    for a in node.ancestors():
        if a.k == "IfStmt":
            kids = [x for x in a.c if x is not None]
            c = kids[0].strip()
            inthen = _contains(kids[1], child)
            if inthen and c.k == "BinaryOperator" and c.op == "==" and \
                    any(x.k == "DeclRefExpr" and x.name == UNC for x in c.walk()):
                return True
        child = a
    return False


def _contains(root, n):
    x = n
    while x is not None:
        if x is root:
            return True
        x = x.parent
    return False


def writer(ctx, rule="R16.codec-alone"):
    P = ctx.P
    cd = P.fn("compress_data", PW)
    pn = [p["n"] for p in cd.params]
    if len(pn) != 4:
        raise AnalysisBroken("compress_data: expected (codec, input, input_size, output)")
    inp = cd.params[1]["d"]
    # the local that receives the compressor's size: passed by address to carquet_*_compress
    size_locals = set()
    buf_locals = set()
    for c in cd.calls():
        if c.callee and c.callee.startswith("carquet_") and c.callee.endswith("_compress"):
            a = c.args()
            if len(a) >= 5:
                x = a[4].strip_casts()
                if x.k == "UnaryOperator" and x.op == "&" and x.c[0].strip_casts().k == "DeclRefExpr":
                    size_locals.add(x.c[0].strip_casts().get("d"))
                y = a[2].strip_casts()
                if y.k == "DeclRefExpr":
                    buf_locals.add(y.get("d"))
    apps = cd.calls("carquet_buffer_append")
    ctx.floor("compress_data appends", len(apps), 2)
    for i, c in enumerate(apps):
        a = c.args()
        d0 = a[1].strip_casts()
        d1 = a[2].strip_casts()
        raw = d0.k == "DeclRefExpr" and d0.get("dk") == "param" and d0.get("d") == inp
        if raw:
            ok = _under_uncompressed_if(c, cd)
            how = "under `codec == UNCOMPRESSED`" if ok else "raw input appended for a codec other than UNCOMPRESSED"
        else:
            ok = d0.k == "DeclRefExpr" and d0.get("d") in buf_locals and d1.k == "DeclRefExpr" and d1.get("d") in size_locals
            how = "compressor's buffer and size" if ok else "appended (%s, %s) are not the compressor's output" % (src(a[1]), src(a[2]))
        ctx.ob(rule, "codec-alone|%s:compress_data|append#%d" % (PW, i), P.where(c),
               "compress_data stores the caller's bytes only for UNCOMPRESSED and the compressor's output otherwise", ok, how)


def reader(ctx, rule="R16.codec-alone"):
    P = ctx.P
    dp = P.fn("decompress_page", PR)
    sws = [s for s in find_switches(dp) if "codec" in src(s.c[-2])]
    if len(sws) != 1:
        raise AnalysisBroken("decompress_page: expected one switch over the codec")
    sw = sws[0]
    names = [p["n"] for p in dp.params]
    outd = [p["d"] for p in dp.params if p["n"] in ("decompressed", "decompressed_size")]
    if len(outd) != 2:
        raise AnalysisBroken("decompress_page: output parameters not found")
    n = 0
    bad = []
    for x in dp.body.walk():
        touches = False
        if x.k == "CallExpr" and x.callee:
            touches = any(y.k == "DeclRefExpr" and y.get("dk") == "param" and y.get("d") in outd
                          for a in x.args() for y in a.walk())
        elif is_assign(x):
            touches = any(y.k == "DeclRefExpr" and y.get("dk") == "param" and y.get("d") in outd for y in x.c[0].walk())
        elif x.k == "ReturnStmt":
            touches = bool(x.c) and x.c[0] is not None and (x.c[0].cv == 0 or x.c[0].strip().k == "CallExpr")
        if not touches:
            continue
        n += 1
        if not _contains(sw, x):
            bad.append(x)
    ctx.floor("decompress_page output effects", n, 8)
    ctx.ob(rule, "codec-alone|%s:decompress_page|outside-switch" % PR, P.where(bad[0] if bad else dp.body),
           "decompress_page writes its output and reports success only inside the switch over the codec",
           not bad, "; ".join("L%d %s" % (b.l, src(b)[:50]) for b in bad[:3]))
    table, order = switch_table(sw)
    for lab in order:
        if lab == "default":
            continue
        stmts = table[lab]
        copies = [c for s in stmts for c in s.walk() if c.k == "CallExpr" and c.callee in ("memcpy", "memmove")]
        decs = [c for s in stmts for c in s.walk() if c.k == "CallExpr" and c.callee and c.callee.endswith("_decompress")]
        if lab == UNC:
            ok = bool(copies) and not decs
        else:
            ok = bool(decs) and not copies
        ctx.ob(rule, "codec-alone|%s:decompress_page|%s" % (PR, lab), P.where(stmts[0]) if stmts else P.where(sw),
               "%s: %s" % (lab, "raw copy" if lab == UNC else "decoded by its decompressor, never copied raw"), ok)


def loaders(ctx, rule="R16.codec-alone"):
    """The page loaders choose between the raw bytes and decompress_page by the codec tag alone."""
    P = ctx.P
    n = 0
    for fn in P.funcs_in(PR):
        for c in fn.calls("decompress_page"):
            sel = None
            child = c
            for a in c.ancestors():
                if a.k == "IfStmt":
                    cond = [x for x in a.c if x is not None][0]
                    if any(x.k == "DeclRefExpr" and x.name == UNC for x in cond.walk()):
                        sel = (a, cond)
                        break
                child = a
            n += 1
            key = "codec-alone|%s:%s|select" % (PR, fn.name)
            if sel is None:
                ctx.ok(rule, key, P.where(c), "%s always goes through decompress_page" % fn.name, "unconditional")
                continue
            cond = sel[1].strip()
            exact = cond.k == "BinaryOperator" and cond.op in ("==", "!=") and \
                any(s.strip_casts().k == "DeclRefExpr" and s.strip_casts().name == UNC for s in cond.c) and \
                any(s.strip_casts().k == "MemberExpr" and s.strip_casts().name == "codec" for s in cond.c)
            ctx.ob(rule, key, P.where(sel[0]),
                   "%s selects raw bytes vs decompress_page by `codec == UNCOMPRESSED` alone" % fn.name, exact, src(cond)[:80])
    ctx.floor("decompress_page call sites", n, 4)
