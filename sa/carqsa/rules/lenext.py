"""R35 length-extension bytes (LZ4 "LSIC" lengths: 255, 255, ..., last byte < 255).

Encoder side: a loop that stores the constant 255 through the output cursor and takes 255 off a counter x
is the continuation part of such a length; the byte stored after it is the remainder. The format reads a
255 as "another byte follows", so the loop has to run exactly while x >= 255:

    exits with x <= 254           (else the remainder byte is 255 and the decoder keeps reading)
    runs only with x >= 255       (else 255 is taken off a smaller number)

Both are read off the loop condition `x >= K` / `x > K` (either operand order, negations); a condition the
rule cannot put in that form is inconclusive. The witness of a violation is the counter value on which the
loop does the wrong thing (x = 255 for `x > 255`).

Decoder side: a loop that adds a freshly read byte s to a length and repeats on a comparison of s with a
constant must repeat exactly for s == 255 (decided by evaluating the condition for s = 0..255)."""
from ..facts import src
from ..util import is_assign

K = 255


def _loops(fn):
    return [n for n in fn.body.walk() if n.k in ("WhileStmt", "ForStmt", "DoStmt")]


def _cond_body(lp):
    if lp.k == "WhileStmt":
        kids = [x for x in lp.c if x is not None]
        return kids[0], [kids[-1]]
    if lp.k == "ForStmt":
        return lp.c[2], [x for x in (lp.c[-1], lp.c[3]) if x is not None]
    kids = [x for x in lp.c if x is not None]
    return kids[-1], [kids[0]]


def _own(parts, lp):
    """Nodes of the loop body that are not inside a nested loop."""
    for part in parts:
        for n in part.walk():
            inner = False
            for a in n.ancestors():
                if a is lp:
                    break
                if a.k in ("WhileStmt", "ForStmt", "DoStmt"):
                    inner = True
                    break
            if not inner:
                yield n


def _cmp(cond, d):
    """(op, K) with the variable of decl d on the left, from `x op K`, `K op x`, `!(...)`; else None."""
    c = cond.strip() if cond is not None else None
    neg = False
    while c is not None and c.k == "UnaryOperator" and c.op == "!":
        neg = not neg
        c = c.c[0].strip()
    if c is None or c.k != "BinaryOperator" or c.op not in ("<", "<=", ">", ">=", "==", "!="):
        return None
    l, r = c.c[0].strip_casts(), c.c[1].strip_casts()
    op = c.op
    if l.cv is not None and r.k == "DeclRefExpr":
        l, r = r, l
        op = {"<": ">", ">": "<", "<=": ">=", ">=": "<=", "==": "==", "!=": "!="}[op]
    if l.k != "DeclRefExpr" or l.get("d") != d or r.cv is None:
        return None
    if neg:
        op = {"<": ">=", ">=": "<", ">": "<=", "<=": ">", "==": "!=", "!=": "=="}[op]
    return op, r.cv


def _holds(op, k, x):
    return {"<": x < k, "<=": x <= k, ">": x > k, ">=": x >= k, "==": x == k, "!=": x != k}[op]


def _resolve(fn, e):
    """e, or the initialiser of the single-definition local it names."""
    from ..canon import info
    x = e.strip_casts() if e is not None else None
    seen = 0
    while x is not None and x.k == "DeclRefExpr" and x.get("dk") == "local" and seen < 3:
        d0 = info(fn).single_def(x.get("d"))
        if d0 is None:
            break
        x = d0.strip_casts()
        seen += 1
    return x


def _divmod_of(fn, e, op):
    """(text of x, K) when e is `x op K` (op is / or %) with K constant, through single-definition locals."""
    x = _resolve(fn, e)
    if x is not None and x.k == "BinaryOperator" and x.op == op and x.c[1].cv is not None:
        return src(x.c[0].strip_casts()), x.c[1].cv
    return None


def _closed_forms(ctx, fn, rule, count):
    """`memset(op, 255, x / K1); op += ...; *op++ = x % K2;` - the same emission without a loop. The bytes written
    are x / K1 times 255 and then x % K2; they spell x (sum equals x, last byte below 255) for every x iff
    K1 = K2 = 255; otherwise the smallest x for which they do not is the witness."""
    P = ctx.P
    n = 0
    for c in fn.calls("memset", "__builtin_memset"):
        if len(c.args()) < 3 or c.args()[1].cv != K:
            continue
        q = _divmod_of(fn, c.args()[2], "/")
        if q is None:
            continue
        rems = []
        for a in fn.body.walk():
            if is_assign(a) and a.op == "=" and a.i > c.i and a.c[0].strip().k in ("UnaryOperator", "ArraySubscriptExpr"):
                r = _divmod_of(fn, a.c[1], "%")
                if r is not None and r[0] == q[0]:
                    rems.append((a, r))
        if not rems:
            continue
        n += 1
        a, r = rems[0]
        key = "length-extension|%s:%s|%s@C%d" % (P.rel(fn.file), fn.name, q[0], count + n)
        what = "the closed-form emission `memset(.., 255, %s / %d)` then `%s %% %d` writes the length-extension bytes of %s" % (q[0], q[1], r[0], r[1], q[0])
        wrong = None
        for x in range(0, 2100):
            nb, last = x // q[1], x % r[1]
            if nb * K + last != x or last >= K:
                wrong = "for %s = %d it writes %d byte(s) of 255 and then %d: that reads back as %s" % (
                    q[0], x, nb, last, "a length that continues" if last >= K else str(nb * K + last))
                break
        ctx.ob(rule, key, P.where(c), what, wrong is None, wrong or "")
    return n


def check(ctx, relfiles, rule="R35.length-extension"):
    P = ctx.P
    nenc = ndec = 0
    for fn in P.funcs_in(*relfiles):
        nenc += _closed_forms(ctx, fn, rule, nenc)
        for lp in _loops(fn):
            cond, parts = _cond_body(lp)
            own = list(_own(parts, lp))
            stores255 = [n for n in own if is_assign(n) and n.op == "=" and n.c[1].strip_casts() is not None and n.c[1].strip_casts().cv == K
                         and n.c[0].strip().k in ("UnaryOperator", "ArraySubscriptExpr")]
            decs = [n for n in own if n.k == "CompoundAssignOperator" and n.op == "-=" and n.c[1].cv == K
                    and n.c[0].strip().k == "DeclRefExpr"]
            if stores255 and decs:
                nenc += 1
                x = decs[0].c[0].strip()
                key = "length-extension|%s:%s|%s@L%d" % (P.rel(fn.file), fn.name, x.name, nenc)
                what = "the loop emitting 255-bytes for `%s` runs exactly while %s >= 255, so the byte after it is below 255" % (x.name, x.name)
                if lp.k == "DoStmt":
                    ctx.inconclusive(rule, key, P.where(lp), what, "a do-while emits before it tests: not a form this rule evaluates")
                    continue
                cm = _cmp(cond, x.get("d"))
                if cm is None:
                    ctx.inconclusive(rule, key, P.where(lp), what, "loop condition `%s` is not a comparison of %s with a constant" % (src(cond) if cond is not None else "", x.name))
                    continue
                op, k = cm
                # the counter values that matter are around the boundary
                wrong = None
                for v in (253, 254, 255, 256, 257, 509, 510, 511):
                    runs = _holds(op, k, v)
                    if v >= K and not runs:
                        wrong = "with %s = %d the loop stops (`%s`) and the remainder byte written after it is %d: the format reads 255 as 'another length byte follows'" % (
                            x.name, v, src(cond), v) if v == K else "with %s = %d the loop stops (`%s`) although 255 or more remain: the remainder does not fit a byte" % (x.name, v, src(cond))
                        break
                    if v < K and runs:
                        wrong = "with %s = %d the loop runs (`%s`) and takes 255 off a smaller counter" % (x.name, v, src(cond))
                        break
                ctx.ob(rule, key, P.where(lp), what, wrong is None, wrong or "`%s`" % src(cond))
                continue
            # decoder: `s = *ip++; len += s;` repeated on a comparison of s with a constant
            brk = None
            for n_ in own:
                if n_.k == "IfStmt":
                    kk = [x for x in n_.c if x is not None]
                    if len(kk) >= 2 and any(x.k == "BreakStmt" for x in kk[1].walk()) and not any(x.k in ("CallExpr", "ReturnStmt") for x in kk[1].walk()):
                        brk = kk[0]
            adds = [n for n in own if n.k == "CompoundAssignOperator" and n.op == "+=" and n.c[1].strip_casts() is not None
                    and n.c[1].strip_casts().k == "DeclRefExpr"]
            for a in adds:
                s = a.c[1].strip_casts()
                loads = [n for n in own if is_assign(n) and n.op == "=" and n.c[0].strip().k == "DeclRefExpr" and n.c[0].strip().get("d") == s.get("d")
                         and any(y.k in ("UnaryOperator", "ArraySubscriptExpr") and (y.k != "UnaryOperator" or y.op == "*") for y in n.c[1].walk())]
                loads += [n for n in own if n.k == "DeclStmt" and any(
                    dd.get("d") == s.get("d") and i_ is not None and any(y.k == "ArraySubscriptExpr" or (y.k == "UnaryOperator" and y.op == "*") for y in i_.walk())
                    for dd, i_ in zip(n.get("decls", []), n.c))]
                cm = _cmp(cond, s.get("d")) if cond is not None else None
                cond_shown = cond
                if cm is None and brk is not None:
                    # `for (;;) { ...; if (s != 255) break; }`: the loop goes on exactly when the break test fails
                    cb = _cmp(brk, s.get("d"))
                    if cb is not None:
                        cm = ({"<": ">=", ">=": "<", ">": "<=", "<=": ">", "==": "!=", "!=": "=="}[cb[0]], cb[1])
                        cond_shown = brk
                if not loads or cm is None or "char" not in (s.t or "") and "uint8_t" not in (s.t or ""):
                    continue
                ndec += 1
                cond = cond_shown
                op, k = cm
                key = "length-extension-read|%s:%s|%s@L%d" % (P.rel(fn.file), fn.name, src(a.c[0]), ndec)
                what = "the loop adding length bytes to `%s` reads another byte exactly when the last one was 255" % src(a.c[0])
                wrong = next((v for v in range(256) if _holds(op, k, v) != (v == K)), None)
                ctx.ob(rule, key, P.where(lp), what, wrong is None,
                       "`%s`" % src(cond) if wrong is None else "after the byte %d the condition `%s` %s" % (
                           wrong, src(cond), "stops although the format continues" if wrong == K else "continues although the length is complete"))
                break
    return nenc, ndec
