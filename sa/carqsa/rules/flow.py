"""R6: must-pass-through / ordering / dominance queries on clang's CFG."""
from ..facts import src


def find_path_avoiding(cfg, is_event, is_target, cut_edge=None, start=None):
    """Search a path from the CFG entry (or `start` = (block id, elem index)) to an element for
    which is_target(node) holds that does not execute any element for which is_event(node) holds.

    cut_edge(block, succ_index) -> True removes that edge from the search (e.g. the false arm of
    an accepted guard). Returns None when every path passes an event first, else the witness
    as a list of block ids ending in the block of the target."""
    if start is None:
        start = (cfg.entry, 0)
    seen = set()
    stack = [(start[0], start[1], (start[0],))]
    while stack:
        bid, idx, path = stack.pop()
        if (bid, idx) in seen:
            continue
        seen.add((bid, idx))
        B = cfg.blocks[bid]
        blocked = False
        for e in B.elems[idx:]:
            if is_event(e):
                blocked = True
                break
            if is_target(e):
                return list(path)
        if blocked:
            continue
        # terminator statements (return is an element; goto/break are not targets)
        for si, s in enumerate(B.succs):
            if s is None:
                continue
            if cut_edge is not None and cut_edge(B, si):
                continue
            if (s, 0) not in seen:
                stack.append((s, 0, path + (s,)))
    return None


def reaches_exit_avoiding(cfg, is_event, cut_edge=None, start=None):
    """Like find_path_avoiding with the CFG exit block as target."""
    if start is None:
        start = (cfg.entry, 0)
    seen = set()
    stack = [(start[0], start[1], (start[0],))]
    while stack:
        bid, idx, path = stack.pop()
        if (bid, idx) in seen:
            continue
        seen.add((bid, idx))
        if bid == cfg.exit:
            return list(path)
        B = cfg.blocks[bid]
        blocked = False
        for e in B.elems[idx:]:
            if is_event(e):
                blocked = True
                break
        if blocked:
            continue
        for si, s in enumerate(B.succs):
            if s is None:
                continue
            if cut_edge is not None and cut_edge(B, si):
                continue
            if (s, 0) not in seen:
                stack.append((s, 0, path + (s,)))
    return None


def describe_path(fn, cfg, path, limit=12):
    """Human readable witness: the branch conditions taken along a block path."""
    out = []
    for a, b in zip(path, path[1:]):
        B = cfg.blocks[a]
        if B.cond is not None and len([s for s in B.succs if s is not None]) > 1:
            try:
                si = B.succs.index(b)
            except ValueError:
                si = -1
            if B.tk == "SwitchStmt":
                lab = cfg.blocks[b].label
                out.append("L%d: switch -> %s" % (B.cond.l, src(lab.c[0]) if lab is not None and lab.k == "CaseStmt" and lab.c else "default"))
            else:
                out.append("L%d: (%s) is %s" % (B.cond.l, src(B.cond)[:70], "true" if si == 0 else "false"))
    if len(out) > limit:
        out = out[:limit // 2] + ["..."] + out[-limit // 2:]
    return out


def after_reaches(cfg, node, is_target, is_stop=None, cut_edge=None):
    """Starting right after CFG element `node`, is an element satisfying is_target reachable
    without first passing an element satisfying is_stop? Returns witness block path or None."""
    w = cfg.where()
    if node.i not in w:
        return None
    b, idx = w[node.i]
    return find_path_avoiding(cfg, is_stop or (lambda e: False), is_target, cut_edge, (b, idx + 1))


def cond_edge(B, si):
    """('true'|'false'|'case'|None) classification of a successor edge of block B."""
    if B.cond is None:
        return None
    if B.tk == "SwitchStmt":
        return "case"
    n = len(B.succs)
    if n == 2:
        return "true" if si == 0 else "false"
    return None


def success_returns(fn, ok_values=(0,)):
    """ReturnStmt nodes returning a constant in ok_values (e.g. CARQUET_OK == 0)."""
    out = []
    for r in fn.returns():
        if r.c and r.c[0] is not None and r.c[0].cv in ok_values:
            out.append(r)
    return out
