"""R6: must-pass-through / ordering / dominance queries on clang's CFG."""
from ..facts import src


def find_path_avoiding(cfg, is_event, is_target, cut_edge=None, start=None):
    """Search a path from the CFG entry (or `start` = (block id, elem index)) to an element for
    which is_target(node) holds that does not execute any element for which is_event(node) holds.

    cut_edge(block, succ_index) -> True removes that edge from the search (e.g. the false arm of
    an accepted guard). Returns None when every path passes an event first, else the witness
    as a list of block ids ending in the block of the target."""
    if start is None:
        start = (cfg.entry, 0)
    seen = set()
    stack = [(start[0], start[1], (start[0],))]
    while stack:
        bid, idx, path = stack.pop()
        if (bid, idx) in seen:
            continue
        seen.add((bid, idx))
        B = cfg.blocks[bid]
        blocked = False
        for e in B.elems[idx:]:
            if is_event(e):
                blocked = True
                break
            if is_target(e):
                return list(path)
        if blocked:
            continue
        # terminator statements (return is an element; goto/break are not targets)
        for si, s in enumerate(B.succs):
            if s is None:
                continue
            if cut_edge is not None and cut_edge(B, si):
                continue
            if (s, 0) not in seen:
                stack.append((s, 0, path + (s,)))
    return None


def reaches_exit_avoiding(cfg, is_event, cut_edge=None, start=None):
    """Like find_path_avoiding with the CFG exit block as target."""
    if start is None:
        start = (cfg.entry, 0)
    seen = set()
    stack = [(start[0], start[1], (start[0],))]
    while stack:
        bid, idx, path = stack.pop()
        if (bid, idx) in seen:
            continue
        seen.add((bid, idx))
        if bid == cfg.exit:
            return list(path)
        B = cfg.blocks[bid]
        blocked = False
        for e in B.elems[idx:]:
            if is_event(e):
                blocked = True
                break
        if blocked:
            continue
        for si, s in enumerate(B.succs):
            if s is None:
                continue
            if cut_edge is not None and cut_edge(B, si):
                continue
            if (s, 0) not in seen:
                stack.append((s, 0, path + (s,)))
    return None


def describe_path(fn, cfg, path, limit=12):
    """Human readable witness: the branch conditions taken along a block path."""
    out = []
    for a, b in zip(path, path[1:]):
        B = cfg.blocks[a]
        if B.cond is not None and len([s for s in B.succs if s is not None]) > 1:
            try:
                si = B.succs.index(b)
            except ValueError:
                si = -1
            if B.tk == "SwitchStmt":
                lab = cfg.blocks[b].label
                out.append("L%d: switch -> %s" % (B.cond.l, src(lab.c[0]) if lab is not None and lab.k == "CaseStmt" and lab.c else "default"))
            else:
                out.append("L%d: (%s) is %s" % (B.cond.l, src(B.cond)[:70], "true" if si == 0 else "false"))
    if len(out) > limit:
        out = out[:limit // 2] + ["..."] + out[-limit // 2:]
    return out


def after_reaches(cfg, node, is_target, is_stop=None, cut_edge=None):
    """Starting right after CFG element `node`, is an element satisfying is_target reachable
    without first passing an element satisfying is_stop? Returns witness block path or None."""
    w = cfg.where()
    if node.i not in w:
        return None
    b, idx = w[node.i]
    return find_path_avoiding(cfg, is_stop or (lambda e: False), is_target, cut_edge, (b, idx + 1))


def cond_edge(B, si):
    """('true'|'false'|'case'|None) classification of a successor edge of block B."""
    if B.cond is None:
        return None
    if B.tk == "SwitchStmt":
        return "case"
    n = len(B.succs)
    if n == 2:
        return "true" if si == 0 else "false"
    return None


def success_returns(fn, ok_values=(0,)):
    """ReturnStmt nodes returning a constant in ok_values (e.g. CARQUET_OK == 0)."""
    out = []
    for r in fn.returns():
        if r.c and r.c[0] is not None and r.c[0].cv in ok_values:
            out.append(r)
    return out


# ---- a little path sensitivity: prune paths whose branch conditions contradict each other ----------
def _tracked(fn):
    """Scalar locals / parameters whose address is never taken: `name#decl`."""
    taken = set()
    for n in fn.body.walk():
        if n.k == "UnaryOperator" and n.op == "&":
            x = n.c[0].strip_casts()
            if x.k == "DeclRefExpr":
                taken.add(x.get("d"))
    return taken


def _var(n, taken):
    x = n.strip_casts() if n is not None else None
    if x is not None and x.k == "DeclRefExpr" and x.get("dk") in ("local", "param") and x.get("d") not in taken \
            and "*" not in (x.t or "") and "[" not in (x.t or ""):
        return x.get("d")
    return None


def _leaf(cond, truth):
    """(node, truth) with logical negations folded into the truth value."""
    c = cond.strip_casts()
    while c is not None and c.k == "UnaryOperator" and c.op == "!":
        truth = not truth
        c = c.c[0].strip_casts()
    return c, truth


def _constraint(cond, truth, consts, taken):
    """A branch outcome as (decl, 'pos', bool): the variable is > 0 (True) or <= 0 (False); or None."""
    c, truth = _leaf(cond, truth)
    if c is None or c.k != "BinaryOperator" or c.op not in ("<", "<=", ">", ">="):
        return None
    l, r = c.c[0], c.c[1]
    lv, rv = _var(l, taken), _var(r, taken)
    lc = l.cv if l.cv is not None else (consts.get(lv) if lv is not None else None)
    rc = r.cv if r.cv is not None else (consts.get(rv) if rv is not None else None)
    op = c.op
    if rv is not None and lc is not None and rc is None:
        # c OP V  ->  V OP' c
        lv, rc = rv, lc
        op = {"<": ">", "<=": ">=", ">": "<", ">=": "<="}[op]
    elif not (lv is not None and rc is not None and lc is None):
        return None
    if not truth:
        op = {"<": ">=", "<=": ">", ">": "<=", ">=": "<"}[op]
    # V op rc
    if op == ">" and rc >= 0 or op == ">=" and rc >= 1:
        return (lv, True)
    if op == "<=" and rc <= 0 or op == "<" and rc <= 1:
        return (lv, False)
    return None


def _lv_text(n):
    x = n.strip_casts() if n is not None else None
    if x is None:
        return None
    if x.k == "DeclRefExpr" and x.get("dk") in ("local", "param"):
        return "%s#%s" % (x.name, x.get("d"))
    if x.k == "MemberExpr" and x.c:
        b = _lv_text(x.c[0])
        return None if b is None else b + ("->" if x.get("arrow") else ".") + x.name
    return None


def _eq_constraint(cond, truth):
    """(lvalue text, constant, is_equal) for `X == c` / `X != c` outcomes, else None."""
    c, truth = _leaf(cond, truth)
    if c is None or c.k != "BinaryOperator" or c.op not in ("==", "!="):
        return None
    l, r = c.c[0], c.c[1]
    if r.cv is None and l.cv is not None:
        l, r = r, l
    t = _lv_text(l)
    if t is None or r.cv is None:
        return None
    return t, r.cv, (c.op == "==") == truth


def find_feasible_path_avoiding(fn, is_event, is_target, start=None, cut_edge=None, cap=20000, enums=None):
    """find_path_avoiding, but a path is dropped as soon as one of its branch outcomes contradicts an
    earlier one: about the sign of an unmodified scalar local (`n > 0` false, later `i < n` true with
    i == 0), or about the value of an unmodified lvalue compared with constants (`r != OK` true, later the
    `case OK:` arm of a switch over r). Facts die when the variable is assigned. Returns (path or None,
    capped)."""
    from ..util import is_assign
    cfg = fn.cfg
    taken = _tracked(fn)
    if start is None:
        start = (cfg.entry, 0)
    seen = set()
    stack = [(start[0], start[1], (start[0],), frozenset(), frozenset(), frozenset())]
    steps = 0
    while stack:
        bid, idx, path, pos, consts, eqs = stack.pop()
        key = (bid, idx, pos, consts, eqs)
        if key in seen:
            continue
        seen.add(key)
        steps += 1
        if steps > cap:
            return None, True
        B = cfg.blocks[bid]
        posd, constd = dict(pos), dict(consts)
        eqd = {k_: v_ for k_, v_ in eqs}        # text -> ("eq", c) | ("ne", frozenset)
        blocked = False
        for e in B.elems[idx:]:
            if is_event(e):
                blocked = True
                break
            if is_target(e):
                return list(path), False
            if e.k == "DeclStmt":
                for d, init in zip(e.get("decls", []), e.c):
                    if "d" in d:
                        posd.pop(d["d"], None)
                        constd.pop(d["d"], None)
                        pre = "%s#%s" % (d["n"], d["d"])
                        for k_ in [k_ for k_ in eqd if k_ == pre or k_.startswith(pre + ".") or k_.startswith(pre + "->")]:
                            del eqd[k_]
                        if init is not None and init.cv is not None and d["d"] not in taken:
                            constd[d["d"]] = init.cv
            elif is_assign(e) or (e.k == "UnaryOperator" and e.op in ("++", "--")):
                v = _var(e.c[0], set())
                if v is not None:
                    posd.pop(v, None)
                    constd.pop(v, None)
                    if e.k == "BinaryOperator" and e.op == "=" and e.c[1].cv is not None and v not in taken:
                        constd[v] = e.c[1].cv
                t = _lv_text(e.c[0])
                if t is not None:
                    root = t.split(".")[0].split("->")[0]
                    for k_ in [k_ for k_ in eqd if k_ == t or k_.startswith(t + ".") or k_.startswith(t + "->") or
                               (k_.split(".")[0].split("->")[0] == root and "->" in k_)]:
                        del eqd[k_]
            elif e.k == "CallExpr":
                # a callee may change what pointers point to
                for k_ in [k_ for k_ in eqd if "->" in k_]:
                    del eqd[k_]
        if blocked:
            continue
        for si, s in enumerate(B.succs):
            if s is None:
                continue
            if cut_edge is not None and cut_edge(B, si):
                continue
            p2 = posd
            e2 = eqd
            if B.cond is not None and B.tk == "SwitchStmt":
                t = _lv_text(B.cond)
                lab = cfg.blocks[s].label if s in cfg.blocks else None
                if t is not None and lab is not None and lab.k == "CaseStmt" and lab.c and lab.c[0] is not None and lab.c[0].cv is not None:
                    cv = lab.c[0].cv
                    f_ = eqd.get(t)
                    if f_ is not None and ((f_[0] == "eq" and f_[1] != cv) or (f_[0] == "ne" and cv in f_[1])):
                        continue
                    e2 = dict(eqd)
                    e2[t] = ("eq", cv)
                elif lab is None or lab.k != "CaseStmt":
                    # the default edge: not taken when the cases name every enumerator of the switched enum type
                    ty = (B.cond.strip_casts().t or "").replace("const ", "").replace("enum ", "").strip()
                    en = (enums or {}).get(ty) or (enums or {}).get(ty[:-2] if ty.endswith("_t") else ty)
                    labs = set()
                    for s2 in B.succs:
                        l2 = cfg.blocks[s2].label if s2 is not None and s2 in cfg.blocks else None
                        if l2 is not None and l2.k == "CaseStmt" and l2.c and l2.c[0] is not None and l2.c[0].cv is not None:
                            labs.add(l2.c[0].cv)
                    vals = set(v_ for _c, v_ in en["consts"]) if isinstance(en, dict) and "consts" in en else (set(en.values()) if en else set())
                    if vals and vals <= labs and (lab is None or lab.k != "DefaultStmt"):
                        continue
                    f_ = eqd.get(t) if t is not None else None
                    if f_ is not None and f_[0] == "eq" and f_[1] in labs:
                        continue
            elif B.cond is not None and len(B.succs) == 2:
                con = _constraint(B.cond, si == 0, constd, taken)
                if con is not None:
                    v, val = con
                    if v in constd:
                        if (constd[v] > 0) != val:
                            continue            # contradicts the known constant
                    elif v in posd and posd[v] != val:
                        continue                # contradicts an earlier branch outcome
                    else:
                        p2 = dict(posd)
                        p2[v] = val
                eqc = _eq_constraint(B.cond, si == 0)
                if eqc is not None:
                    t, cv, iseq = eqc
                    f_ = eqd.get(t)
                    if f_ is not None:
                        if f_[0] == "eq" and (f_[1] == cv) != iseq:
                            continue
                        if f_[0] == "ne" and iseq and cv in f_[1]:
                            continue
                    e2 = dict(eqd)
                    if iseq:
                        e2[t] = ("eq", cv)
                    elif f_ is None or f_[0] == "ne":
                        e2[t] = ("ne", frozenset((f_[1] if f_ else frozenset()) | {cv}))
            stack.append((s, 0, path + (s,), frozenset(p2.items()), frozenset(constd.items()), frozenset(e2.items())))
    return None, False
