"""Position accounting of the streaming RLE / bit-packed decoder inside a bit-packed run.

carquet_rle_decoder_skip and carquet_rle_decoder_get_batch are executed abstractly from decoder states
inside a bit-packed run (bit width, bytes left, values left in the run, group buffer exhausted or partly
consumed are concrete; the data bytes are Unknown; the group unpacker is hooked and records which
input offset it unpacked). Value number k of a run that starts at input offset B lives in the group at
B + bit_width * (k / 8), entry k % 8 - that is the format, and it is what the one-shot decoder does. After
consuming n values from position k0 the decoder must therefore stand at k0 + n:
  - run_remaining went down by n and the call reports n;
  - when (k0 + n) % 8 != 0 the group buffer holds the group of value k0 + n (the last unpack was of that
    group's offset), bitpack_pos is (k0 + n) % 8 and bitpack_count is 8;
  - when (k0 + n) % 8 == 0 either nothing is readable (bitpack_pos >= bitpack_count) and the input
    position is the next group's offset.
A decoder that steps over a group without unpacking it and then leaves part of it readable fails the
second clause."""
from . import sem
from .skeleton import Ptr, U

RL = "src/encoding/rle.c"
B0 = 40         # input offset of the run's first group


def _state(P, bw, k0, run_total, size):
    do = sem.field_offsets(P, "carquet_rle_decoder")
    groups_done = (k0 + 7) // 8
    heap0 = {("dec", do["data"]): Ptr("in", 0, 1), ("dec", do["size"]): size, ("dec", do["pos"]): B0 + bw * groups_done,
             ("dec", do["bit_width"]): bw, ("dec", do["value_mask"]): (1 << bw) - 1, ("dec", do["in_rle_run"]): 0,
             ("dec", do["run_remaining"]): run_total - k0, ("dec", do["rle_value"]): 0,
             ("dec", do["bitpack_pos"]): (k0 % 8) if k0 % 8 else 0, ("dec", do["bitpack_count"]): 8 if k0 % 8 else 0,
             ("dec", do["status"]): 0}
    return do, heap0


def trace(P, fname, bw, k0, n, run_total=32, size=100000):
    fn = P.fn(fname, RL)
    do, heap0 = _state(P, bw, k0, run_total, size)

    def unpack(ev, a, it):
        ev.append(("unpack", a[0].off if isinstance(a[0], Ptr) else U, a[1]))
        return None
    hooks = {"carquet_bitunpack8_32": unpack}
    if fname.endswith("skip"):
        args = [Ptr("dec", 0, 1), n]
    else:
        args = [Ptr("dec", 0, 1), Ptr("out", 0, 4), n]
    ret, ev, heap = sem.run(P, fn, args, heap0=heap0, hooks=hooks, single=True, max_forks=8, budget=400000)
    g = lambda f: heap.get(("dec", do[f]))
    return ret, ev, {"pos": g("pos"), "run_remaining": g("run_remaining"), "bitpack_pos": g("bitpack_pos"),
                     "bitpack_count": g("bitpack_count"), "status": g("status")}


def check(ctx, rule="R30.stream-position", key_prefix="stream-position"):
    P = ctx.P
    n_sc = 0
    for fname in ("carquet_rle_decoder_skip", "carquet_rle_decoder_get_batch"):
        fn = P.fn(fname, RL)
        key = "%s|%s:%s" % (key_prefix, RL, fname)
        what = ("inside a bit-packed run %s leaves the decoder at value k0+n: the count, the values left, and a group buffer that "
                "holds the group of the next value whenever part of it is readable (abstract execution over bit widths x start x n)" % fname)
        bad = None
        try:
            for bw in (1, 3, 8):
                for k0 in (0, 3, 8, 13):
                    for n in (1, 5, 8, 9, 11, 16, 17):
                        run_total = 32
                        if k0 + n > run_total:
                            continue
                        n_sc += 1
                        ret, ev, st = trace(P, fname, bw, k0, n, run_total)
                        k1 = k0 + n
                        sc = "bit width %d, %d values of the run consumed, %s %d" % (bw, k0, "skip" if fname.endswith("skip") else "get_batch", n)
                        if ret != n or st["run_remaining"] != run_total - k1 or st["status"] != 0:
                            bad = bad or "%s: returns %s, run_remaining %s (expected %d), status %s" % (sc, ret, st["run_remaining"], run_total - k1, st["status"])
                            continue
                        readable = isinstance(st["bitpack_pos"], int) and isinstance(st["bitpack_count"], int) and st["bitpack_pos"] < st["bitpack_count"]
                        unpacks = [e for e in ev if e[0] == "unpack"]
                        if k1 % 8:
                            want_off = B0 + bw * (k1 // 8)
                            held = unpacks[-1][1] if unpacks else (B0 + bw * (k0 // 8) if k0 % 8 else None)
                            if not readable or st["bitpack_pos"] != k1 % 8 or st["bitpack_count"] != 8 or held != want_off or st["pos"] != want_off + bw:
                                bad = bad or ("%s: next value is entry %d of the group at input offset %d; the decoder holds the group unpacked from %s, "
                                              "bitpack_pos %s of %s, input position %s" % (sc, k1 % 8, want_off, held, st["bitpack_pos"], st["bitpack_count"], st["pos"]))
                        else:
                            if readable or st["pos"] != B0 + bw * (k1 // 8):
                                bad = bad or "%s: at a group boundary the buffer is still readable (%s of %s) or the input position is %s, expected %d" % (
                                    sc, st["bitpack_pos"], st["bitpack_count"], st["pos"], B0 + bw * (k1 // 8))
        except sem.Inconclusive as ex:
            ctx.inconclusive(rule, key, P.where(fn.body), what, str(ex))
            continue
        ctx.ob(rule, key, P.where(fn.body), what, bad is None, bad or "")
    return n_sc
