"""R36: stored bytes and uncompressed bytes are different quantities.

A column chunk is described by two families of byte counts: what sits in the file (compressed page sizes, chunk
totals, file offsets, the reader's byte position in the chunk) and what the pages hold once decompressed
(uncompressed page sizes and totals). For an UNCOMPRESSED chunk without page headers the two would coincide;
for every real chunk they do not (page headers are stored bytes only, a codec changes the payload size). A
comparison that decides control flow with a pure stored-bytes expression on one side and a pure
uncompressed-bytes expression on the other therefore answers a question about a number nobody holds.

Members are classified by a frozen (record, member) table; locals by what they are built from (initialiser,
`=`, `+=`). Expressions mixing both kinds on one side (a ratio, a maximum) are not judged. The max/min idiom
`a > b ? a : b` is not a decision and is skipped."""
from ..facts import src
from ..util import is_assign

STORED, PLAIN = "stored", "uncompressed"
TABLE = {
    ("carquet_column_reader", "current_page"): STORED, ("carquet_column_reader", "page_compressed_size"): STORED,
    ("carquet_column_reader", "page_header_size"): STORED,
    ("parquet_page_header", "compressed_page_size"): STORED, ("parquet_page_header", "uncompressed_page_size"): PLAIN,
    ("parquet_column_metadata", "total_compressed_size"): STORED, ("parquet_column_metadata", "total_uncompressed_size"): PLAIN,
    ("parquet_column_metadata", "data_page_offset"): STORED, ("parquet_column_metadata", "dictionary_page_offset"): STORED,
    ("parquet_column_metadata", "index_page_offset"): STORED,
    ("parquet_row_group", "total_compressed_size"): STORED, ("parquet_row_group", "file_offset"): STORED,
    ("parquet_column_chunk", "file_offset"): STORED,
    ("carquet_row_group_metadata", "total_compressed_size"): STORED,
    ("column_chunk_info", "total_compressed_size"): STORED, ("column_chunk_info", "total_uncompressed_size"): PLAIN,
    ("column_chunk_info", "file_offset"): STORED,
    ("carquet_column_writer_internal", "total_compressed_size"): STORED,
    ("carquet_column_writer_internal", "total_uncompressed_size"): PLAIN,
    ("carquet_page_location", "compressed_size"): STORED,
}


def _defs(fn, d):
    out = []
    for n in fn.body.walk():
        if n.k == "DeclStmt":
            for dd, init in zip(n.get("decls", []), n.c):
                if dd.get("d") == d and init is not None:
                    out.append(init)
        elif is_assign(n) and n.op in ("=", "+=", "-="):
            t = n.c[0].strip()
            if t.k == "DeclRefExpr" and t.get("d") == d:
                out.append(n.c[1])
    return out


def kinds(fn, e, table, depth=0, seen=None):
    """Set of byte kinds among the leaves of integer expression e."""
    out = set()
    seen = set() if seen is None else seen
    if e is None:
        return out
    def visit(n):
        if n is None or n.k == "CallExpr":
            return          # what a function returns is not a byte count of its argument's kind
        if n.k == "MemberExpr":
            k = table.get((n.get("rec"), n.name))
            if k:
                out.add(k)
                return
        elif n.k == "DeclRefExpr" and n.get("dk") == "local" and "*" not in (n.t or "") and depth < 3 \
                and n.get("d") not in seen:
            seen.add(n.get("d"))
            for d_ in _defs(fn, n.get("d")):
                out.update(kinds(fn, d_, table, depth + 1, seen))
        for c_ in n.c:
            if c_ is not None:
                visit(c_)
    visit(e)
    return out


def _is_minmax(n):
    p = n.parent
    while p is not None and p.k in ("ParenExpr", "ImplicitCastExpr"):
        p = p.parent
    if p is None or p.k != "ConditionalOperator":
        return False
    arms = [src(x.strip_casts()) for x in p.c[1:3] if x is not None]
    ops = [src(n.c[0].strip_casts()), src(n.c[1].strip_casts())]
    return sorted(arms) == sorted(ops)


def check(ctx, fns, rule="R36.size-kind", key_prefix="size-kind", table=None):
    P = ctx.P
    table = TABLE if table is None else table
    judged = 0
    for fn in fns:
        if fn.body is None:
            continue
        idx = 0
        for n in fn.body.walk():
            if n.k != "BinaryOperator" or n.op not in ("<", "<=", ">", ">=", "==", "!="):
                continue
            if n.c[0].cv is not None or n.c[1].cv is not None:
                continue
            kl, kr = kinds(fn, n.c[0], table), kinds(fn, n.c[1], table)
            if not kl or not kr:
                continue
            judged += 1
            if len(kl) != 1 or len(kr) != 1 or _is_minmax(n):
                continue
            idx += 1
            key = "%s|%s:%s|%s#%d" % (key_prefix, P.rel(fn.file), fn.name, src(n)[:40], idx)
            ctx.ob(rule, key, P.where(n), "`%s` compares byte counts of one kind" % src(n)[:80], kl == kr,
                   "the left side counts %s bytes, the right side %s bytes: for any chunk with page headers or a codec the two "
                   "differ, so the decision is about a quantity neither side holds" % (next(iter(kl)), next(iter(kr))))
    return judged
