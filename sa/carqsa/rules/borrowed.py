"""R45: a pointer into the bytes being parsed does not outlive the parse.

The footer bytes a reader parses are its caller's: the stdio reader frees them right after parsing, the mmap and buffer
readers keep them. Parsed metadata that points into them is therefore valid in two open modes and dangling in the third.

  borrowing function   returns `r->data + ...` for a reader / decoder parameter r (carquet_buffer_reader_peek), or returns
                       (on some path) the result of a borrowing function, possibly through locals, casts and offsets
                       (thrift_read_binary) - computed as a fixed point, so a copying wrapper that starts to hand the input
                       pointer through on one branch becomes a borrowing function itself;
  use of a borrowed    allowed: dereference / subscript, comparison, the source of memcpy / memcmp / strlen-like library
  pointer              calls, an argument at a parameter of a library function that only uses it in these ways (summary,
                       fixed point), a local alias;
                       escape: stored through a member, a pointer or an array element (`x->m = p`, `*out = p`, `a[i] = p`);
                       returned (which makes the function borrowing and moves the question to its callers).

Reported: every escape of a borrowed pointer in the files given. The instances judged are the calls of borrowing
functions (a floor protects the rule from matching nothing)."""
from ..facts import src
from ..util import is_assign

LIBC_READERS = {"memcpy": (1,), "__builtin_memcpy": (1,), "memmove": (1,), "memcmp": (0, 1), "strlen": (0,), "strnlen": (0,), "strncmp": (0, 1),
                "__builtin___memcpy_chk": (1,)}


def _strip(n):
    return n.strip_casts() if n is not None else None


def _base_ref(e):
    """the DeclRefExpr a pointer expression is derived from through casts, parens, `p + k`, `&p[k]`, `c ? p : q` (all of them)"""
    e = _strip(e)
    if e is None:
        return []
    if e.k == "DeclRefExpr":
        return [e]
    if e.k == "MemberExpr" and not e.get("arrow") and e.c:
        return _base_ref(e.c[0])          # a member of a struct object that lives in a variable
    if e.k == "BinaryOperator" and e.op in ("+", "-") and "*" in (e.t or ""):
        return _base_ref(e.c[0]) + (_base_ref(e.c[1]) if "*" in (_strip(e.c[1]).t or "") else [])
    if e.k == "ConditionalOperator":
        return _base_ref(e.c[1]) + _base_ref(e.c[2])
    if e.k == "UnaryOperator" and e.op == "&":
        x = _strip(e.c[0])
        if x is not None and x.k == "ArraySubscriptExpr":
            return _base_ref(x.c[0])
    return []


def _calls_in(e):
    e = _strip(e)
    if e is None:
        return []
    if e.k == "CallExpr":
        return [e]
    if e.k == "MemberExpr" and not e.get("arrow") and e.c:
        return _calls_in(e.c[0])
    if e.k == "BinaryOperator" and e.op in ("+", "-") and "*" in (e.t or ""):
        return _calls_in(e.c[0])
    if e.k == "ConditionalOperator":
        return _calls_in(e.c[1]) + _calls_in(e.c[2])
    return []


def _is_input_member_sum(e, fn, P=None):
    """`r->data + ...` where r is a pointer parameter of fn, the member is a pointer to const bytes and r's record is a cursor
    over input bytes: it also has a position and a size member (carquet_buffer_reader: data / size / pos). A pointer into
    storage the reader owns for as long as it lives (its dictionary, a decoded page) is not a pointer into the parser's input."""
    e = _strip(e)
    if e is None or e.k != "BinaryOperator" or e.op != "+":
        return False
    m = _strip(e.c[0])
    if m is None or m.k != "MemberExpr" or "const" not in (m.t or "") or "*" not in (m.t or ""):
        return False
    b = _strip(m.c[0]) if m.c else None
    if not (b is not None and b.k == "DeclRefExpr" and b.get("dk") == "param"):
        return False
    rec = P.records.get(m.get("rec")) if P is not None and m.get("rec") else None
    if rec is None:
        return False
    names = set(f.get("n") for f in rec.get("fields", []))
    return bool(names & {"pos", "position", "offset"}) and bool(names & {"size", "len", "length"})


class Analysis:
    def __init__(self, P):
        self.P = P
        self.fns = [f for f in P.lib_functions() if f.body is not None]
        self.borrowing = set()       # (name, file)
        self.escaping = {}           # (name, file) -> set(param index) whose pointer escapes or is returned
        self._solve()

    def _is_borrow_call(self, c):
        return any((g.name, g.file) in self.borrowing for g in self.P.by_name.get(c.callee or "", []))

    def tainted_locals(self, f):
        """decls of locals that may hold a borrowed pointer, with the call that produced it"""
        t = {}
        changed = True
        while changed:
            changed = False
            for n in f.body.walk():
                pairs = []
                if n.k == "DeclStmt":
                    pairs = [(dd.get("d"), init) for dd, init in zip(n.get("decls", []), n.c) if init is not None]
                elif is_assign(n) and n.op == "=":
                    l = _strip(n.c[0])
                    if l is not None and l.k == "DeclRefExpr" and l.get("dk") == "local":
                        pairs = [(l.get("d"), n.c[1])]
                    elif l is not None and l.k == "MemberExpr" and not l.get("arrow"):
                        # `span.data = p`: the struct variable now carries the pointer
                        b_ = [r for r in _base_ref(l) if r.get("dk") == "local"]
                        if b_ and "*" in (n.c[1].t or ""):
                            pairs = [(b_[0].get("d"), n.c[1])]
                for d, init in pairs:
                    if d in t or ("*" not in (init.t or "") and not any(self._is_borrow_call(c) for c in _calls_in(init))
                                  and not any(r.get("d") in t for r in _base_ref(init))):
                        continue
                    srcs = [c for c in _calls_in(init) if self._is_borrow_call(c)]
                    if srcs:
                        t[d] = srcs[0]
                        changed = True
                        continue
                    for r in _base_ref(init):
                        if r.get("d") in t:
                            t[d] = t[r.get("d")]
                            changed = True
                            break
        return t

    def _borrowed_expr(self, f, e, t):
        """the producing call if e may evaluate to a borrowed pointer"""
        for c in _calls_in(e):
            if self._is_borrow_call(c):
                return c
        for r in _base_ref(e):
            if r.get("d") in t:
                return t[r.get("d")]
        return None

    def _private_out_param(self, f, l):
        """`out->ptr = p` / `*out = p` where out is a parameter of a static helper and points to a type that is private to
        the source file (a slice / span struct of the parser, or a plain pointer local of the caller): the value travels back
        to the caller like a return value - what the caller does with it is judged there, through the caller's own stores."""
        x = l
        while x is not None and x.k in ("MemberExpr", "ArraySubscriptExpr", "ParenExpr", "ImplicitCastExpr", "CStyleCastExpr") and x.c:
            x = x.c[0]
        if x is not None and x.k == "UnaryOperator" and x.op == "*" and x.c:
            x = _strip(x.c[0])
        if x is None or x.k != "DeclRefExpr" or x.get("dk") != "param" or not f.static:
            return False
        m = l if l.k == "MemberExpr" else None
        if m is None:
            return True          # `*out = p` with out a parameter of a static helper
        rec = self.P.records.get(m.get("rec")) if m.get("rec") else None
        return rec is not None and str(rec.get("file", "")).endswith(".c")

    def _solve(self):
        P = self.P
        for f in self.fns:
            for r in f.returns():
                if r.c and r.c[0] is not None and _is_input_member_sum(r.c[0], f, P):
                    self.borrowing.add((f.name, f.file))
        changed = True
        rounds = 0
        while changed and rounds < 8:
            changed = False
            rounds += 1
            for f in self.fns:
                if (f.name, f.file) in self.borrowing or (f.ret or "").strip() in ("void", "int", "_Bool", "bool", "carquet_status_t", "size_t", "int32_t", "int64_t", "uint32_t", "uint64_t"):
                    continue
                t = self.tainted_locals(f)
                for r in f.returns():
                    if r.c and r.c[0] is not None and self._borrowed_expr(f, r.c[0], t) is not None:
                        self.borrowing.add((f.name, f.file))
                        changed = True
                        break

    def escapes(self, f):
        """[(node, what, producing call)] where a borrowed pointer is stored outside the function's locals"""
        out = []
        t = self.tainted_locals(f)
        for n in f.body.walk():
            if is_assign(n) and n.op == "=":
                l = _strip(n.c[0])
                if l is None or (l.k == "DeclRefExpr" and l.get("dk") == "local"):
                    continue
                if l.k == "MemberExpr" and not l.get("arrow") and any(r.get("dk") == "local" for r in _base_ref(l)):
                    continue
                if "*" not in (n.c[1].t or ""):
                    continue
                c = self._borrowed_expr(f, n.c[1], t)
                if c is not None:
                    if self._private_out_param(f, l):
                        continue
                    out.append((n, "stored through `%s`" % src(l)[:40], c))
        return out, t


def check(ctx, relfiles, rule="R45.borrowed-input", key_prefix="borrowed-input"):
    P = ctx.P
    memo = P.__dict__.setdefault("_memo", {})
    if "borrowed" not in memo:
        memo["borrowed"] = Analysis(P)
    A = memo["borrowed"]
    n = 0
    for fn in P.funcs_in(*relfiles):
        if fn.body is None:
            continue
        calls = [c for c in fn.calls() if A._is_borrow_call(c)]
        if not calls:
            continue
        esc, t = A.escapes(fn)
        by_call = {}
        for node, what, c in esc:
            by_call.setdefault(c.i, []).append((node, what))
        seen = {}
        for c in calls:
            n += 1
            k0 = "%s|%s:%s|%s" % (key_prefix, P.rel(fn.file), fn.name, c.callee)
            seen[k0] = seen.get(k0, -1) + 1
            key = k0 + ("#%d" % seen[k0] if seen[k0] else "")
            what = ("what `%s` hands out points into the bytes being parsed; in %s it is only read, compared or copied - it is not stored into anything that outlives the parse"
                    % (c.callee, fn.name))
            bad = by_call.get(c.i)
            ctx.ob(rule, key, P.where(c), what, not bad,
                   "" if not bad else "%s at line %d: the stdio reader frees the footer right after parsing, so the stored pointer dangles there and only there"
                   % (bad[0][1], bad[0][0].l))
    ctx.count("borrowing_functions", len(A.borrowing))
    return n, sorted(x[0] for x in A.borrowing)
