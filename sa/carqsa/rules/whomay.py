"""Who-may-write rules are stated over API-level functions; a store that a maintainer moves into a
static helper is still performed on behalf of the helper's callers. `allowed` therefore accepts a
function when the predicate accepts it, or when it is a static helper all of whose callers (in the same
file, transitively) are accepted."""


def callers_of(P, fn):
    out = []
    for g in P.functions.values():
        if g.file != fn.file or g.key() == fn.key():
            continue
        if g.calls(fn.name):
            out.append(g)
    return out


def allowed(P, fn, ok, _seen=None):
    if ok(fn):
        return True
    if not fn.static:
        return False
    seen = _seen or set()
    if fn.key() in seen:
        return True          # recursion: decided by the other callers
    seen = seen | {fn.key()}
    cs = callers_of(P, fn)
    return bool(cs) and all(allowed(P, g, ok, seen) for g in cs)
