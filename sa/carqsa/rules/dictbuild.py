"""Dictionary encoding entry points executed abstractly on small concrete value lists (R34).

carquet_dictionary_encode_{int32,int64,float,double,byte_array} are run through the interpreter with the
allocator, the growable-buffer API of core/buffer.h and the index encoder hooked. The entry points only hash,
compare and copy their values, so their behaviour on a list is fixed by which values are equal and which
share a hash bucket; the lists hold a few hundred distinct values (enough that several share a bucket whatever
the hash), repeats of earlier values, and, for byte arrays, values that are prefixes of one another and values
of different lengths with equal leading bytes.

Decided per entry point: the index handed to the index encoder for input i names the dictionary slot that
holds values[i]; the dictionary is the distinct values in first-occurrence order, each stored once, in the
page format (fixed width little-endian; byte arrays with a 4-byte little-endian length prefix); the bit width
byte admits every index.  A list for which that fails is the witness.  An entry point that cannot be executed
(another allocator, another buffer API) is inconclusive, never a violation."""
from . import sem
from .skeleton import Ptr, U

DI = "src/encoding/dictionary.c"


def _strings():
    out = []
    alpha = b"abcdefghijkl"
    # 150 distinct 3-byte strings, then shorter/longer relatives
    k = 0
    for a in alpha:
        for b in alpha:
            for c in alpha[:2]:
                if k < 150:
                    out.append(bytes([a, b, c]))
                    k += 1
    out += [b"", b"a", b"ab", b"abcd", b"aa", b"aaa\x00", b"\x00", b"\x00\x00", b"aab", b"ab\x00"]
    # repeats of earlier values, spread over the list
    seq = []
    for i, v in enumerate(out):
        seq.append(v)
        if i % 3 == 2:
            seq.append(out[(i * 7) % (i + 1)])
    seq += [out[0], out[149], out[150], out[151], b"ab"]
    return seq


def _ints(bits):
    m = (1 << bits) - 1
    base = [0, 1, -1, 2, 255, 256, 65535, 65536, (1 << (bits - 1)) - 1, -(1 << (bits - 1)), 1 << (bits - 8), 0x01020304, 0x04030201]
    base += [i * 1024 + 7 for i in range(1, 90)] + [i * 37 for i in range(3, 120)]
    seq = []
    for i, v in enumerate(base):
        seq.append(v)
        if i % 4 == 3:
            seq.append(base[(i * 5) % (i + 1)])
    seq += [0, -1, base[-1]]

    def sv(v):
        v &= m
        return v - (1 << bits) if v >> (bits - 1) else v
    return [sv(v) for v in seq]


def _run(P, fn, kind, seq, width):
    bo = sem.field_offsets(P, "carquet_buffer")
    heap0 = {}
    if kind == "bytes":
        bao = sem.field_offsets(P, "carquet_byte_array")
        rsz = P.record("carquet_byte_array")["size"]
        for i, v in enumerate(seq):
            heap0[("vals", rsz * i + bao["data"])] = Ptr("v%d" % i, 0, 1)
            heap0[("vals", rsz * i + bao["length"])] = len(v)
            for j, b in enumerate(v):
                heap0[("v%d" % i, j)] = b
        esz = rsz
    else:
        for i, v in enumerate(seq):
            heap0[("vals", width * i)] = v
        esz = width
    st = {"bufs": {}, "n": 0, "out": None}

    def reset(it=None):
        st["bufs"], st["n"], st["out"] = {}, 0, None

    def alloc(ev, a, it):
        st["n"] += 1
        return Ptr("m%d" % st["n"], 0, 1)

    def sync(it, p):
        k = (p.base, p.off)
        st["n"] += 1
        base = "bd%d" % st["n"]
        for j, b in enumerate(st["bufs"][k]):
            it.heap[(base, j)] = b
        it.heap[(p.base, p.off + bo["data"])] = Ptr(base, 0, 1)
        it.heap[(p.base, p.off + bo["size"])] = len(st["bufs"][k])

    def binit(ev, a, it):
        if not isinstance(a[0], Ptr):
            raise sem.Inconclusive("buffer initialised through an untracked pointer")
        st["bufs"][(a[0].base, a[0].off)] = []
        sync(it, a[0])
        return 0

    def bytes_at(it, p, n):
        if not isinstance(p, Ptr) or not isinstance(p.off, int) or not isinstance(n, int):
            raise sem.Inconclusive("append of an untracked range")
        return [it.byte_at(p.base, p.off + j) for j in range(n)]

    def bappend(ev, a, it):
        k = (a[0].base, a[0].off)
        st["bufs"].setdefault(k, [])
        st["bufs"][k] += bytes_at(it, a[1], a[2])
        if a[0].base not in ("dict", "idx"):
            sync(it, a[0])
        return 0

    def bu32(ev, a, it):
        k = (a[0].base, a[0].off)
        st["bufs"].setdefault(k, [])
        if not isinstance(a[1], int):
            raise sem.Inconclusive("length prefix is not a known value")
        st["bufs"][k] += [(a[1] >> (8 * j)) & 255 for j in range(4)]
        if a[0].base not in ("dict", "idx"):
            sync(it, a[0])
        return 0

    def bbyte(ev, a, it):
        st["bufs"].setdefault((a[0].base, a[0].off), []).append(a[1])
        return 0

    def rle(ev, a, it):
        if not isinstance(a[0], Ptr) or not isinstance(a[1], int):
            raise sem.Inconclusive("index encoder called with untracked arguments")
        st["out"] = ([it.heap.get((a[0].base, a[0].off + 4 * i)) for i in range(a[1])], a[2])
        return 0
    hooks = {"malloc": alloc, "calloc": alloc, "realloc": lambda ev, a, it: a[0], "free": lambda ev, a, it: 0,
             "carquet_buffer_init_capacity": binit, "carquet_buffer_init": binit,
             "carquet_buffer_destroy": lambda ev, a, it: 0, "carquet_buffer_append": bappend,
             "carquet_buffer_append_u32_le": bu32, "carquet_buffer_append_byte": bbyte,
             "carquet_rle_encode_all": rle}
    mem = lambda base, off, size: 0 if base.startswith("m") else None      # calloc'ed tables start cleared
    ret, ev, heap = sem.run(P, fn, [Ptr("vals", 0, esz), len(seq), Ptr("dict", 0, 1), Ptr("idx", 0, 1)], heap0=heap0,
                            hooks=hooks, single=True, memory=mem, on_start=reset, budget=3000000, max_forks=4, inline_depth=4)
    return ret, st["out"], st["bufs"].get(("dict", 0), []), st["bufs"].get(("idx", 0), [])


def check(ctx, rule="R34.dictionary"):
    P = ctx.P
    n = 0
    for name, kind, width in (("carquet_dictionary_encode_int32", "int", 4), ("carquet_dictionary_encode_int64", "int", 8),
                              ("carquet_dictionary_encode_byte_array", "bytes", 0)):
        fn = P.fn_opt(name, DI)
        if fn is None:
            continue
        key = "dictionary-build|%s:%s" % (DI, name)
        what = ("%s: every input gets the index of the dictionary slot holding its value; the dictionary is the distinct values in "
                "first-occurrence order, each once, in page format (abstract execution on lists with repeats, bucket-sharing values%s)"
                % (name, " and prefix-related strings" if kind == "bytes" else ""))
        seq = _strings() if kind == "bytes" else _ints(8 * width)
        try:
            ret, out, dct, idxbuf = _run(P, fn, kind, seq, width)
        except (sem.Inconclusive, KeyError) as ex:
            ctx.inconclusive(rule, key, P.where(fn.body), what, "%s: %s" % (type(ex).__name__, ex))
            continue
        n += 1
        if ret != 0 or out is None:
            ctx.inconclusive(rule, key, P.where(fn.body), what, "returned %r without reaching the index encoder" % (ret,))
            continue
        indices, bw = out
        first, order = {}, []
        for v in seq:
            if v not in first:
                first[v] = len(order)
                order.append(v)
        if kind == "bytes":
            want_dict = [b for v in order for b in list(len(v).to_bytes(4, "little")) + list(v)]
        else:
            want_dict = [b for v in order for b in list((v & ((1 << (8 * width)) - 1)).to_bytes(width, "little"))]
        bad = None
        if any(not isinstance(x, int) for x in indices) or any(not isinstance(b, int) for b in dct):
            ctx.inconclusive(rule, key, P.where(fn.body), what, "indices or dictionary bytes are not all known after the call")
            continue
        show = (lambda v: repr(v)) if kind == "bytes" else (lambda v: str(v))
        for i, v in enumerate(seq):
            if indices[i] != first[v]:
                other = order[indices[i]] if 0 <= indices[i] < len(order) else None
                bad = "input %d (%s) is given index %d, which is the slot of %s; its own slot is %d (%d values, %d distinct)" % (
                    i, show(v), indices[i], show(other) if other is not None else "no value", first[v], len(seq), len(order))
                break
        if bad is None and [b & 0xFF for b in dct] != want_dict:
            k = next((j for j, (x, y) in enumerate(zip(dct, want_dict)) if (x & 0xFF) != y), min(len(dct), len(want_dict)))
            bad = "the dictionary page differs from the distinct values in first-occurrence order at byte %d (%d bytes written, %d expected)" % (
                k, len(dct), len(want_dict))
        if bad is None and not (isinstance(bw, int) and (1 << bw) >= len(order) and bw <= 32):
            bad = "bit width %r cannot hold %d dictionary indices" % (bw, len(order))
        if bad is None and idxbuf[:1] != [bw]:
            bad = "the index stream starts with %r, not with the bit width byte %r" % (idxbuf[:1], bw)
        ctx.ob(rule, key, P.where(fn.body), what, bad is None, bad or "%d values, %d distinct" % (len(seq), len(order)))
    return n
