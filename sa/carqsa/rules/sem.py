"""Semantic evaluation of small dispatcher / table functions.

A function whose behaviour is a finite table (codec -> compressor, type -> size, operator x ordering
-> verdict, header byte -> form) is executed by the cursor-skeleton interpreter once per point of its
finite input space, with the calls it makes hooked and recorded as events. The rule then compares the
recorded events / results with the reference table. Unlike matching the syntax of a `switch`, this
is indifferent to how the table is spelled (switch, if-chain, lookup helper, reordered cases, named
constants, swapped arms)."""
from .skeleton import Interp, Ptr, U, Budget, Stop, FuncRef, StructVal


class Inconclusive(Exception):
    pass


def run(P, fn, args, heap0=None, hooks=None, budget=300000, max_forks=16, single=True, forced=None, memory=None, align=None, on_start=None, globals_=None, inline_depth=None, with_acc=False, bounds=None):
    """Execute fn abstractly. hooks: {callee: f(events, args, interp) -> value}. Returns
    (return value, events, heap) when single=True (exactly one path must exist), else the list of such
    triples, one per explored path (a path forks where a branch depends on unknown data)."""
    it = Interp(P, fn, budget=budget, max_forks=max_forks) if inline_depth is None else Interp(P, fn, budget=budget, max_forks=max_forks, inline_depth=inline_depth)
    it.heap0 = dict(heap0 or {})
    it.with_heap = True
    it.forced = dict(forced or {})
    if align is not None:
        it.align = dict(align)  # numeric address of a buffer modulo its alignment class: {base: residue}
    if globals_ is not None:
        it.seeded_globals = dict(globals_)     # {mutable global name: element size}: its members are given in heap0 under base 'g:<name>'
    if on_start is not None:
        it.on_path_start = on_start
    if bounds is not None:
        it.bounds = dict(bounds)    # {base: (lo, hi)}: the first access outside raises skeleton.OutOfBounds
    if memory is not None:
        it.memory = memory      # memory(base, offset, size) -> value of bytes the heap does not hold
    for name, h in (hooks or {}).items():
        it.hooks[name] = (lambda i_, node, a, h=h: h(i_.events, a, i_))
    try:
        outs = it.run(args)
    except (Budget, Stop) as ex:
        raise Inconclusive("%s: %s" % (fn.name, ex))
    if with_acc:
        # (return value, events, heap, accesses, accesses through pointers whose offset was not known) per path
        res4 = [(ret, ev, heap, acc, list(getattr(it, "unknown_mem", []))) for (acc, ret, ev, heap) in outs]
        if single:
            if len(res4) != 1:
                raise Inconclusive("%s: control flow depends on data the table does not determine (%d paths)" % (fn.name, len(res4)))
            return res4[0]
        return res4
    res = []
    for (acc, ret, ev, heap) in outs:
        if not any(r_ == ret and e_ == ev and h_ == heap for r_, e_, h_ in res):
            res.append((ret, ev, heap))     # paths that differ in nothing observable count once
    if single:
        if len(res) != 1:
            raise Inconclusive("%s: control flow depends on data the table does not determine (%d paths)" % (fn.name, len(res)))
        return res[0]
    return res


def set_out(it, arg, value=U):
    """Model `*arg = value` for an out-parameter passed as `&local` to a hooked callee."""
    if isinstance(arg, tuple) and arg and arg[0] == "ADDR":
        (arg[3] if len(arg) > 3 else it.cur_env)[arg[1]] = value
    elif isinstance(arg, Ptr) and it.heap is not None and isinstance(arg.off, int):
        it.heap[(arg.base, arg.off)] = value


def field_offsets(P, record):
    rec = P.record(record)
    return {f["n"]: f["off"] // 8 for f in rec["fields"] if f.get("off") is not None}
