"""R24: a bounds guard is not computed in a narrower type than the bound.

Pattern: a relational comparison one side of which is a 64-bit quantity (a size) and the other side a
`+`, `*` or `<<` of 32-bit type that is widened only *after* the arithmetic (directly, or through a 64-bit
local whose only value it is: `size_t entry = 4 + n; if (remaining < entry)`)
    uint32_t n = read_u32(p);  if (4 + n > input_size) return ERR;      // 4 + n wraps for n >= 2^32 - 4
The guard then admits exactly the values it exists to refuse. The rule decides each such site:
  ok            every non-constant operand is bounded: narrower than 32 bits, masked, a remainder, or
                tested by a relational comparison on every path that reaches the guard;
  violation     an operand is a 32-bit value taken from the input bytes (initialised from an expression
                over a `const uint8_t *`) and reaches the guard on some path without any test: the witness is
                the value 2^32 - k;
  inconclusive  anything else (an operand whose origin the rule does not recognise).
A guard written without the addition (`n > size - 4`) or widened first (`(size_t)4 + n`) is not an instance."""
from ..facts import src
from .flow import find_path_avoiding, describe_path

W32 = ("unsigned int", "uint32_t", "int", "int32_t")
W64 = ("unsigned long", "size_t", "long", "int64_t", "uint64_t", "unsigned long long", "long long", "ptrdiff_t", "ssize_t", "off_t")
NARROW = ("unsigned char", "uint8_t", "unsigned short", "uint16_t", "char", "signed char", "short", "int8_t", "int16_t", "_Bool", "bool")


def _bt(t):
    return (t or "").replace("const ", "").replace("volatile ", "").strip()


def _width(t):
    t = _bt(t)
    return 32 if t in W32 else 64 if t in W64 else 16 if t in NARROW else None


def _unparen(n):
    while n is not None and n.k == "ParenExpr" and n.c:
        n = n.c[0]
    return n


def _widened_arith(side):
    s = _unparen(side)
    if s is None or s.k != "ImplicitCastExpr" or _width(s.t) != 64 or not s.c:
        return None
    y = _unparen(s.c[0])
    if y is not None and y.k == "BinaryOperator" and y.op in ("+", "*", "<<") and _width(y.t) == 32 and y.cv is None:
        return y
    return None


def _arith32(e):
    y = _unparen(e)
    while y is not None and y.k == "ImplicitCastExpr" and y.c and _width(y.t) == 32 and _width(y.c[0].t) == 32:
        y = _unparen(y.c[0])
    if y is not None and y.k == "BinaryOperator" and y.op in ("+", "*", "<<") and _width(y.t) == 32 and y.cv is None:
        return y
    return None


def sites(fn):
    """[(comparison, arithmetic node)]: the 32-bit arithmetic is widened as an operand of the comparison, or it is
    the only value of a local (64-bit: widened when stored; 32-bit: widened when compared) that is an operand."""
    out = []
    defs = {}           # decl -> [value expression | None]
    for n in fn.body.walk():
        if n.k == "DeclStmt":
            for dd, init in zip(n.get("decls", []), n.c):
                if init is not None:
                    defs.setdefault(dd.get("d"), []).append(init)
        elif n.k in ("BinaryOperator", "CompoundAssignOperator") and n.op.endswith("=") and n.op not in ("==", "!=", "<=", ">="):
            t = n.c[0].strip_casts()
            if t is not None and t.k == "DeclRefExpr":
                defs.setdefault(t.get("d"), []).append(n.c[1] if n.op == "=" else None)
        elif n.k == "UnaryOperator" and n.op in ("++", "--", "&"):
            t = n.c[0].strip_casts()
            if t is not None and t.k == "DeclRefExpr":
                defs.setdefault(t.get("d"), []).append(None)
    carried = {}
    for d, vs in defs.items():
        if len(vs) == 1 and vs[0] is not None:
            y = _widened_arith(vs[0]) or _arith32(vs[0])
            if y is not None:
                carried[d] = y
    for x in fn.body.walk():
        if x.k != "BinaryOperator" or x.op not in ("<", "<=", ">", ">="):
            continue
        if not any(c is not None and _width(_unparen(c).t if _unparen(c).k != "ImplicitCastExpr" else _unparen(c).c[0].t) == 64 for c in x.c):
            continue
        for side in x.c:
            y = _widened_arith(side)
            if y is not None:
                out.append((x, y))
                continue
            s = side.strip_casts() if side is not None else None
            if s is not None and s.k == "DeclRefExpr" and s.get("dk") == "local" and s.get("d") in carried:
                # a 32-bit local must be widened for this comparison; a 64-bit one was widened when stored
                if _width(s.t) == 64 or _width(_unparen(side).t) == 64:
                    out.append((x, carried[s.get("d")]))
    return out


def _leaves(y):
    """Non-constant operands of the arithmetic (through nested + * << of the same width)."""
    out = []
    for o in y.c:
        o2 = _unparen(o)
        if o2 is None or o2.cv is not None:
            continue
        inner = o2
        while inner is not None and inner.k == "ImplicitCastExpr" and inner.c:
            if _width(inner.c[0].t) == 16:
                break
            inner = _unparen(inner.c[0])
        if inner is not None and inner.k == "BinaryOperator" and inner.op in ("+", "*", "<<") and inner.cv is None and _width(inner.t) == 32:
            out.extend(_leaves(inner))
        else:
            out.append(o2)
    return out


def _bounded_shape(o):
    x = o
    while x is not None and x.k in ("ImplicitCastExpr", "ParenExpr") and x.c:
        if _width(x.c[0].t) == 16:
            return True
        x = x.c[0]
    if x is None:
        return False
    if _width(x.t) == 16:
        return True
    if x.k == "BinaryOperator" and x.op in ("&", "%", ">>") and any(c is not None and c.cv is not None for c in x.c):
        return True
    if x.k in ("UnaryExprOrTypeTraitExpr",):
        return True
    return False


def _from_input(fn, decl):
    """The local is initialised / assigned only from expressions over a byte pointer of the input."""
    defs = []
    for n in fn.body.walk():
        if n.k == "DeclStmt":
            for dd, init in zip(n.get("decls", []), n.c):
                if dd.get("d") == decl and init is not None:
                    defs.append(init)
        elif n.k == "BinaryOperator" and n.op == "=" and n.c[0].strip_casts().k == "DeclRefExpr" and n.c[0].strip_casts().get("d") == decl:
            defs.append(n.c[1])
    if not defs:
        return False
    for d in defs:
        ok = False
        for x in d.walk():
            t = _bt(x.t)
            if x.k == "DeclRefExpr" and ("uint8_t *" in t or "unsigned char *" in t) :
                ok = True
        if not ok:
            return False
    return True


def check(ctx, relfiles, rule="R24.narrow-guard", key_prefix="narrow-guard"):
    P = ctx.P
    n = 0
    for rf in relfiles:
        for fn in P.funcs_in(rf):
            if fn.body is None or fn.cfg is None:
                continue
            per = {}
            for cmp_, y in sites(fn):
                n += 1
                idx = per[fn.name] = per.get(fn.name, -1) + 1
                key = "%s|%s:%s|L%d" % (key_prefix, rf, fn.name, idx)
                what = "the guard %s does not compute %s in 32 bits before widening unless its operands are bounded" % (src(cmp_), src(y))
                verdict, detail, wit = "ok", "", None
                for o in _leaves(y):
                    if _bounded_shape(o):
                        continue
                    x = o.strip_casts()
                    if x is not None and x.k == "DeclRefExpr" and x.get("dk") in ("local", "param"):
                        d = x.get("d")

                        def tests(e, d=d):
                            return (e.k == "BinaryOperator" and e.op in ("<", "<=", ">", ">=") and e.i != cmp_.i
                                    and any(z.k == "DeclRefExpr" and z.get("d") == d for z in e.walk())
                                    and not any(z.i == cmp_.i for z in e.walk()))
                        path = find_path_avoiding(fn.cfg, tests, lambda e: e.i == y.i)
                        if path is None:
                            continue        # tested on every path
                        if x.get("dk") == "local" and _from_input(fn, d):
                            verdict = "bad"
                            detail = ("%s comes from the input bytes and reaches the guard untested (%s); with %s = 2^32 - 1 the %s wraps"
                                      % (x.name, describe_path(fn, fn.cfg, path), x.name, {"+": "sum", "*": "product", "<<": "shift"}[y.op]))
                            wit = {"blocks": list(path)[-40:]}
                            break
                        verdict = "inc"
                        detail = "operand %s is 32 bits wide and the rule cannot bound it" % x.name
                    else:
                        verdict = "inc"
                        detail = "operand %s is 32 bits wide and the rule cannot bound it" % src(o)
                if verdict == "ok":
                    ctx.ok(rule, key, P.where(cmp_), what)
                elif verdict == "bad":
                    ctx.bad(rule, key, P.where(cmp_), what, detail, witness=wit)
                else:
                    ctx.inconclusive(rule, key, P.where(cmp_), what, detail)
    return n


# ---- R24b: an int-typed byte assembly is not sign-extended when it is widened to 64 bits
UNSIGNED_NARROW = {"unsigned char": 8, "uint8_t": 8, "unsigned short": 16, "uint16_t": 16, "_Bool": 1, "bool": 1}


def _maxval(e):
    """Upper bound of a non-negative int expression built from promoted narrow unsigned values, or None."""
    e = _unparen(e)
    if e is None:
        return None
    if e.cv is not None:
        return e.cv if e.cv >= 0 else None
    if e.k in ("ImplicitCastExpr", "CStyleCastExpr") and e.c:
        inner = _unparen(e.c[0])
        w = UNSIGNED_NARROW.get(_bt(inner.t)) if inner is not None else None
        if w is not None:
            return (1 << w) - 1
        if _bt(e.t) == _bt(inner.t) or e.k == "ImplicitCastExpr":
            w2 = UNSIGNED_NARROW.get(_bt(e.t))
            m = _maxval(inner)
            if w2 is not None:
                return min(m, (1 << w2) - 1) if m is not None else (1 << w2) - 1
            return m
        return None
    if UNSIGNED_NARROW.get(_bt(e.t)) is not None:
        return (1 << UNSIGNED_NARROW[_bt(e.t)]) - 1
    if e.k == "BinaryOperator":
        l, r = _maxval(e.c[0]), _maxval(e.c[1])
        if e.op == "<<" and l is not None and e.c[1].cv is not None:
            return l << e.c[1].cv
        if e.op == ">>" and l is not None and e.c[1].cv is not None:
            return l >> e.c[1].cv
        if e.op == "&":
            c = [v for v in (l, r) if v is not None]
            return min(c) if c else None
        if l is None or r is None:
            return None
        if e.op in ("|", "^"):
            return (1 << max(l, r).bit_length()) - 1
        if e.op == "+":
            return l + r
        if e.op == "*":
            return l * r
    if e.k == "ConditionalOperator" and len(e.c) == 3:
        a, b = _maxval(e.c[1]), _maxval(e.c[2])
        return max(a, b) if a is not None and b is not None else None
    return None


def signext_sites(fn):
    out = []
    for x in fn.body.walk():
        if x.k in ("ImplicitCastExpr", "CStyleCastExpr") and _width(x.t) == 64 and x.c and x.c[0] is not None:
            y = _unparen(x.c[0])
            if y is not None and _bt(y.t) == "int" and y.cv is None and any(
                    z.k == "BinaryOperator" and z.op == "<<" and z.c[1].cv is not None and z.c[0].cv is None for z in y.walk()):
                out.append((x, y))
    return out


def check_signext(ctx, relfiles, rule="R24.sign-extension", key_prefix="sign-extension"):
    """A shift tree of type int (promoted bytes) that is widened to 64 bits keeps bit 31 clear: otherwise the
    widening copies bit 31 into bits 32..63 (`p[3] << 24` with p[3] >= 0x80)."""
    P = ctx.P
    n = 0
    for rf in relfiles:
        for fn in P.funcs_in(rf):
            if fn.body is None:
                continue
            for idx, (x, y) in enumerate(signext_sites(fn)):
                n += 1
                key = "%s|%s:%s|L%d" % (key_prefix, rf, fn.name, idx)
                what = "the int expression %s cannot have bit 31 set when it is widened to %s" % (src(y)[:80], _bt(x.t))
                m = _maxval(y)
                if m is None:
                    ctx.inconclusive(rule, key, P.where(x), what, "the rule cannot bound the expression")
                elif m >= (1 << 31):
                    ctx.bad(rule, key, P.where(x), what, "with every narrow operand at its maximum the value reaches %#x: bit 31 is copied into bits 32..63" % m,
                            witness={"max": m})
                else:
                    ctx.ok(rule, key, P.where(x), what, "maximum %#x" % m)
    return n
