"""R24: a bounds guard is not computed in a narrower type than the bound.

Pattern: a relational comparison one side of which is a 64-bit quantity (a size) and the other side a
`+`, `*` or `<<` of 32-bit type that is widened only *after* the arithmetic
    uint32_t n = read_u32(p);  if (4 + n > input_size) return ERR;      // 4 + n wraps for n >= 2^32 - 4
The guard then admits exactly the values it exists to refuse. The rule decides each such site:
  ok            every non-constant operand is bounded: narrower than 32 bits, masked, a remainder, or
                tested by a relational comparison on every path that reaches the guard;
  violation     an operand is a 32-bit value taken from the input bytes (initialised from an expression
                over a `const uint8_t *`) and reaches the guard on some path without any test: the witness is
                the value 2^32 - k;
  inconclusive  anything else (an operand whose origin the rule does not recognise).
A guard written without the addition (`n > size - 4`) or widened first (`(size_t)4 + n`) is not an instance."""
from ..facts import src
from .flow import find_path_avoiding, describe_path

W32 = ("unsigned int", "uint32_t", "int", "int32_t")
W64 = ("unsigned long", "size_t", "long", "int64_t", "uint64_t", "unsigned long long", "long long", "ptrdiff_t", "ssize_t", "off_t")
NARROW = ("unsigned char", "uint8_t", "unsigned short", "uint16_t", "char", "signed char", "short", "int8_t", "int16_t", "_Bool", "bool")


def _bt(t):
    return (t or "").replace("const ", "").replace("volatile ", "").strip()


def _width(t):
    t = _bt(t)
    return 32 if t in W32 else 64 if t in W64 else 16 if t in NARROW else None


def _unparen(n):
    while n is not None and n.k == "ParenExpr" and n.c:
        n = n.c[0]
    return n


def sites(fn):
    """[(comparison, widened arithmetic node)]"""
    out = []
    for x in fn.body.walk():
        if x.k != "BinaryOperator" or x.op not in ("<", "<=", ">", ">="):
            continue
        for side in x.c:
            s = _unparen(side)
            if s is None or s.k != "ImplicitCastExpr" or _width(s.t) != 64 or not s.c:
                continue
            y = _unparen(s.c[0])
            if y is not None and y.k == "BinaryOperator" and y.op in ("+", "*", "<<") and _width(y.t) == 32 and y.cv is None:
                out.append((x, y))
    return out


def _leaves(y):
    """Non-constant operands of the arithmetic (through nested + * << of the same width)."""
    out = []
    for o in y.c:
        o2 = _unparen(o)
        if o2 is None or o2.cv is not None:
            continue
        inner = o2
        while inner is not None and inner.k == "ImplicitCastExpr" and inner.c:
            if _width(inner.c[0].t) == 16:
                break
            inner = _unparen(inner.c[0])
        if inner is not None and inner.k == "BinaryOperator" and inner.op in ("+", "*", "<<") and inner.cv is None and _width(inner.t) == 32:
            out.extend(_leaves(inner))
        else:
            out.append(o2)
    return out


def _bounded_shape(o):
    x = o
    while x is not None and x.k in ("ImplicitCastExpr", "ParenExpr") and x.c:
        if _width(x.c[0].t) == 16:
            return True
        x = x.c[0]
    if x is None:
        return False
    if _width(x.t) == 16:
        return True
    if x.k == "BinaryOperator" and x.op in ("&", "%", ">>") and any(c is not None and c.cv is not None for c in x.c):
        return True
    if x.k in ("UnaryExprOrTypeTraitExpr",):
        return True
    return False


def _from_input(fn, decl):
    """The local is initialised / assigned only from expressions over a byte pointer of the input."""
    defs = []
    for n in fn.body.walk():
        if n.k == "DeclStmt":
            for dd, init in zip(n.get("decls", []), n.c):
                if dd.get("d") == decl and init is not None:
                    defs.append(init)
        elif n.k == "BinaryOperator" and n.op == "=" and n.c[0].strip_casts().k == "DeclRefExpr" and n.c[0].strip_casts().get("d") == decl:
            defs.append(n.c[1])
    if not defs:
        return False
    for d in defs:
        ok = False
        for x in d.walk():
            t = _bt(x.t)
            if x.k == "DeclRefExpr" and ("uint8_t *" in t or "unsigned char *" in t) :
                ok = True
        if not ok:
            return False
    return True


def check(ctx, relfiles, rule="R24.narrow-guard", key_prefix="narrow-guard"):
    P = ctx.P
    n = 0
    for rf in relfiles:
        for fn in P.funcs_in(rf):
            if fn.body is None or fn.cfg is None:
                continue
            per = {}
            for cmp_, y in sites(fn):
                n += 1
                idx = per[fn.name] = per.get(fn.name, -1) + 1
                key = "%s|%s:%s|L%d" % (key_prefix, rf, fn.name, idx)
                what = "the guard %s does not compute %s in 32 bits before widening unless its operands are bounded" % (src(cmp_), src(y))
                verdict, detail, wit = "ok", "", None
                for o in _leaves(y):
                    if _bounded_shape(o):
                        continue
                    x = o.strip_casts()
                    if x is not None and x.k == "DeclRefExpr" and x.get("dk") in ("local", "param"):
                        d = x.get("d")

                        def tests(e, d=d):
                            return (e.k == "BinaryOperator" and e.op in ("<", "<=", ">", ">=") and e.i != cmp_.i
                                    and any(z.k == "DeclRefExpr" and z.get("d") == d for z in e.walk())
                                    and not any(z.i == cmp_.i for z in e.walk()))
                        path = find_path_avoiding(fn.cfg, tests, lambda e: e.i == cmp_.i)
                        if path is None:
                            continue        # tested on every path
                        if x.get("dk") == "local" and _from_input(fn, d):
                            verdict = "bad"
                            detail = ("%s comes from the input bytes and reaches the guard untested (%s); with %s = 2^32 - 1 the %s wraps"
                                      % (x.name, describe_path(fn, fn.cfg, path), x.name, {"+": "sum", "*": "product", "<<": "shift"}[y.op]))
                            wit = {"blocks": list(path)[-40:]}
                            break
                        verdict = "inc"
                        detail = "operand %s is 32 bits wide and the rule cannot bound it" % x.name
                    else:
                        verdict = "inc"
                        detail = "operand %s is 32 bits wide and the rule cannot bound it" % src(o)
                if verdict == "ok":
                    ctx.ok(rule, key, P.where(cmp_), what)
                elif verdict == "bad":
                    ctx.bad(rule, key, P.where(cmp_), what, detail, witness=wit)
                else:
                    ctx.inconclusive(rule, key, P.where(cmp_), what, detail)
    return n
