"""R46: a buffer that is grown because a request does not fit is grown to at least the request.

Shape (every growable buffer of the library): `if (NEED > CAP) { NEW = ...; p = malloc/realloc(... NEW ...); CAP = NEW; }`
and the code after the branch relies on CAP >= NEED. Geometric growth (`NEW = CAP * 2`, `CAP ? CAP * 2 : NEED`) is
a fine policy and a wrong bound: the first request is served exactly, a later one that is more than twice the
current capacity gets a buffer that is too small - a defect of the second use. The rule:

  instance     an if statement whose condition compares two expressions relationally and whose body assigns one of them
               (CAP, an lvalue) and allocates; the other side is NEED;
  covered      the value stored to CAP is NEED itself, or an expression every arm of which mentions NEED
               (`need`, `need * 2`, `cap > need ? cap : need`), or a local NEW for which the body also compares NEW with
               NEED (`if (NEW < NEED) NEW = NEED`, `while (NEW < NEED) NEW *= 2`) or every definition of NEW is covered;
  violation    the stored capacity is built from CAP alone on some arm and is never compared with NEED: the witness is
               CAP = c > 0, NEED = 2c + 1;
  not judged   bodies that do not store CAP; `count >= CAP` tests in front of appending one element (any doubling serves them).
"""
from ..facts import src
from ..util import is_assign

ALLOC = ("malloc", "realloc", "calloc", "carquet_arena_alloc", "aligned_alloc")
REL = ("<", "<=", ">", ">=")


def _strip(n):
    return n.strip_casts() if n is not None else None


def _text(n):
    return src(_strip(n)) if n is not None else ""


def _leaves(e):
    e = _strip(e)
    if e is None:
        return []
    if e.k == "ConditionalOperator":
        return _leaves(e.c[1]) + _leaves(e.c[2])
    return [e]


def _mentions(e, text):
    return any(_text(x) == text for x in e.walk() if x.k in ("DeclRefExpr", "MemberExpr")) or _text(e) == text


def check(ctx, fns, rule="R46.growth", key_prefix="growth"):
    P = ctx.P
    n = 0
    for fn in fns:
        if fn.body is None:
            continue
        seen = {}
        for g in fn.body.walk():
            if g.k != "IfStmt":
                continue
            kids = [x for x in g.c if x is not None]
            if len(kids) < 2:
                continue
            cond = kids[0].strip()
            if cond.k != "BinaryOperator" or cond.op not in REL:
                continue
            NEG = {"<": ">=", "<=": ">", ">": "<=", ">=": "<"}
            for body, op in ((kids[1], cond.op), (kids[2] if len(kids) > 2 else None, NEG[cond.op])):
                if body is None:
                    continue
                n += _branch(ctx, P, fn, cond, body, op, seen, rule, key_prefix)
    return n


def _branch(ctx, P, fn, cond, body, op, seen, rule, key_prefix):
    """one branch of an if statement, taken when `cond.c[0] op cond.c[1]`; returns 1 if it was a growth instance"""
    n = 0
    if True:
        if True:
            if not any(c.k == "CallExpr" and c.callee in ALLOC for c in body.walk()):
                return 0
            sides = [_text(cond.c[0]), _text(cond.c[1])]
            stores = []
            for x in body.walk():
                if is_assign(x) and x.op == "=":
                    lt = _text(x.c[0])
                    if lt in sides:
                        stores.append((x, lt))
            # stores of a constant (capacity = 0 on the failure path) say nothing about growth
            stores = [(x, lt) for x, lt in stores if x.c[1].cv is None]
            if not stores:
                return 0
            cap = stores[-1][1]
            need = sides[1] if sides[0] == cap else sides[0]
            if need == cap:
                return 0
            # the request must be the larger side for the branch to be a growth branch
            # `count >= cap` before appending ONE element is served by any doubling; the rule is about an arbitrary request
            grows = (sides[0] == need and op == ">") or (sides[1] == need and op == "<")
            if not grows:
                return 0
            n += 1
            k0 = "%s|%s:%s|%s" % (key_prefix, P.rel(fn.file), fn.name, cap.replace(" ", "")[:40])
            seen[k0] = seen.get(k0, -1) + 1
            key = k0 + ("#%d" % seen[k0] if seen[k0] else "")
            what = "when `%s` does not fit into `%s`, the capacity stored after growing is at least `%s`" % (need[:40], cap[:40], need[:40])
            st, _ = stores[-1]
            val = st.c[1]
            why = _uncovered(fn, body, val, need, cap, 0)
            ctx.ob(rule, key, P.where(st), what, why is None,
                   "" if why is None else "%s: with %s = c > 0 and %s = 2c + 1 the branch is taken and leaves %s = 2c" % (why, cap[:30], need[:30], cap[:30]))
    return n


def _uncovered(fn, body, val, need, cap, depth):
    """None if the value covers NEED, else a description of the arm that does not."""
    for leaf in _leaves(val):
        if _mentions(leaf, need):
            continue
        x = _strip(leaf)
        if x is not None and x.k == "DeclRefExpr" and x.get("dk") == "local" and depth < 3:
            d = x.get("d")
            # compared with NEED inside the body (clamp or doubling loop)?
            clamp = False
            for y in body.walk():
                if y.k == "BinaryOperator" and y.op in REL:
                    a, b = _strip(y.c[0]), _strip(y.c[1])
                    for p, q in ((a, b), (b, a)):
                        if p is not None and p.k == "DeclRefExpr" and p.get("d") == d and q is not None and _mentions(q, need):
                            clamp = True
            if clamp:
                continue
            defs = []
            for y in fn.body.walk():
                if y.k == "DeclStmt":
                    for dd, init in zip(y.get("decls", []), y.c):
                        if dd.get("d") == d and init is not None:
                            defs.append(init)
                elif is_assign(y) and _strip(y.c[0]) is not None and _strip(y.c[0]).k == "DeclRefExpr" and _strip(y.c[0]).get("d") == d:
                    defs.append(y.c[1] if y.op == "=" else None)
            if not defs:
                return "`%s` has no visible definition" % x.name
            # a compound update (`new *= 2`) inside a loop that tests NEED was handled by `clamp`; here every plain definition must cover
            for dv in defs:
                if dv is None:
                    continue
                r = _uncovered(fn, body, dv, need, cap, depth + 1)
                if r is not None:
                    return r
            continue
        return "the new capacity `%s` does not depend on `%s`" % (_text(leaf)[:50], need[:30])
    return None
