"""Serialise-then-parse round trip of the Thrift metadata, decided on what the code does to an abstract object.

A fully populated metadata object graph is laid out in the interpreter's heap from the record layouts of
parquet_types.h: every scalar member holds a marker unique to that member, every presence flag is set, every
list has two elements, every string / binary member points to its own named block. The public writer
(parquet_write_file_metadata / parquet_write_page_header) is executed abstractly with the Thrift *encoder
primitives* hooked: what it emits is a tree of (field id, wire type, value) - however the writer is organised
(hand-written sequences, field helpers, descriptor tables, loops). The tree is
  (a) compared with the frozen parquet.thrift table (ids, wire types, required fields), and
  (b) replayed into the public parser, executed abstractly with the *decoder primitives* hooked (each read
      returns the next value of the tree; the arena hands out fresh blocks; copies are tracked).
The object graph the parser builds must carry every marker in the member it came from. A member that comes
back different is reported with the member's name; a value the interpreter lost track of is inconclusive.
LogicalType (a union) is left to rules/logicaltype.py: the probe leaves has_logical_type clear."""
from . import sem
from .skeleton import Ptr, U, StructVal

PT = "src/thrift/parquet_types.c"
COUNTS = {("parquet_file_metadata", "schema"): "num_schema_elements", ("parquet_file_metadata", "row_groups"): "num_row_groups",
          ("parquet_file_metadata", "key_value_metadata"): "num_key_value", ("parquet_row_group", "columns"): "num_columns",
          ("parquet_column_metadata", "encodings"): "num_encodings", ("parquet_column_metadata", "path_in_schema"): "path_len",
          ("parquet_column_metadata", "key_value_metadata"): "num_key_value",
          ("parquet_column_metadata", "encoding_stats"): "num_encoding_stats"}
SKIP_FIELDS = {("parquet_schema_element", "logical_type"), ("parquet_schema_element", "has_logical_type")}
NLIST = 2
BINLEN = 5


def _clean(t):
    return (t or "").replace("const ", "").replace("struct ", "").strip()


class Graph:
    """Lays an object graph out in a heap dict and remembers what every marker means."""

    def __init__(self, P):
        self.P = P
        self.heap = {}
        self.marker = {}        # int marker -> "rec.field"
        self.blocks = {}        # string/binary block base -> "rec.field"
        self.next = 1000
        self.nblk = 0
        self.layout = []        # (record, base, off) roots for the comparison walk

    def rec(self, name):
        n = _clean(name)
        for cand in (n, n[:-2] if n.endswith("_t") else n + "_t"):
            if cand in self.P.records:
                return self.P.records[cand]
        return None

    def fresh(self, what):
        self.nblk += 1
        b = "blk%d" % self.nblk
        self.blocks[b] = what
        return b

    def populate(self, rname, base, off0, path):
        r = self.rec(rname)
        count_fields = set(v for (rn, f), v in COUNTS.items() if rn == r["name"])
        names = set(f["n"] for f in r["fields"])
        for f in r["fields"]:
            if f.get("off") is None or not f["n"]:
                # anonymous union (page header): populate its first arm only (the data page header)
                if f.get("off") is not None and not f["n"]:
                    ar = self.rec(f["t"]) or self._anon(f["t"])
                    if ar is not None:
                        first = ar["fields"][0]
                        sub = self.rec(first["t"])
                        if sub is not None:
                            self.populate(sub["name"], base, off0 + f["off"] // 8 + first["off"] // 8, path + "." + first["n"])
                continue
            t = _clean(f["t"])
            o = off0 + f["off"] // 8
            here = "%s.%s" % (r["name"], f["n"])
            if (r["name"], f["n"]) in SKIP_FIELDS:
                if "*" not in t and self.rec(t) is None:
                    self.heap[(base, o)] = 0
                continue
            if f["n"] in count_fields:
                self.heap[(base, o)] = NLIST
            elif f["n"].endswith("_len") and f["n"][:-4] in names:
                self.heap[(base, o)] = BINLEN
            elif t in ("_Bool", "bool"):
                self.heap[(base, o)] = 1
            elif t in ("char *", "uint8_t *"):
                self.heap[(base, o)] = Ptr(self.fresh(here), 0, 1)
            elif t == "char **":
                arr = self.fresh(here + "[]")
                for i in range(NLIST):
                    self.heap[(arr, 8 * i)] = Ptr(self.fresh("%s[%d]" % (here, i)), 0, 1)
                self.heap[(base, o)] = Ptr(arr, 0, 8)
            elif t.endswith("*"):
                sub = self.rec(t[:-1])
                arr = self.fresh(here + "[]")
                if sub is not None:
                    for i in range(NLIST):
                        self.populate(sub["name"], arr, i * sub["size"], "%s[%d]" % (here, i))
                    self.heap[(base, o)] = Ptr(arr, 0, sub["size"])
                else:
                    for i in range(NLIST):
                        self.heap[(arr, 4 * i)] = self._mark("%s[%d]" % (here, i), 4)
                    self.heap[(base, o)] = Ptr(arr, 0, 4)
            elif self.rec(t) is not None:
                self.populate(self.rec(t)["name"], base, o, here)
            else:
                bits = 16 if "16" in t else 8 if ("8" in t or t == "char") else 32 if ("32" in t or t in ("int",) or t.startswith("carquet_") or t.startswith("enum")) else 64
                self.heap[(base, o)] = self._mark(here, bits // 8)

    def _anon(self, t):
        import re
        m = re.search(r"\((?:unnamed|anonymous)[^)]*? at (.+?):(\d+):\d+\)", t or "")
        if not m:
            return None
        for _u, r in self.P.records_all:
            if r.get("file") == m.group(1) and r.get("line") == int(m.group(2)):
                return r
        return None

    def _mark(self, what, size):
        self.next += 1
        v = self.next if size >= 4 else (self.next % 120) + 1 if size == 1 else self.next % 30000
        self.marker.setdefault(v, what)
        return v


# ---------------------------------------------------------------------------------------------- writer side
W_PRIMS = {"thrift_write_byte": "byte", "thrift_write_i16": "i16", "thrift_write_i32": "i32", "thrift_write_i64": "i64",
           "thrift_write_double": "double", "thrift_write_bool": "bool"}


def _bid(p):
    return (p.base, p.off) if isinstance(p, Ptr) else p


def writer_events(P, fname, graph, root, args=None):
    fn = P.fn(fname, PT)
    hooks = {"thrift_encoder_init": lambda ev, a, it: None, "thrift_encoder_has_error": lambda ev, a, it: 0,
             "thrift_write_struct_begin": lambda ev, a, it: ev.append(("sb",)), "thrift_write_struct_end": lambda ev, a, it: ev.append(("se",)),
             "thrift_write_field_stop": lambda ev, a, it: ev.append(("stop",)),
             "thrift_write_field_header": lambda ev, a, it: ev.append(("fh", a[1], a[2])),
             "thrift_write_binary": lambda ev, a, it: ev.append(("bin", _bid(a[1]), a[2])),
             "thrift_write_string": lambda ev, a, it: ev.append(("str", _bid(a[1]))),
             "thrift_write_list_begin": lambda ev, a, it: ev.append(("lb", a[1], a[2])),
             "thrift_write_set_begin": lambda ev, a, it: ev.append(("lb", a[1], a[2])),
             "carquet_error_set": lambda ev, a, it: None, "strlen": lambda ev, a, it: BINLEN}
    for nm, k in W_PRIMS.items():
        hooks[nm] = (lambda ev, a, it, k=k: ev.append((k, a[1])))
    ret, ev, heap = sem.run(P, fn, args if args is not None else [Ptr(root, 0, 1), Ptr("outbuf", 0, 1), 0],
                            heap0=dict(graph.heap if hasattr(graph, "heap") else graph), hooks=hooks, single=True,
                            max_forks=64, budget=2000000, inline_depth=8)
    return ret, ev


def build_tree(ev):
    pos = [0]

    def value():
        e = ev[pos[0]]
        if e[0] == "sb":
            return struct()
        if e[0] == "lb":
            pos[0] += 1
            items = [value() for _ in range(e[2] if isinstance(e[2], int) else 0)]
            return {"k": "list", "et": e[1], "n": e[2], "items": items}
        pos[0] += 1
        return {"k": e[0], "v": e[1:]}

    def struct():
        assert ev[pos[0]][0] == "sb", ev[pos[0]]
        pos[0] += 1
        fields = []
        while ev[pos[0]][0] != "se":
            e = ev[pos[0]]
            if e[0] == "stop":
                pos[0] += 1
                continue
            if e[0] != "fh":
                raise ValueError("value without a field header: %s" % (e,))
            pos[0] += 1
            if ev[pos[0]][0] in ("fh", "se", "stop"):
                fields.append((e[2], e[1], {"k": "none", "v": (), "ty": e[1]}))     # a bool carried by the header type
            else:
                fields.append((e[2], e[1], value()))
        pos[0] += 1
        return {"k": "struct", "fields": fields}
    t = struct()
    if pos[0] != len(ev):
        raise ValueError("events after the top-level struct: %s" % (ev[pos[0]:pos[0] + 3],))
    return t


# ---------------------------------------------------------------------------------------------- parser side
class Replay:
    def __init__(self, tree):
        self.tree = tree
        self.stack = []
        self.pending = None
        self.skipped = []
        self.started = False

    def take(self):
        if self.pending is not None:
            v, self.pending = self.pending, None
            return v
        if self.stack and self.stack[-1][0]["k"] == "list":
            node, i = self.stack[-1]
            if i < len(node["items"]):
                self.stack[-1][1] += 1
                return node["items"][i]
        return None

    def unwind_lists(self):
        while self.stack and self.stack[-1][0]["k"] == "list":
            self.stack.pop()


def parse_with_replay(P, fname, tree, args_for, out_base, str_len=None):
    fn = P.fn(fname, PT)
    do = sem.field_offsets(P, "thrift_decoder")
    rp = Replay(tree)
    copies = {}
    nar = [0]

    def dec_init(ev, a, it):
        if isinstance(a[0], Ptr):
            for o in do.values():
                it.heap[(a[0].base, a[0].off + o)] = 0
        return None

    def sbegin(ev, a, it):
        if not rp.started:
            rp.started = True
            rp.stack.append([tree, 0])
            return None
        v = rp.take()
        if v is None or v["k"] != "struct":
            ev.append(("desync", "struct_begin", v and v["k"]))
            rp.stack.append([{"k": "struct", "fields": []}, 0])
        else:
            rp.stack.append([v, 0])
        return None

    def send(ev, a, it):
        rp.unwind_lists()
        if rp.stack:
            node, i = rp.stack.pop()
            if i < len(node["fields"]):
                ev.append(("unread-fields", [f[0] for f in node["fields"][i:]]))
        rp.pending = None
        return None

    def fbegin(ev, a, it):
        rp.unwind_lists()
        rp.pending = None
        if not rp.stack:
            return 0
        node, i = rp.stack[-1]
        if i >= len(node["fields"]):
            sem.set_out(it, a[1], 0)
            return 0
        fid, ty, val = node["fields"][i]
        rp.stack[-1][1] += 1
        rp.pending = val
        sem.set_out(it, a[1], ty)
        sem.set_out(it, a[2], fid)
        return 1

    def prim(kind):
        def h(ev, a, it):
            v = rp.take()
            if v is None:
                ev.append(("desync", kind, None))
                return U
            if v["k"] == "none":
                # compact protocol: BOOLEAN_TRUE = 1, BOOLEAN_FALSE = 2 in the field header
                return (1 if v.get("ty") == 1 else 0) if v.get("ty") in (1, 2) else 1
            if v["k"] in ("bin", "str", "list", "struct"):
                ev.append(("desync", kind, v["k"]))
                return U
            return v["v"][0]
        return h

    def rbin(ev, a, it):
        v = rp.take()
        if v is None or v["k"] not in ("bin", "str"):
            ev.append(("desync", "binary", v and v["k"]))
            return U
        p = v["v"][0]
        n = v["v"][1] if v["k"] == "bin" else (BINLEN if str_len is None else str_len)
        if len(a) > 1:
            sem.set_out(it, a[1], n)
        if isinstance(p, tuple) and isinstance(n, int) and 0 < n <= 64 and isinstance(p[1], int):
            # the bytes of the string / binary are ordinary non-NUL bytes: a parser that copies them itself (length scan,
            # byte loop) meets the same content as one that hands them to the arena's copy helpers
            for i_ in range(n):
                it.heap.setdefault((p[0], p[1] + i_), 0x61 + (i_ % 26))
        return Ptr(p[0], p[1], 1) if isinstance(p, tuple) else p

    def lbegin(ev, a, it):
        v = rp.take()
        if v is None or v["k"] != "list":
            ev.append(("desync", "list_begin", v and v["k"]))
            sem.set_out(it, a[1], 0)
            sem.set_out(it, a[2], 0)
            return None
        rp.stack.append([v, 0])
        sem.set_out(it, a[1], v["et"])
        sem.set_out(it, a[2], v["n"])
        return None

    def skip(ev, a, it):
        v = rp.take()
        rp.skipped.append(v)
        return None

    def alloc(ev, a, it, sizearg):
        sz = a[sizearg] if sizearg is not None else (a[1] * a[2] if isinstance(a[1], int) and isinstance(a[2], int) else U)
        nar[0] += 1
        b = "ar%d" % nar[0]
        if isinstance(sz, int) and sz <= 8192:
            for o in range(sz):
                it.heap.setdefault((b, o), 0)
        return Ptr(b, 0, 1)

    def memcpy(ev, a, it):
        if isinstance(a[0], Ptr) and isinstance(a[1], Ptr):
            copies[a[0].base] = a[1].base
        return a[0]

    def dup(ev, a, it):
        nar[0] += 1
        b = "ar%d" % nar[0]
        copies[b] = a[1].base if isinstance(a[1], Ptr) else None
        return Ptr(b, 0, 1)

    def memset(ev, a, it):
        if isinstance(a[0], Ptr) and isinstance(a[0].off, int) and isinstance(a[2], int) and a[2] <= 8192 and a[1] == 0:
            for k_ in [k_ for k_ in it.heap if k_[0] == a[0].base and isinstance(k_[1], int) and a[0].off <= k_[1] < a[0].off + a[2]]:
                del it.heap[k_]
            for o in range(a[2]):
                it.heap[(a[0].base, a[0].off + o)] = 0
        return a[0]

    def strdup_alloc(ev, a, it):
        v = rp.take()
        if v is None or v["k"] not in ("bin", "str"):
            ev.append(("desync", "string", v and v["k"]))
            return U
        nar[0] += 1
        b = "ar%d" % nar[0]
        copies[b] = v["v"][0][0] if isinstance(v["v"][0], tuple) else None
        return Ptr(b, 0, 1)
    hooks = {"thrift_decoder_init": dec_init, "thrift_decoder_init_reader": dec_init, "thrift_read_struct_begin": sbegin, "thrift_read_struct_end": send,
             "thrift_read_field_begin": fbegin, "thrift_read_binary": rbin, "thrift_read_list_begin": lbegin, "thrift_read_set_begin": lbegin,
             "thrift_skip": skip, "thrift_skip_field": skip, "thrift_read_string_alloc": strdup_alloc,
             "carquet_arena_alloc": lambda ev, a, it: alloc(ev, a, it, 1), "carquet_arena_calloc": lambda ev, a, it: alloc(ev, a, it, None),
             "carquet_arena_alloc_aligned": lambda ev, a, it: alloc(ev, a, it, 1),
             "carquet_arena_strdup": lambda ev, a, it: (copies.__setitem__("ar%d" % (nar[0] + 1), a[1].base if isinstance(a[1], Ptr) else None), alloc(ev, a, it, None))[1],
             "malloc": lambda ev, a, it: alloc(ev, a, it, 0), "calloc": lambda ev, a, it: alloc(ev, [None, a[0], a[1]], it, None), "free": lambda ev, a, it: None,
             "carquet_arena_strndup": lambda ev, a, it: dup(ev, a, it), "carquet_arena_memdup": lambda ev, a, it: dup(ev, a, it),
             "memcpy": memcpy, "memset": memset, "carquet_error_set": lambda ev, a, it: None, "snprintf": lambda ev, a, it: 0,
             "thrift_decoder_remaining": lambda ev, a, it: 100, "carquet_buffer_reader_remaining": lambda ev, a, it: 1 << 20}
    for nm, k in (("thrift_read_byte", "byte"), ("thrift_read_i16", "i16"), ("thrift_read_i32", "i32"), ("thrift_read_i64", "i64"),
                  ("thrift_read_double", "double"), ("thrift_read_bool", "bool"), ("thrift_read_zigzag", "i64"), ("thrift_read_varint", "i64")):
        hooks[nm] = prim(k)
    ret, ev, heap = sem.run(P, fn, args_for(), heap0={}, hooks=hooks, single=True, max_forks=64, budget=3000000, inline_depth=8,
                            on_start=lambda: (rp.__init__(tree), copies.clear(), nar.__setitem__(0, 0)))
    return ret, ev, heap, copies, rp


# ---------------------------------------------------------------------------------------------- comparison
def compare(graph, orig_heap, rname, obase, ooff, new_heap, nbase, noff, copies, out, path):
    r = graph.rec(rname)
    count_fields = set(v for (rn, f), v in COUNTS.items() if rn == r["name"])
    for f in r["fields"]:
        if f.get("off") is None:
            continue
        if not f["n"]:
            ar = graph.rec(f["t"]) or graph._anon(f["t"])
            if ar is not None:
                first = ar["fields"][0]
                sub = graph.rec(first["t"])
                if sub is not None:
                    compare(graph, orig_heap, sub["name"], obase, ooff + f["off"] // 8 + first["off"] // 8, new_heap, nbase,
                            noff + f["off"] // 8 + first["off"] // 8, copies, out, path + "." + first["n"])
            continue
        if (r["name"], f["n"]) in SKIP_FIELDS:
            continue
        t = _clean(f["t"])
        o = f["off"] // 8
        here = "%s.%s" % (r["name"], f["n"])
        ov = orig_heap.get((obase, ooff + o))
        nv = new_heap.get((nbase, noff + o))
        if self_rec(graph, t):
            compare(graph, orig_heap, graph.rec(t)["name"], obase, ooff + o, new_heap, nbase, noff + o, copies, out, path + "." + f["n"])
            continue
        if t in ("char *", "uint8_t *"):
            same = isinstance(nv, Ptr) and isinstance(ov, Ptr) and (nv.base == ov.base or copies.get(nv.base) == ov.base)
            out.append((here, path, same, "original block %s, parsed %s" % (ov.base if isinstance(ov, Ptr) else ov, nv), ov))
            continue
        if t == "char **":
            ok = isinstance(nv, Ptr) and isinstance(ov, Ptr)
            for i in range(NLIST if ok else 0):
                a, b = orig_heap.get((ov.base, 8 * i)), new_heap.get((nv.base, nv.off + 8 * i))
                same = isinstance(a, Ptr) and isinstance(b, Ptr) and (a.base == b.base or copies.get(b.base) == a.base)
                out.append((here + "[]", path, same, "element %d: original %s, parsed %s" % (i, a, b), a))
            if not ok:
                out.append((here, path, False, "parsed %s" % (nv,), ov))
            continue
        if t.endswith("*"):
            sub = graph.rec(t[:-1])
            if not (isinstance(nv, Ptr) and isinstance(ov, Ptr)):
                out.append((here, path, False, "parsed %s" % (nv,), ("array", ov)))
                continue
            for i in range(NLIST):
                if sub is not None:
                    compare(graph, orig_heap, sub["name"], ov.base, i * sub["size"], new_heap, nv.base, nv.off + i * sub["size"], copies, out,
                            "%s.%s[%d]" % (path, f["n"], i))
                else:
                    a, b = orig_heap.get((ov.base, 4 * i)), new_heap.get((nv.base, nv.off + 4 * i))
                    out.append((here + "[]", path, a == b, "element %d: original %s, parsed %s" % (i, a, b), a))
            continue
        out.append((here, path, ov == nv, "original %s, parsed %s" % (ov, nv), ov))


def self_rec(graph, t):
    return "*" not in t and graph.rec(t) is not None


def spec_diffs(tree, sname):
    """differences between the emitted tree and the frozen parquet.thrift table: [(struct, field id, text)]"""
    from ..spec_parquet import THRIFT, LIST_ELEM, NESTED, COMPACT_TYPES as CT
    out = []
    WT = {"BOOL": (CT["TRUE"], CT["FALSE"]), "BYTE": (CT["BYTE"],), "I8": (CT["BYTE"],), "I16": (CT["I16"],), "I32": (CT["I32"],), "I64": (CT["I64"],),
          "DOUBLE": (CT["DOUBLE"],), "BINARY": (CT["BINARY"],), "STRUCT": (CT["STRUCT"],), "LIST": (CT["LIST"],)}

    def walk(node, sn):
        spec = THRIFT.get(sn)
        if spec is None:
            return
        seen = set()
        for fid, wt, val in node["fields"]:
            seen.add(fid)
            if fid not in spec:
                out.append((sn, fid, "field id %d is not a field of %s" % (fid, sn)))
                continue
            st = spec[fid][0]
            kind = "LIST" if st.startswith("LIST") else st
            if wt not in WT.get(kind, ()):
                out.append((sn, fid, "%s.%d (%s) is written with wire type %s, the specification has %s" % (sn, fid, spec[fid][1], wt, st)))
            if val["k"] == "struct" and (sn, fid) in NESTED:
                walk(val, NESTED[(sn, fid)])
            elif val["k"] == "list":
                want = LIST_ELEM.get((sn, fid))
                if want is not None and val["et"] not in WT.get(want, ()):
                    out.append((sn, fid, "%s.%d: list elements have wire type %s, the specification has %s" % (sn, fid, val["et"], want)))
                for it_ in val["items"]:
                    if it_["k"] == "struct" and (sn, fid) in NESTED:
                        walk(it_, NESTED[(sn, fid)])
        for fid, (st, nm, req) in spec.items():
            if req and fid not in seen:
                out.append((sn, fid, "required field %s.%d (%s) is not written" % (sn, fid, nm)))
    walk(tree, sname)
    return out


def _emitted(ev):
    ints, blocks = set(), set()
    for e in ev:
        if e[0] in ("i32", "i64", "i16", "byte", "double") and isinstance(e[1], int):
            ints.add(e[1])
        elif e[0] in ("bin", "str") and isinstance(e[1], tuple):
            blocks.add(e[1][0])
    return ints, blocks


def settle_extraction(ctx, decided, logical_ok=False):
    """The grammar extraction reads the writers' and parsers' call sequences and compares them field by field. It is a
    reading of shapes: when a writer is organised in a way it does not follow (descriptor tables, helpers taking the
    field id) it gives up, and when a parser stores through an out-parameter, a moving pointer or a lookup table its
    "no case for this field" / "another member" verdicts have no execution behind them. The semantic probes decide the
    same clauses on what is emitted and what comes back:

      * extraction verdicts (given up *or* adverse) about LogicalType members are settled by the parameter round trip
        of rules/logicaltype.py when every scenario of it came back intact;
      * the others are settled by the round-trip probe of their root when that probe is conclusive and lost nothing
        in the record the verdict is about (a loss is reported by the probe itself, keyed by record).

    Nothing is settled when the probe that would vouch for it is inconclusive."""
    from .. import report
    n = 0
    lost_records = set()
    lossy_writers = set()      # "<file>:<writer>" of roots whose probe lost something: adverse verdicts there stand
    for o in ctx.obs:
        if o.key.startswith("roundtrip|") and o.key.count("|") >= 3 and o.status == report.VIOLATION:
            lost_records.add(o.key.split("|")[-1])
            lossy_writers.add(o.key.split("|")[1])
    any_loss = bool(lost_records)
    for o in ctx.obs:
        ext = o.key.startswith("writer-shape|") or (o.key.startswith("field|") and o.rule in ("R5.agree", "R5.shape", "R5.spec"))
        if not ext or o.status == report.DISCHARGED:
            continue
        logical = "LogicalType." in o.key or "write_logical_type" in o.key or "parse_logical_type" in o.key
        if logical:
            if not logical_ok:
                continue
            why = "the LogicalType parameter round trip (every member, every parameter combination of its grid) is intact"
        else:
            if not decided:
                continue
            if o.status != report.INCONCLUSIVE:
                # an adverse verdict is only overruled when the probe compared that part of the tree and lost nothing there:
                # the page-header probes have a recorded loss (statistics), so verdicts about statistics stay
                if o.key.split("|")[1] in lossy_writers or (any_loss and ("Statistics" in o.key or "statistics" in o.key)):
                    continue
            why = "the round-trip probe compared every serialised member of this root and lost none here"
        if o.status == report.INCONCLUSIVE:
            o.how = "call-sequence extraction gave up (%s); %s" % ((o.how or "")[:140], why)
        else:
            o.how = "shape-level verdict of the call-sequence extraction (%s) overruled: %s" % ((o.how or "")[:140], why)
        o.status = report.DISCHARGED
        n += 1
    return n


def check(ctx, rule="R5.roundtrip", roundtrip=True, only=None):
    """Serialise-then-parse of FileMetaData and of the three page headers on an abstract, fully populated object."""
    P = ctx.P
    n = 0
    pt = P.enum("carquet_page_type")
    cases = [("FileMetaData", "parquet_write_file_metadata", "parquet_parse_file_metadata", "parquet_file_metadata", None)]
    for nm, tag in (("DataPageHeader", "CARQUET_PAGE_DATA"), ("DictionaryPageHeader", "CARQUET_PAGE_DICTIONARY")):
        if tag in pt:
            cases.append((nm, "parquet_write_page_header", "parquet_parse_page_header", "parquet_page_header", pt[tag]))
    for sname, wname, pname, rname, page_type in cases:
        if only is not None and sname not in only:
            continue
        key = "roundtrip|%s:%s|%s" % (PT, wname, sname)
        what = ("every member of %s that %s serialises comes back in the same member from %s (abstract object: unique marker per member, "
                "all presence flags set, lists of two; encoder and decoder primitives hooked)" % (sname, wname, pname))
        wfn = P.fn(wname, PT)
        try:
            g = Graph(P)
            g.populate(rname, "obj", 0, sname)
            if page_type is not None:
                ho = sem.field_offsets(P, "parquet_page_header")
                g.heap[("obj", ho["type"])] = page_type
                if page_type != pt.get("CARQUET_PAGE_DATA"):
                    # the union arm in use is the dictionary header: lay it out instead of the data page header
                    anon = [f for f in P.record("parquet_page_header")["fields"] if not f["n"]]
                    ar = g._anon(anon[0]["t"]) if anon else None
                    arm = [f for f in (ar["fields"] if ar else []) if "dictionary" in f["n"]]
                    if not arm:
                        continue
                    for k_ in [k_ for k_ in g.heap if k_[0] == "obj" and k_[1] >= anon[0]["off"] // 8]:
                        del g.heap[k_]
                    g.populate(g.rec(arm[0]["t"])["name"], "obj", anon[0]["off"] // 8 + arm[0]["off"] // 8, sname)
            ret, ev = writer_events(P, wname, g, "obj")
            if ret != 0:
                ctx.inconclusive(rule, key, P.where(wfn.body), what, "the writer returns %s on the abstract object" % (ret,))
                continue
            tree = build_tree(ev)
            sd = spec_diffs(tree, "FileMetaData" if rname == "parquet_file_metadata" else "PageHeader")
            ctx.ob(rule, "spec|%s:%s|%s" % (PT, wname, sname), P.where(wfn.body),
                   "what %s emits for a fully populated %s has the field ids, wire types, list element types and required fields of parquet.thrift" % (wname, sname),
                   not sd, "; ".join(x[2] for x in sd[:4]))
            if not roundtrip:
                n += 1
                continue
            if rname == "parquet_file_metadata":
                args_for = lambda: [Ptr("data", 0, 1), 1000, Ptr("arena", 0, 1), Ptr("out", 0, 1), 0]
            else:
                args_for = lambda: [Ptr("data", 0, 1), 1000, Ptr("out", 0, 1), Ptr("nread", 0, 8), 0]
            ret2, ev2, heap, copies, rp = parse_with_replay(P, pname, tree, args_for, "out")
        except (sem.Inconclusive, ValueError, KeyError, AssertionError, IndexError) as ex:
            ctx.inconclusive(rule, key, P.where(wfn.body), what, "%s: %s" % (type(ex).__name__, ex))
            continue
        n += 1
        desync = [e for e in ev2 if e and e[0] in ("desync", "unread-fields")]
        if ret2 != 0 or desync:
            ctx.ob(rule, key, P.where(wfn.body), what, False, "the parser returns %s on the writer's own output%s" % (ret2, "; " + str(desync[:2]) if desync else ""))
            continue
        ints, blocks = _emitted(ev)
        out = []
        compare(g, g.heap, rname, "obj", 0, heap, "out", 0, copies, out, sname)
        lost = {}
        nser = 0
        for here, path, same, how, orig in out:
            # was this member serialised at all? (its marker / its block appears in what the writer emitted)
            if isinstance(orig, int):
                ser = orig in ints and orig >= 100
            elif isinstance(orig, Ptr):
                ser = orig.base in blocks
            elif isinstance(orig, tuple) and orig and orig[0] == "array":
                arr = orig[1]
                ser = isinstance(arr, Ptr) and any((isinstance(v, int) and v in ints and v >= 100) or (isinstance(v, Ptr) and v.base in blocks)
                                                   for (b_, o_), v in g.heap.items() if b_ == arr.base)
            else:
                ser = False
            if not ser:
                continue
            nser += 1
            if not same:
                lost.setdefault(here, (path, how))
        ctx.count("roundtrip_members_%s" % sname, nser)
        if nser < 5:
            ctx.inconclusive(rule, key, P.where(wfn.body), what, "only %d serialised members were identified" % nser)
            continue
        # one obligation per lost member, so that a recorded finding is keyed on the member and a new loss is still reported
        byrec = {}
        for k, v in sorted(lost.items()):
            byrec.setdefault(k.split(".")[0], []).append((k, v))
        for recn, items in sorted(byrec.items()):
            ctx.bad(rule, key + "|" + recn, P.where(wfn.body), "the members of %s written by %s come back in the same members" % (recn, wname),
                    "; ".join("%s (%s): %s" % (k, v[0], v[1]) for k, v in items[:8]))
        ctx.ob(rule, key, P.where(wfn.body), what, True, "%d serialised members compared, %d lost (reported separately)" % (nser, len(lost)))
        # the same footer with every string empty: a zero-length name / key / created_by is a value like any other and
        # comes back as a string (not as "absent")
        if rname == "parquet_file_metadata":
            # the same footer with the optional KeyValue.value absent in every second pair of each key/value list: what one
            # list element leaves unset must not be filled from the element before it
            key1 = key + "|sparse-values"
            what1 = ("with KeyValue.value absent in the second pair of every key/value list, %s leaves it absent there and fills the first pair's" % pname)
            try:
                g2 = Graph(P)
                g2.populate(rname, "obj", 0, sname)
                kvr = g2.rec("parquet_key_value")
                voff = [f["off"] // 8 for f in (kvr["fields"] if kvr else []) if f["n"] == "value"]
                absent = []
                if kvr is not None and voff:
                    for b_, what_ in list(g2.blocks.items()):
                        if what_.endswith("key_value_metadata[]"):
                            kk = (b_, 1 * kvr["size"] + voff[0])
                            if isinstance(g2.heap.get(kk), Ptr):
                                g2.heap[kk] = 0
                                absent.append(kk)
                if not absent:
                    raise sem.Inconclusive("no key/value list found in the populated object")
                retw, evw = writer_events(P, wname, g2, "obj")
                if retw != 0:
                    raise sem.Inconclusive("the writer returns %s" % (retw,))
                tree2 = build_tree(evw)
                ret4, ev4, heap4, copies4, rp4 = parse_with_replay(P, pname, tree2, args_for, "out")
                out4 = []
                compare(g2, g2.heap, rname, "obj", 0, heap4, "out", 0, copies4, out4, sname)
                wrong = []
                for here, path, same, how, orig in out4:
                    if here != "parquet_key_value.value" or here in lost:
                        continue
                    if orig == 0:
                        # absent in the original: must not have become a string
                        nvp = how.split("parsed ")[-1]
                        if not nvp.startswith(("0", "None")):
                            wrong.append("%s: written absent, parsed as %s" % (path, nvp[:40]))
                    elif not same:
                        wrong.append("%s: %s" % (path, how[:60]))
                if ret4 != 0:
                    ctx.ob(rule, key1, P.where(wfn.body), what1, False, "the parser returns %s" % (ret4,))
                else:
                    ctx.ob(rule, key1, P.where(wfn.body), what1 + " (%d lists)" % len(absent), not wrong, "; ".join(wrong[:4]))
            except (sem.Inconclusive, ValueError, KeyError, AssertionError, IndexError) as ex:
                ctx.inconclusive(rule, key1, P.where(wfn.body), what1, "%s: %s" % (type(ex).__name__, ex))
            key0 = key + "|empty-strings"
            what0 = "with every string member empty (length 0 on the wire) %s still fills the string members %s wrote" % (pname, wname)
            try:
                ret3, ev3, heap3, copies3, rp3 = parse_with_replay(P, pname, tree, args_for, "out", str_len=0)
                out3 = []
                compare(g, g.heap, rname, "obj", 0, heap3, "out", 0, copies3, out3, sname)
                str_blocks = set(e[1][0] for e in ev if e[0] == "str" and isinstance(e[1], tuple))
                gone = {}
                for here, path, same, how, orig in out3:
                    if here in lost or same:
                        continue
                    if isinstance(orig, Ptr) and orig.base in str_blocks:
                        gone.setdefault(here, (path, how))
                if ret3 != 0:
                    ctx.ob(rule, key0, P.where(wfn.body), what0, False, "the parser returns %s" % (ret3,))
                else:
                    ctx.ob(rule, key0, P.where(wfn.body), what0, not gone,
                           "; ".join("%s (%s): %s" % (k, v[0], v[1]) for k, v in sorted(gone.items())[:6]))
            except (sem.Inconclusive, ValueError, KeyError, AssertionError, IndexError) as ex:
                ctx.inconclusive(rule, key0, P.where(wfn.body), what0, "%s: %s" % (type(ex).__name__, ex))
    return n
