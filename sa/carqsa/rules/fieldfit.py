"""R25: a packed byte holds every field the guards admit.

Encoders build tag bytes by OR-ing shifted fields: `(uint8_t)(((offset >> 8) << 5) | ((len - 4) << 2) | 1)`.
Each field has a slot (its shift up to the next field / the end of the byte), and the branch that leads to
the store says which values reach it (`len < 12 && offset < 2048`). The rule computes, by a forward
dataflow over clang's CFG, the upper bound that the conditions on every path to the store give each scalar
local / parameter (constants only; an assignment forgets the bound; for a static helper the bounds of the
arguments at every call site are added), and then requires of every OR-tree with a left-shifted field that
is narrowed to 8 bits:
  - every field whose operands are all bounded stays inside the byte, and
  - the bit ranges of two such fields (or of a field and a constant) do not overlap.
A field with an unbounded operand is not decided (its range is a contract of the caller). The witness of a
violation is the largest value the guards admit: with `offset <= 2048`, `(2048 >> 8) << 5` is 0x100."""
from ..facts import src
from ..util import is_assign

U8 = ("uint8_t", "unsigned char")


def _bt(t):
    return (t or "").replace("const ", "").strip()


def _unparen(n):
    while n is not None and n.k == "ParenExpr" and n.c:
        n = n.c[0]
    return n


def _var(n):
    x = n.strip_casts() if n is not None else None
    if x is not None and x.k == "DeclRefExpr" and x.get("dk") in ("local", "param") and "*" not in (x.t or "") and "[" not in (x.t or ""):
        return x.get("d")
    return None


def _edge_bound(cond, truth):
    """(decl, inclusive upper bound) established by the branch outcome, or None."""
    c = cond.strip_casts() if cond is not None else None
    neg = False
    while c is not None and c.k == "UnaryOperator" and c.op == "!":
        neg = not neg
        c = c.c[0].strip_casts()
    if c is None or c.k != "BinaryOperator" or c.op not in ("<", "<=", ">", ">=", "=="):
        return None
    l, r, op = c.c[0], c.c[1], c.op
    if _var(r) is not None and l.cv is not None:
        l, r = r, l
        op = {"<": ">", "<=": ">=", ">": "<", ">=": "<=", "==": "=="}[op]
    d = _var(l)
    if d is None or r.cv is None:
        return None
    if truth == neg:
        if op == "==":
            return None
        op = {"<": ">=", "<=": ">", ">": "<=", ">=": "<"}[op]
    k = r.cv
    if op == "<":
        return d, k - 1
    if op in ("<=", "=="):
        return d, k
    return None


def upper_bounds(fn, entry=None):
    """{block id: {decl: upper bound}} at block entry (forward must-analysis, join = max, missing = unbounded)."""
    cfg = fn.cfg
    order = cfg.rpo()
    IN = {cfg.entry: dict(entry or {})}
    OUTE = {}       # (block, succ index) -> state
    for _ in range(40):
        changed = False
        for b in order:
            B = cfg.blocks[b]
            if b != cfg.entry:
                ins = [OUTE[(p, si)] for p in set(B.preds) for si, s in enumerate(cfg.blocks[p].succs) if s == b and (p, si) in OUTE]
                if not ins:
                    continue
                st = {}
                for d in set.intersection(*(set(x) for x in ins)):
                    st[d] = max(x[d] for x in ins)
                if IN.get(b) != st:
                    IN[b] = st
                    changed = True
            st = dict(IN.get(b, {}))
            for e in B.elems:
                _transfer(e, st)
            for si, s in enumerate(B.succs):
                if s is None:
                    continue
                st2 = dict(st)
                if B.cond is not None and B.tk != "SwitchStmt" and len(B.succs) == 2:
                    eb = _edge_bound(B.cond, si == 0)
                    if eb is not None:
                        d, k = eb
                        st2[d] = min(k, st2[d]) if d in st2 else k
                if OUTE.get((b, si)) != st2:
                    OUTE[(b, si)] = st2
                    changed = True
        if not changed:
            break
    return IN


def _transfer(e, st):
    if is_assign(e):
        d = _var(e.c[0])
        if d is not None:
            if e.op == "=" and e.c[1].cv is not None and e.c[1].cv >= 0:
                st[d] = e.c[1].cv
            elif e.op == "-=" and e.c[1].cv is not None and e.c[1].cv >= 0 and d in st and st[d] >= e.c[1].cv:
                st[d] -= e.c[1].cv          # no underflow: the guard that admitted the subtraction / the caller's contract
            else:
                st.pop(d, None)
    elif e.k == "UnaryOperator" and e.op in ("++", "--"):
        d = _var(e.c[0])
        if d is not None and e.op == "++":
            st.pop(d, None)
    elif e.k == "UnaryOperator" and e.op == "&":
        d = _var(e.c[0])
        if d is not None:
            st.pop(d, None)


def _state_at(fn, IN, node):
    w = fn.cfg.where()
    if node.i not in w:
        return None
    b, idx = w[node.i]
    if b not in IN:
        return None
    st = dict(IN[b])
    for e in fn.cfg.blocks[b].elems[:idx]:
        _transfer(e, st)
    return st


NARROW_MAX = {"uint8_t": 255, "unsigned char": 255, "uint16_t": 65535, "unsigned short": 65535, "_Bool": 1, "bool": 1}


def _maxval(e, st):
    """Inclusive upper bound of a non-negative integer expression, or None."""
    e = _unparen(e)
    if e is None:
        return None
    if e.cv is not None:
        return e.cv if e.cv >= 0 else None
    if e.k in ("ImplicitCastExpr", "CStyleCastExpr") and e.c:
        m = _maxval(e.c[0], st)
        nm = NARROW_MAX.get(_bt(e.t))
        if nm is not None:
            return nm if m is None else min(m, nm)
        return m
    if e.k == "DeclRefExpr":
        d = _var(e)
        m = st.get(d) if d is not None else None
        nm = NARROW_MAX.get(_bt(e.t))
        if nm is not None:
            return nm if m is None else min(m, nm)
        return m
    if NARROW_MAX.get(_bt(e.t)) is not None and e.k in ("ArraySubscriptExpr", "MemberExpr", "UnaryOperator"):
        return NARROW_MAX[_bt(e.t)]
    if e.k == "BinaryOperator":
        l, r = _maxval(e.c[0], st), _maxval(e.c[1], st)
        if e.op == "<<" and l is not None and e.c[1].cv is not None:
            return l << e.c[1].cv
        if e.op == ">>" and l is not None and e.c[1].cv is not None:
            return l >> e.c[1].cv
        if e.op == "&":
            c = [v for v in (l, r) if v is not None]
            return min(c) if c else None
        if e.op == "%" and e.c[1].cv:
            return e.c[1].cv - 1
        if l is None or r is None:
            return None
        if e.op in ("|", "^"):
            return (1 << max(l, r).bit_length()) - 1
        if e.op == "+":
            return l + r
        if e.op == "-":
            # no underflow: the caller's contract
            return l - e.c[1].cv if e.c[1].cv is not None and 0 <= e.c[1].cv <= l else l
        if e.op == "*":
            return l * r
    return None


def _low_zero_bits(e):
    e = _unparen(e)
    while e is not None and e.k in ("ImplicitCastExpr", "CStyleCastExpr") and e.c:
        e = _unparen(e.c[0])
    if e is None:
        return 0
    if e.cv is not None:
        v = e.cv
        if v <= 0:
            return 0
        n = 0
        while v & 1 == 0:
            v >>= 1
            n += 1
        return n
    if e.k == "BinaryOperator" and e.op == "<<" and e.c[1].cv is not None:
        return e.c[1].cv + _low_zero_bits(e.c[0])
    return 0


def _terms(e):
    e2 = _unparen(e)
    while e2 is not None and e2.k == "ImplicitCastExpr" and e2.c:
        e2 = _unparen(e2.c[0])
    if e2 is not None and e2.k == "BinaryOperator" and e2.op == "|":
        return _terms(e2.c[0]) + _terms(e2.c[1])
    return [e2]


def packed_stores(fn):
    """[(store/cast node, OR-tree)]: an OR of one or more terms, one of them a left shift of a non-constant,
    that is narrowed to 8 bits (explicit cast, or assignment to a byte lvalue)."""
    out = []
    seen = set()
    for n in fn.body.walk():
        tree = None
        if n.k == "CStyleCastExpr" and _bt(n.t) in U8 and n.c:
            tree = n.c[0]
        elif is_assign(n) and n.op == "=" and _bt(n.c[0].t) in U8:
            tree = n.c[1]
            t2 = _unparen(tree)
            while t2 is not None and t2.k == "ImplicitCastExpr" and t2.c:
                t2 = _unparen(t2.c[0])
            if t2 is not None and t2.k == "CStyleCastExpr":
                continue        # seen as the cast
        if tree is None:
            continue
        ts = _terms(tree)
        if not any(t is not None and t.k == "BinaryOperator" and t.op == "<<" and t.c[0].cv is None and t.c[1].cv is not None for t in ts):
            continue
        if n.i in seen:
            continue
        seen.add(n.i)
        out.append((n, tree))
    return out


def _param_bounds(P, fn):
    """Bounds of the parameters of a static function from its call sites (max over sites), {} when unknown."""
    if not fn.static:
        return {}
    sites = [(g, c) for g in P.funcs_in(P.rel(fn.file)) if g.cfg is not None for c in g.calls(fn.name)]
    if not sites:
        return {}
    refs = sum(1 for g in P.funcs_in(P.rel(fn.file)) for x in g.body.walk()
               if x.k == "DeclRefExpr" and x.name == fn.name and x.get("dk") not in ("local", "param"))
    if refs > len(sites):
        return {}
    per = []
    cache = {}
    for g, c in sites:
        if g.key() not in cache:
            cache[g.key()] = upper_bounds(g)
        st = _state_at(g, cache[g.key()], c)
        if st is None:
            return {}
        b = {}
        for p, a in zip(fn.params, c.args()):
            m = _maxval(a, st) if a is not None else None
            if m is not None:
                b[p["d"]] = m
        per.append(b)
    out = {}
    for d in set.intersection(*(set(x) for x in per)) if per else ():
        out[d] = max(x[d] for x in per)
    return out


def check(ctx, fns, rule="R25.field-fit", key_prefix="field-fit"):
    P = ctx.P
    n = ndec = 0
    for fn in sorted(fns, key=lambda f: (f.file, f.line)):
        if fn.body is None or fn.cfg is None:
            continue
        stores = packed_stores(fn)
        if not stores:
            continue
        IN = upper_bounds(fn, _param_bounds(P, fn))
        for idx, (node, tree) in enumerate(stores):
            n += 1
            st = _state_at(fn, IN, node)
            if st is None:
                continue
            ranges = []
            for t in _terms(tree):
                if t is None:
                    continue
                m = _maxval(t, st)
                if m is None:
                    continue
                if m == 0:
                    continue
                ranges.append((t, _low_zero_bits(t), m.bit_length() - 1, m))
            if not ranges:
                continue
            ndec += 1
            key = "%s|%s:%s|L%d" % (key_prefix, P.rel(fn.file), fn.name, idx)
            what = "the fields packed into the byte `%s` fit their slots for every value the guards admit" % src(tree)[:90]
            bad = None
            for t, lo, hi, m in ranges:
                if hi > 7:
                    bad = "field `%s` reaches %#x under the guards on the path (%s): it does not fit below bit 8" % (
                        src(t)[:50], m, _guards_text(fn, st, t))
                    break
            if bad is None:
                for i in range(len(ranges)):
                    for j in range(i + 1, len(ranges)):
                        a, b = ranges[i], ranges[j]
                        if a[0].cv is not None and b[0].cv is not None:
                            continue
                        if a[1] <= b[2] and b[1] <= a[2]:
                            bad = "fields `%s` (bits %d..%d, up to %#x) and `%s` (bits %d..%d) overlap (%s)" % (
                                src(a[0])[:40], a[1], a[2], a[3], src(b[0])[:40], b[1], b[2], _guards_text(fn, st, a[0]) or _guards_text(fn, st, b[0]))
                            break
                    if bad:
                        break
            if bad:
                ctx.bad(rule, key, P.where(node), what, bad)
            else:
                ctx.ok(rule, key, P.where(node), what, "; ".join("%s: bits %d..%d" % (src(t)[:30], lo, hi) for t, lo, hi, m in ranges))
    return n, ndec


def _guards_text(fn, st, t):
    out = []
    for x in t.walk():
        d = _var(x) if x.k == "DeclRefExpr" else None
        if d is not None and d in st and ("%s <= %d" % (x.name, st[d])) not in out:
            out.append("%s <= %d" % (x.name, st[d]))
    return ", ".join(out)
