"""R13: index spaces. The reader juggles four integer index spaces that all look like `int32_t`:
PROJ (position in a projection / batch), LEAF (column of the file = leaf of the schema), ELEM
(schema element) and RG (row group). Arrays belong to one space (resolved by record + member),
index values get their space from where they come from: loaded from a translating array
(projected_columns[] yields LEAF, leaf_indices[] yields ELEM), a loop bounded by a count member of
one space, a parameter range-checked against such a count, or a lookup function. A subscript whose
index space is known and differs from the array's space reads another column's entry."""
from ..facts import src
from ..util import is_assign

ARRAY_SPACE = {
    ("carquet_schema", "leaf_indices"): "LEAF", ("carquet_schema", "max_def_levels"): "LEAF",
    ("carquet_schema", "max_rep_levels"): "LEAF", ("parquet_row_group", "columns"): "LEAF",
    ("carquet_schema", "elements"): "ELEM", ("parquet_file_metadata", "schema"): "ELEM",
    ("schema_traverse_ctx_t", "elements"): "ELEM",
    ("carquet_batch_reader", "col_readers"): "PROJ", ("carquet_batch_reader", "projected_columns"): "PROJ",
    ("carquet_row_batch", "columns"): "PROJ", ("carquet_batch_reader_config", "column_names"): "PROJ",
    ("carquet_batch_reader_config", "column_indices"): "PROJ",
    ("parquet_file_metadata", "row_groups"): "RG",
}
# what a load from the array yields (translation tables)
YIELDS = {("carquet_batch_reader", "projected_columns"): "LEAF", ("carquet_batch_reader_config", "column_indices"): "LEAF",
          ("carquet_schema", "leaf_indices"): "ELEM", ("schema_traverse_ctx_t", "leaf_indices"): "ELEM"}
COUNT_SPACE = {
    ("carquet_batch_reader", "num_projected"): "PROJ", ("carquet_row_batch", "num_columns"): "PROJ",
    ("carquet_batch_reader_config", "num_columns"): "PROJ", ("carquet_batch_reader_config", "num_column_names"): "PROJ",
    ("carquet_schema", "num_leaves"): "LEAF", ("parquet_row_group", "num_columns"): "LEAF",
    ("carquet_schema", "num_elements"): "ELEM", ("parquet_file_metadata", "num_schema_elements"): "ELEM",
    ("parquet_file_metadata", "num_row_groups"): "RG",
}
FUNC_SPACE = {"carquet_schema_find_column": "LEAF", "carquet_reader_num_columns": "LEAF#count",
              "carquet_schema_num_columns": "LEAF#count", "carquet_reader_num_row_groups": "RG#count"}


_P = None        # the program being checked (set by check): callee lookups for arguments handed on


def _member_key(x):
    x = x.strip_casts()
    if x.k == "MemberExpr":
        return (x.get("rec"), x.name)
    return None


def _expr_space(fn, e, depth=0):
    """space of the *value* of integer expression e, or None"""
    x = e.strip_casts()
    if x.cv is not None:
        return None
    if x.k == "ArraySubscriptExpr":
        k = _member_key(x.c[0])
        return YIELDS.get(k)
    if x.k == "CallExpr" and x.callee in FUNC_SPACE and "#" not in FUNC_SPACE[x.callee]:
        return FUNC_SPACE[x.callee]
    if x.k == "DeclRefExpr" and x.get("dk") in ("local", "param") and depth < 3:
        return _var_space(fn, x.get("d"), x.get("dk"), depth + 1)
    if x.k == "BinaryOperator" and x.op in ("+", "-") and depth < 3:
        # an index moved by a constant is still an index of the same space (element + 1 is the first child;
        # leaf + 1 is the next leaf - it is not "the element after the root" unless the schema is flat)
        l, r = x.c[0].strip_casts(), x.c[1].strip_casts()
        if r.cv is not None and l.cv is None:
            return _expr_space(fn, l, depth + 1)
        if l.cv is not None and r.cv is None and x.op == "+":
            return _expr_space(fn, r, depth + 1)
    return None


def _count_space(fn, e, depth=0):
    """space counted by bound expression e (a count member, a count function, a local holding one)"""
    x = e.strip_casts()
    k = _member_key(x)
    if k in COUNT_SPACE:
        return COUNT_SPACE[k]
    if x.k == "CallExpr" and x.callee in FUNC_SPACE and FUNC_SPACE[x.callee].endswith("#count"):
        return FUNC_SPACE[x.callee].split("#")[0]
    if x.k == "DeclRefExpr" and x.get("dk") == "local" and depth < 2:
        sp = set()
        for d_ in _defs(fn, x.get("d")):
            s = _count_space(fn, d_, depth + 1)
            sp.add(s)
        # the same local also becomes the count of another space (identity mapping): ambiguous
        for n in fn.body.walk():
            if is_assign(n) and n.op == "=":
                r = n.c[1].strip_casts()
                if r.k == "DeclRefExpr" and r.get("d") == x.get("d") and _member_key(n.c[0].strip()) in COUNT_SPACE:
                    sp.add(COUNT_SPACE[_member_key(n.c[0].strip())])
        if len(sp) == 1:
            return sp.pop()
    return None


# which count member says how many entries an array has (frozen, like the spaces)
ARRAY_COUNT = {
    ("carquet_schema", "leaf_indices"): ("carquet_schema", "num_leaves"),
    ("carquet_schema", "max_def_levels"): ("carquet_schema", "num_leaves"),
    ("carquet_schema", "max_rep_levels"): ("carquet_schema", "num_leaves"),
    ("carquet_schema", "elements"): ("carquet_schema", "num_elements"),
    ("parquet_row_group", "columns"): ("parquet_row_group", "num_columns"),
    ("parquet_file_metadata", "row_groups"): ("parquet_file_metadata", "num_row_groups"),
    ("parquet_file_metadata", "schema"): ("parquet_file_metadata", "num_schema_elements"),
    ("carquet_batch_reader", "col_readers"): ("carquet_batch_reader", "num_projected"),
    ("carquet_batch_reader", "projected_columns"): ("carquet_batch_reader", "num_projected"),
}


def _var_counts(fn, d, dk, depth=0):
    """The count members an index variable was compared against as an upper bound (`v < C`, `v >= C -> ...`), here or in
    a callee it was handed to."""
    out = set()
    for n in fn.body.walk():
        if n.k == "BinaryOperator" and n.op in ("<", ">="):
            l, r = n.c[0].strip_casts(), n.c[1].strip_casts()
            if l.k == "DeclRefExpr" and l.get("d") == d and l.get("dk") == dk:
                k = _member_key(r)
                if k not in COUNT_SPACE and r.k == "DeclRefExpr" and r.get("dk") == "local":
                    # the bound cached in a local (`const int32_t leaf_bound = schema->num_leaves;`)
                    ds = _defs(fn, r.get("d"))
                    ks = set(_member_key(x.strip_casts()) for x in ds)
                    if len(ds) >= 1 and len(ks) == 1:
                        k = next(iter(ks))
                if k in COUNT_SPACE:
                    out.add(k)
    if _P is not None and depth < 3:
        for c in fn.calls():
            for ai, a in enumerate(c.args()):
                x = a.strip_casts() if a is not None else None
                if x is None or x.k != "DeclRefExpr" or x.get("d") != d or x.get("dk") != dk:
                    continue
                for g in _P.by_name.get(c.callee or "", []):
                    if g.cfg is None or g.key() == fn.key() or ai >= len(g.params):
                        continue
                    out |= _var_counts(g, g.params[ai]["d"], "param", depth + 1)
    return out


def check_counts(ctx, fns, rule="R13.index-count", key_prefix="index-count"):
    """A subscript whose index was range-checked: the check must be against the count of *that* array. Two arrays of
    the same index space can have different lengths in a malformed file (a row group with more chunks than the
    schema has leaves), so a bound by the other array's count admits indices past the end of this one."""
    global _P
    P = _P = ctx.P
    n = 0
    for fn in fns:
        seen = {}
        for a in fn.body.walk():
            if a.k != "ArraySubscriptExpr":
                continue
            k = _member_key(a.c[0])
            if k not in ARRAY_COUNT:
                continue
            idx = a.c[1].strip_casts()
            if idx.k != "DeclRefExpr" or idx.get("dk") not in ("local", "param"):
                continue
            counts = _var_counts(fn, idx.get("d"), idx.get("dk"))
            if not counts:
                continue
            n += 1
            key0 = "%s|%s:%s|%s[%s]" % (key_prefix, P.rel(fn.file), fn.name, k[1], src(idx)[:24])
            seen[key0] = seen.get(key0, 0) + 1
            key = key0 + ("#%d" % (seen[key0] - 1) if seen[key0] > 1 else "")
            own = ARRAY_COUNT[k]
            ctx.ob(rule, key, P.where(a),
                   "the range check on `%s` is against %s.%s, the entry count of %s.%s" % (src(idx), own[0], own[1], k[0], k[1]),
                   own in counts,
                   "" if own in counts else "`%s` is only compared with %s: a file in which that exceeds %s.%s indexes past the end of %s" % (
                       src(idx), ", ".join("%s.%s" % c for c in sorted(counts)), own[0], own[1], k[1]))
    return n


def _defs(fn, d):
    out = []
    for n in fn.body.walk():
        if n.k == "DeclStmt":
            for dd, init in zip(n.get("decls", []), n.c):
                if dd.get("d") == d and init is not None:
                    out.append(init)
        elif is_assign(n) and n.op == "=":
            t = n.c[0].strip()
            if t.k == "DeclRefExpr" and t.get("d") == d:
                out.append(n.c[1])
    return out


def _var_space(fn, d, dk, depth=0):
    spaces = set()
    # loops / range checks `v < B`, `v >= B`
    for n in fn.body.walk():
        if n.k == "BinaryOperator" and n.op in ("<", ">=", "<=", ">"):
            l, r = n.c[0].strip_casts(), n.c[1].strip_casts()
            if l.k == "DeclRefExpr" and l.get("d") == d and l.get("dk") == dk and n.op in ("<", ">="):
                s = _count_space(fn, r)
                if s:
                    spaces.add(s)
    # handed on as an argument: the callee's own range check / use tells which space it expects
    if _P is not None and depth < 4:
        for c in fn.calls():
            for ai, a in enumerate(c.args()):
                x = a.strip_casts() if a is not None else None
                if x is None or x.k != "DeclRefExpr" or x.get("d") != d or x.get("dk") != dk:
                    continue
                for g in _P.by_name.get(c.callee or "", []):
                    if g.cfg is None or g.key() == fn.key() or ai >= len(g.params):
                        continue
                    s = _var_space(g, g.params[ai]["d"], "param", depth + 1)
                    if s:
                        spaces.add(s)
    if dk == "local":
        for e in _defs(fn, d):
            if e.cv is not None:
                continue
            s = _expr_space(fn, e, depth)
            if s:
                spaces.add(s)
    if len(spaces) == 1:
        return next(iter(spaces))
    return None


def check(ctx, fns, rule="R13.index-space", key_prefix="index-space"):
    global _P
    P = _P = ctx.P
    n = classified = 0
    for fn in fns:
        seen = {}
        for a in fn.body.walk():
            if a.k != "ArraySubscriptExpr":
                continue
            k = _member_key(a.c[0])
            if k not in ARRAY_SPACE:
                continue
            n += 1
            idx = a.c[1].strip_casts()
            sp = _expr_space(fn, idx)
            if sp is None:
                continue
            classified += 1
            key0 = "%s|%s:%s|%s[%s]" % (key_prefix, P.rel(fn.file), fn.name, k[1], src(idx)[:24])
            seen[key0] = seen.get(key0, 0) + 1
            key = key0 + ("#%d" % (seen[key0] - 1) if seen[key0] > 1 else "")
            ctx.ob(rule, key, P.where(a),
                   "%s.%s is indexed in its own space (%s)" % (k[0], k[1], ARRAY_SPACE[k]), sp == ARRAY_SPACE[k],
                   "index `%s` is a %s index" % (src(idx)[:30], sp))
    return n, classified
