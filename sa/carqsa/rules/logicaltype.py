"""The LogicalType union: which union field carries which logical type id, on both sides.

parquet.thrift's LogicalType is a union whose field ids are 1 STRING, 2 MAP, 3 LIST, 4 ENUM, 5 DECIMAL,
6 DATE, 7 TIME, 8 TIMESTAMP, 10 INTEGER, 11 UNKNOWN (carquet: NULL), 12 JSON, 13 BSON, 14 UUID,
15 FLOAT16 (9 is reserved). carquet's own enum numbers the types 1..14 without the gap, so the two
numberings agree up to 8 and differ above. The parser and the writer are executed abstractly once per
field id / per enum value with the Thrift primitives hooked; the tables they implement must be the
specification's, and each other's inverse."""
from . import sem
from .skeleton import Ptr, U

PT = "src/thrift/parquet_types.c"
SPEC = {1: "STRING", 2: "MAP", 3: "LIST", 4: "ENUM", 5: "DECIMAL", 6: "DATE", 7: "TIME", 8: "TIMESTAMP",
        10: "INTEGER", 11: "NULL", 12: "JSON", 13: "BSON", 14: "UUID", 15: "FLOAT16"}


def parse_table(P):
    """{union field id: logical type id stored by parse_logical_type}"""
    fn = P.fn("parse_logical_type", PT)
    lo = sem.field_offsets(P, "carquet_logical_type")
    out = {}
    for k in range(1, 18):
        st = [0]

        def fbegin(ev, a, it, k=k):
            st[0] += 1
            if st[0] == 1:
                sem.set_out(it, a[1], 12)
                sem.set_out(it, a[2], k)
                return 1
            return 0
        hooks = {"thrift_read_field_begin": fbegin, "thrift_read_struct_begin": lambda ev, a, it: None,
                 "thrift_read_struct_end": lambda ev, a, it: None, "thrift_skip": lambda ev, a, it: ev.append(("skip", a[1])),
                 "thrift_read_i32": lambda ev, a, it: 0, "thrift_read_i64": lambda ev, a, it: 0,
                 "thrift_read_bool": lambda ev, a, it: 0, "thrift_read_byte": lambda ev, a, it: 0,
                 "thrift_read_i16": lambda ev, a, it: 0, "thrift_decoder_has_error": lambda ev, a, it: 0}
        ret, ev, heap = sem.run(P, fn, [Ptr("dec", 0, 1), Ptr("lt", 0, 1)], heap0={("lt", lo["id"]): 0}, hooks=hooks,
                                single=True, max_forks=64)
        out[k] = heap.get(("lt", lo["id"]))
    return out


def write_table(P, ids):
    """{logical type id: union field id written first by write_logical_type} (None: nothing written)"""
    fn = P.fn("write_logical_type", PT)
    lo = sem.field_offsets(P, "carquet_logical_type")
    out = {}
    for name, v in sorted(ids.items(), key=lambda kv: kv[1]):
        hooks = {"thrift_write_field_header": lambda ev, a, it: ev.append(("field", a[1], a[2])),
                 "thrift_write_struct_begin": lambda ev, a, it: ev.append(("begin",)),
                 "thrift_write_struct_end": lambda ev, a, it: ev.append(("end",)),
                 "thrift_write_i32": lambda ev, a, it: None, "thrift_write_i64": lambda ev, a, it: None,
                 "thrift_write_bool": lambda ev, a, it: None, "thrift_write_byte": lambda ev, a, it: None,
                 "thrift_write_i16": lambda ev, a, it: None}
        heap0 = {("lt", lo["id"]): v}
        for off in range(lo["id"] + 4, lo["id"] + 40, 4):
            heap0.setdefault(("lt", off), 0)
        paths = sem.run(P, fn, [Ptr("enc", 0, 1), Ptr("lt", 0, 1)], heap0=heap0, hooks=hooks, single=False, max_forks=64)
        firsts = set()
        for ret, ev, heap in paths:
            depth = 0
            first = None
            for e in ev:
                if e[0] == "begin":
                    depth += 1
                elif e[0] == "end":
                    depth -= 1
                elif e[0] == "field" and depth == 1 and first is None:
                    first = e[2]
            firsts.add(first)
        out[name] = firsts
    return out


def check(ctx, rule="R5.spec", key_prefix="logical-type"):
    P = ctx.P
    ids = P.enum("carquet_logical_type_id")
    n = 0
    try:
        pt = parse_table(P)
        wt = write_table(P, ids)
    except (sem.Inconclusive, KeyError) as ex:
        ctx.inconclusive(rule, "%s|%s" % (key_prefix, PT), PT, "abstract execution of parse_logical_type / write_logical_type",
                         "%s: %s" % (type(ex).__name__, ex))
        return 0
    pf = P.fn("parse_logical_type", PT)
    wf = P.fn("write_logical_type", PT)
    for k in range(1, 18):
        want = ids.get("CARQUET_LOGICAL_" + SPEC[k]) if k in SPEC else 0
        n += 1
        ctx.ob(rule, "%s|%s:parse_logical_type|field %d" % (key_prefix, PT, k), P.where(pf.body),
               "LogicalType union field %d is read as %s" % (k, "CARQUET_LOGICAL_" + SPEC[k] if k in SPEC else "no logical type (reserved / unknown field)"),
               pt[k] == want, "parser stores id %s, expected %s" % (pt[k], want))
    inv = {v: k for k, v in SPEC.items()}
    for name, v in sorted(ids.items(), key=lambda kv: kv[1]):
        short = name.replace("CARQUET_LOGICAL_", "")
        want = {inv[short]} if short in inv else {None}
        n += 1
        ctx.ob(rule, "%s|%s:write_logical_type|%s" % (key_prefix, PT, name), P.where(wf.body),
               "%s is written as LogicalType union field %s" % (name, sorted(want, key=str)[0]),
               wt[name] == want, "writer emits field %s" % sorted(wt[name], key=str))
    return n


def _param_offsets(P):
    """{(member, field): byte offset in carquet_logical_type} for the parameter structs of the union."""
    import re
    rec = P.records["carquet_logical_type"]
    pf = [f for f in rec["fields"] if f["n"] == "params"][0]

    def anon(t):
        m = re.search(r"\((?:unnamed|anonymous)[^)]*? at (.+?):(\d+):\d+\)", t or "")
        for _u, r in P.records_all:
            if m and r.get("file") == m.group(1) and r.get("line") == int(m.group(2)):
                return r
        return None
    un = anon(pf["t"])
    out = {}
    for mem in (un["fields"] if un else []):
        st = anon(mem["t"])
        for f in (st["fields"] if st else []):
            out[(mem["n"], f["n"])] = pf["off"] // 8 + mem["off"] // 8 + f["off"] // 8
    return out


def params_roundtrip(ctx, rule="R5.roundtrip", key_prefix="logical-params"):
    """write_logical_type then parse_logical_type for every parameterised member and every parameter combination of a
    small grid: the id and the parameters that went in come back (encoder and decoder primitives hooked; the
    decoder replays exactly what the writer emitted). Returns (scenarios, all decided and intact)."""
    from . import thriftrt
    P = ctx.P
    ids = P.enum("carquet_logical_type_id")
    lo = sem.field_offsets(P, "carquet_logical_type")
    po = _param_offsets(P)
    units = sorted(P.enum("carquet_time_unit").values()) if "carquet_time_unit" in P.enums else [0, 1, 2]
    grid = []
    for nm, mem in (("TIME", "time"), ("TIMESTAMP", "timestamp")):
        if ("CARQUET_LOGICAL_" + nm) in ids and (mem, "unit") in po:
            for utc in (0, 1):
                for u in units:
                    grid.append((nm, {(mem, "is_adjusted_to_utc"): utc, (mem, "unit"): u}))
    if "CARQUET_LOGICAL_DECIMAL" in ids and ("decimal", "precision") in po:
        for pr, sc in ((9, 2), (38, 0), (5, 5)):
            grid.append(("DECIMAL", {("decimal", "precision"): pr, ("decimal", "scale"): sc}))
    if "CARQUET_LOGICAL_INTEGER" in ids and ("integer", "bit_width") in po:
        for bw in (8, 16, 32, 64):
            for sg in (0, 1):
                grid.append(("INTEGER", {("integer", "bit_width"): bw, ("integer", "is_signed"): sg}))
    n = 0
    allok = True
    wf = P.fn("write_logical_type", PT)
    for nm, params in grid:
        key = "%s|%s:write_logical_type|%s|%s" % (key_prefix, PT, nm, ",".join("%s=%s" % (k[1], v) for k, v in sorted(params.items())))
        what = "LogicalType %s with %s written by write_logical_type comes back from parse_logical_type with the same id and parameters" % (
            nm, ", ".join("%s=%s" % (k[1], v) for k, v in sorted(params.items())))
        heap0 = {("obj", o): 0 for o in range(0, P.records["carquet_logical_type"]["size"], 4)}
        heap0[("obj", lo["id"])] = ids["CARQUET_LOGICAL_" + nm]
        for k, v in params.items():
            heap0[("obj", po[k])] = v
        try:
            ret, ev = thriftrt.writer_events(P, "write_logical_type", heap0, "obj", args=[Ptr("enc", 0, 1), Ptr("obj", 0, 1)])
            tree = thriftrt.build_tree(ev)
            ret2, ev2, heap, copies, rp = thriftrt.parse_with_replay(P, "parse_logical_type", tree, lambda: [Ptr("dec", 0, 1), Ptr("out", 0, 1)], "out")
        except (sem.Inconclusive, ValueError, KeyError, AssertionError, IndexError) as ex:
            ctx.inconclusive(rule, key, P.where(wf.body), what, "%s: %s" % (type(ex).__name__, ex))
            allok = False
            continue
        n += 1
        got_id = heap.get(("out", lo["id"]))
        diffs = []
        if got_id != ids["CARQUET_LOGICAL_" + nm]:
            diffs.append("id %s (wrote %s)" % (got_id, ids["CARQUET_LOGICAL_" + nm]))
        for k, v in sorted(params.items()):
            g = heap.get(("out", po[k]))
            if isinstance(g, int) and isinstance(v, int):
                # a bool / int8 member is compared as stored
                if (g & 0xFF) != (v & 0xFF) if k[1] in ("is_adjusted_to_utc", "is_signed", "bit_width") else g != v:
                    diffs.append("%s.%s reads back %s" % (k[0], k[1], g))
            else:
                diffs.append("%s.%s reads back %r" % (k[0], k[1], g))
        desync = [e for e in ev2 if e and e[0] in ("desync", "unread-fields")]
        if desync:
            diffs.append("parser out of step with the writer: %s" % (desync[:2],))
        if diffs:
            allok = False
        ctx.ob(rule, key, P.where(wf.body), what, not diffs, "; ".join(diffs))
    return n, allok
