"""R15: min/max polarity. Statistics travel as parallel (min_*, max_*) fields through five layers
(builder, Thrift struct, reader view, page index, predicate evaluation). A statement that stores
into a `max` slot reads only `max` sources, and a (pointer, size) argument pair names one bound.
Polarity is taken from the resolved declaration names (struct members, locals, parameters) split
into `_` tokens, not from source text."""
from ..facts import src
from ..util import is_assign


def pol(name):
    if not name:
        return None
    toks = name.lower().split("_")
    has_min = "min" in toks or any(t.startswith("min") and t[3:].isdigit() for t in toks)
    has_max = "max" in toks or any(t.startswith("max") and t[3:].isdigit() for t in toks)
    if has_min and not has_max:
        return "min"
    if has_max and not has_min:
        return "max"
    return None


def _name(x):
    x = x.strip_casts()
    while x.k in ("ArraySubscriptExpr",) or (x.k == "UnaryOperator" and x.op in ("&", "*")):
        x = x.c[0].strip_casts()
    if x.k == "MemberExpr":
        return x.name
    if x.k == "DeclRefExpr" and x.get("dk") in ("local", "param"):
        return x.name
    return None


def _polar_refs(e, skip=None):
    out = []
    in_sizeof = set()
    for x in e.walk():
        if x.k == "UnaryExprOrTypeTraitExpr":
            in_sizeof |= set(id(y) for y in x.walk())      # sizeof(min_value) is a capacity, not a bound
    for x in e.walk():
        if x is skip or id(x) in in_sizeof:
            continue
        if x.k == "MemberExpr" or (x.k == "DeclRefExpr" and x.get("dk") in ("local", "param")):
            p = pol(x.name)
            if p:
                out.append((x.name, p))
    return out


# names that carry "max"/"min" for a reason unrelated to statistics bounds
NEUTRAL = ("max_def", "max_rep", "max_level", "max_indices", "max_size", "max_len", "max_depth", "min_len", "max_values",
           "max_run", "min_size", "max_offset", "min_match", "max_bits", "max_value_count")


def check(ctx, fns, rule="R15.polarity", key_prefix="polarity"):
    P = ctx.P
    n = 0
    for fn in fns:
        seen = {}
        for s in fn.body.walk():
            lhs = None
            rhs = None
            if is_assign(s) and s.op == "=":
                lhs, rhs = _name(s.c[0]), s.c[1]
            elif s.k == "DeclStmt":
                for d, init in zip(s.get("decls", []), s.c):
                    if init is not None and pol(d.get("n")):
                        _one(ctx, P, fn, s, d["n"], init, rule, key_prefix, seen)
                        n += 1
                continue
            elif s.k == "CallExpr" and s.callee:
                args = s.args()
                for a, b in zip(args, args[1:]):
                    na, nb = _name(a), _name(b)
                    if na and nb and pol(na) and pol(nb) and any(t in nb.lower() for t in ("size", "len")) \
                            and not any(t in na.lower() for t in ("size", "len")):
                        n += 1
                        key = _key(P, fn, key_prefix, "%s(%s,%s)" % (s.callee, na, nb), seen)
                        ctx.ob(rule, key, P.where(s),
                               "argument pair (%s, %s) of %s names one bound" % (na, nb, s.callee), pol(na) == pol(nb))
                continue
            if lhs is None or not pol(lhs) or any(lhs.lower().startswith(t) for t in NEUTRAL):
                continue
            _one(ctx, P, fn, s, lhs, rhs, rule, key_prefix, seen)
            n += 1
    return n


def _key(P, fn, key_prefix, what, seen):
    k = "%s|%s:%s|%s" % (key_prefix, P.rel(fn.file), fn.name, what)
    seen[k] = seen.get(k, 0) + 1
    return k + ("#%d" % (seen[k] - 1) if seen[k] > 1 else "")


def _one(ctx, P, fn, stmt, lhs, rhs, rule, key_prefix, seen):
    p = pol(lhs)
    refs = [(nm, q) for nm, q in _polar_refs(rhs) if not any(nm.lower().startswith(t) for t in NEUTRAL)]
    wrong = sorted(set(nm for nm, q in refs if q != p))
    key = _key(P, fn, key_prefix, lhs, seen)
    ctx.ob(rule, key, P.where(stmt), "`%s` (a %s slot) is computed from %s sources only" % (lhs, p, p),
           not wrong, "reads %s" % wrong if wrong else "", nontrivial=bool(refs))
