"""R27: a member that is freed while its object lives on does not keep the freed pointer.

Instance: `free(X->f)` / `close(X->f)` / `fclose(X->f)` / `munmap(X->f, ..)` (any member path rooted in a
pointer parameter or local X) outside the destructor, for a member f that the destructor of the object (a
function that releases X->f the same way and frees X) releases. A path on which X itself is freed or handed to a
destructor is not an instance. Rule: on every path from the free to the function's exit the member is assigned again
(NULL or a new block). When the function is a static helper, a caller that assigns the member after
every call of the helper discharges it as well. A violation additionally needs the second release to
exist: that is the destructor. Members of objects without a heap destructor (stack objects torn down by a
`destroy(&obj)` helper) are outside the rule."""
from ..facts import src
from ..util import is_assign
from .flow import reaches_exit_avoiding, describe_path


def _root(a):
    r = a
    while r is not None and r.k in ("MemberExpr", "ArraySubscriptExpr"):
        r = r.c[0].strip_casts() if r.c else None
    return r


def _member_key(a):
    return (a.get("rec"), a.name) if a.k == "MemberExpr" else None


RELEASE = ("free", "close", "fclose", "munmap")


def _param_freers(P):
    """Names of library functions that release their first parameter (destroy/free helpers), from the
    ownership summaries."""
    from .ownership import frees_param_summaries
    return set(n for n, idx in frees_param_summaries(P).items() if 0 in idx)


def _alias_def(fn, x, at):
    """The one definition of local x that is in force at node `at`: every other definition comes later in the
    function and `at` is not inside a loop (so none of them can flow back). None when that cannot be said."""
    from ..canon import info
    if x is None or x.k != "DeclRefExpr" or x.get("dk") != "local":
        return None
    li = info(fn)
    d = x.get("d")
    if d in li.modified:
        return None
    before = [e for e in li.defs.get(d, []) if e.i < at.i]
    if len(before) != 1 or any(a.k in ("WhileStmt", "ForStmt", "DoStmt") for a in at.ancestors()):
        return None
    if not fn.cfg.node_dominates(before[0], at):
        return None
    return before[0]


def _alias_of(fn, x, at):
    """The member expression a local stands for at `at`: `T *p = X->f;` is the definition in force there."""
    d0 = _alias_def(fn, x, at)
    d0 = d0.strip_casts() if d0 is not None else None
    return d0 if d0 is not None and d0.k == "MemberExpr" else None


def _may_keep(P, fn, alias_def, call, member):
    """Between `p = X->f` and the release of p, can X->f still hold p?  False when a function of the file called in
    between stores the member on every path to its return; True when nothing in between stores it or such a
    function has a return path without the store."""
    rec, name = member
    lo, hi = alias_def.i, call.i
    for c in fn.calls():
        if not (lo < c.i < hi) or not c.callee:
            continue
        for g in P.by_name.get(c.callee, []):
            if g.cfg is None or g.file != fn.file:
                continue
            stores = lambda e: is_assign(e) and e.op == "=" and e.c[0].strip().k == "MemberExpr" and \
                e.c[0].strip().name == name and e.c[0].strip().get("rec") == rec
            if not any(stores(e) for e in g.body.walk()):
                continue
            if reaches_exit_avoiding(g.cfg, stores, None, (g.cfg.entry, 0)) is None:
                return False        # replaced on every path: the local is the only holder left
    return True


def free_sites(P, fns, releasers=()):
    """[(fn, call, member expr, root DeclRefExpr)] for free / close / fclose / munmap (or a named releaser) of a
    member path rooted in a pointer parameter or pointer local - given directly or through a local that caches it."""
    out = []
    for fn in fns:
        if fn.body is None or fn.cfg is None:
            continue
        for c in fn.calls(*(RELEASE + tuple(releasers))):
            if not c.args():
                continue
            a = c.args()[0].strip_casts()
            if a is not None and a.k == "DeclRefExpr" and c.callee in releasers:
                m = _alias_of(fn, a, c)
                if m is not None:
                    d0 = _alias_def(fn, a, c)
                    if not _may_keep(P, fn, d0, c, _member_key(m)):
                        continue
                    a = m
            if a is None or a.k != "MemberExpr":
                continue
            r = _root(a)
            if r is None or r.k != "DeclRefExpr" or r.get("dk") not in ("param", "local") or "*" not in (r.t or ""):
                continue
            out.append((fn, c, a, r))
    return out


def _releases_root(P, fn, r):
    """fn frees the object X itself (it is X's destructor, or hands X to one)."""
    for c in fn.calls():
        if not c.callee:
            continue
        for a in c.args():
            x = a.strip_casts() if a is not None else None
            if x is not None and x.k == "DeclRefExpr" and x.get("d") == r.get("d"):
                if c.callee == "free":
                    return True
    return False


def _unassigned_exit(fn, call, text, root=None, destructors=()):
    def reassigned(e):
        if is_assign(e) and e.op == "=" and src(e.c[0].strip()) == text:
            return True
        # the object itself is released on this path: nothing keeps the stale member
        if root is not None and e.k == "CallExpr" and (e.callee == "free" or e.callee in destructors) and e.args():
            x = e.args()[0].strip_casts()
            return x is not None and x.k == "DeclRefExpr" and x.get("d") == root.get("d")
        return False
    w = fn.cfg.where()
    if call.i not in w:
        return None
    b, idx = w[call.i]
    return reaches_exit_avoiding(fn.cfg, reassigned, None, (b, idx + 1))


def check(ctx, fns, rule="R27.stale-member", key_prefix="stale-member"):
    P = ctx.P
    # who frees which member anywhere in the library (directly, or by handing it to a function that frees its parameter)
    freers = _param_freers(P)
    lib = [f for f in P.functions.values() if P.rel(f.file).startswith("src/")]
    freed_by = {}       # (member, release function) -> destructors (functions that release the member and the object itself)
    for fn, c, a, r in free_sites(P, lib, tuple(freers)):
        if _releases_root(P, fn, r) and r.get("dk") == "param" and src(a.c[0].strip_casts()) == r.name:
            freed_by.setdefault(_member_key(a) + (c.callee,), set()).add(fn.name)
    member_releasers = tuple(sorted(set(k[2] for k in freed_by if k[2] not in RELEASE)))
    sites = free_sites(P, fns, member_releasers)
    alldestr = set(x for v in freed_by.values() for x in v)
    n = 0
    per = {}
    for fn, c, a, r in sites:
        if not freed_by.get(_member_key(a) + (c.callee,)) or fn.name in freed_by.get(_member_key(a) + (c.callee,)):
            continue        # the destructor itself, or a member no destructor of a heap object releases
        n += 1
        text = src(a)
        idx = per[(fn.key(), text)] = per.get((fn.key(), text), -1) + 1
        key = "%s|%s:%s|%s#%d" % (key_prefix, P.rel(fn.file), fn.name, text, idx)
        what = "after %s(%s) in %s the member is assigned again before the function returns (the object lives on)" % (c.callee, text, fn.name)
        path = _unassigned_exit(fn, c, text, r, alldestr)
        if path is None:
            ctx.ok(rule, key, P.where(c), what)
            continue
        # a static helper whose every caller resets the member right after the call
        if fn.static:
            pidx = [i for i, p in enumerate(fn.params) if p["d"] == r.get("d")]
            callers = [(g, cc) for g in P.funcs_in(P.rel(fn.file)) if g.cfg is not None for cc in g.calls(fn.name)]
            if pidx and callers:
                allok = True
                for g, cc in callers:
                    argt = src(cc.args()[pidx[0]].strip_casts()) if pidx[0] < len(cc.args()) else None
                    if argt is None:
                        allok = False
                        break
                    t2 = text.replace(r.name + "->", argt + "->", 1) if text.startswith(r.name + "->") else None
                    if t2 is None or _unassigned_exit(g, cc, t2) is not None:
                        allok = False
                        break
                if allok:
                    ctx.ok(rule, key, P.where(c), what, "every caller assigns the member after the call")
                    continue
        again = sorted(freed_by.get(_member_key(a) + (c.callee,), set()))
        how = "path to the exit without a store to %s: %s" % (text, describe_path(fn, fn.cfg, path))
        if again:
            ctx.bad(rule, key, P.where(c), what, how + "; the member is released again by %s" % ", ".join(again[:4]),
                    witness={"blocks": list(path)[-40:]})
        else:
            ctx.inconclusive(rule, key, P.where(c), what, how)
    return n
