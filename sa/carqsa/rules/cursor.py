"""R4: cursor-bounds dataflow for hand-written decoders (a small zone-style abstract domain).

For every (cursor, limit) pair of a function - pointer style (ip, iend), index style (pos, size),
member style (dec->pos, dec->size) - a forward dataflow over clang's CFG computes lower bounds on
the bytes still available, avail = limit - cursor, as facts `avail >= k + T` with k a constant
and T absent or a side-effect-free term compared structurally.
  * branch edges add facts (`ip < iend` true: >= 1; `ip + n > iend` false: >= n;
    `has_bytes(dec, n)` true: >= n; `T >= c` true for a fact term T: constant fact k + c),
  * advances consume them (`*ip++`, `ip += n`, `pos += n`),
  * a term variable that moves in lock-step keeps its fact (`n -= 8` after `op += 8`),
  * other assignments to variables of a term kill the facts that mention it,
  * `i < N` on a true edge records the index fact i < N, so `c[i]` is covered by avail >= N,
  * joins intersect (min of the constants), loops iterate to the fixpoint.
Every access through a cursor states the bytes it needs; it is *proven* when a fact covers it
(an unsigned term counts as >= 0).
"""
from ..canon import Canon
from ..facts import src
from ..rules.results import lvalue_text as _lvalue_text_plain
from ..rules.skeleton import UNSIGNED, clean_type
from ..util import is_assign

def lvalue_text(n):
    """lvalue text with locals/params qualified by their declaration id (no name clashes between
    scopes): `pos#12`, `dec#0->pos`."""
    n = n.strip_casts() if n is not None else None
    if n is None:
        return None
    if n.k == "DeclRefExpr":
        if n.get("dk") in ("local", "param", "slocal") and n.get("d") is not None:
            return "%s#%s" % (n.name, n.get("d"))
        return n.name
    if n.k == "MemberExpr":
        b = lvalue_text(n.c[0]) if n.c else None
        if b is None:
            return None
        if n.get("anon"):
            return b
        return b + ("->" if n.get("arrow") else ".") + n.name
    if n.k == "ArraySubscriptExpr":
        b = lvalue_text(n.c[0])
        if b is None:
            return None
        return b + "[" + src(n.c[1]) + "]"
    if n.k == "UnaryOperator" and n.op == "*":
        b = lvalue_text(n.c[0])
        return None if b is None else "*" + b
    return None


WIDTH_FNS = {"carquet_read_u16_le": 2, "carquet_read_u32_le": 4, "carquet_read_u64_le": 8,
             "carquet_read_i16_le": 2, "carquet_read_i32_le": 4, "carquet_read_i64_le": 8,
             "carquet_read_f32_le": 4, "carquet_read_f64_le": 8, "snappy_read32": 4, "lz4_read32": 4,
             "snappy_read16": 2, "lz4_read16": 2, "read64_le": 8, "read32_le": 4}
# guard calls: name -> (index of the object whose cursor is guarded, index of the byte count)
GUARD_FNS = {"has_bytes": (0, 1), "carquet_buffer_reader_has": (0, 1)}


class Pair:
    def __init__(self, cursor, limit, style, write=False):
        self.cursor, self.limit, self.style, self.write = cursor, limit, style, write

    def __repr__(self):
        return "(%s,%s)" % (self.cursor, self.limit)


def find_pairs(fn):
    """Infer (cursor, limit) pairs from the comparisons of the function: the cursor side is
    modified in the function, the limit side never is."""
    modified = set()
    for n in fn.body.walk():
        if is_assign(n) or (n.k == "UnaryOperator" and n.op in ("++", "--")):
            t = lvalue_text(n.c[0])
            if t:
                modified.add(t)
    pairs = {}
    for n in fn.body.walk():
        if n.k != "BinaryOperator" or n.op not in ("<", ">", "<=", ">="):
            continue
        for a, b in ((n.c[0], n.c[1]), (n.c[1], n.c[0])):
            a0 = a.strip_casts()
            base = a0
            if a0.k == "BinaryOperator" and a0.op == "+":
                base = a0.c[0].strip_casts()
            ta, tb = lvalue_text(base), lvalue_text(b.strip_casts())
            if ta is None or tb is None or ta == tb:
                continue
            pa, pb = "*" in (base.t or ""), "*" in (b.strip_casts().t or "")
            if pa != pb:
                continue
            if ta in modified and tb not in modified:
                pairs.setdefault((ta, tb), Pair(ta, tb, "ptr" if pa else "idx"))
    return list(pairs.values())


class Analysis:
    def __init__(self, P, fn, pairs):
        self.P = P
        self.fn = fn
        self.pairs = pairs
        self.cz = Canon(fn, inline=False, keep_local_names="id")
        self.reads = []       # (node, pair, need_const, need_term, proven, facts)
        self.handled = set()
        self.cfg = fn.cfg
        self.unsigned_terms = set()
        self.simple = {}      # variable name -> simple term

    def _never_modified(self, name):
        if not hasattr(self, "_modcount"):
            mc = {}
            for n in self.fn.body.walk():
                if is_assign(n) or (n.k == "UnaryOperator" and n.op in ("++", "--")):
                    t = lvalue_text(n.c[0])
                    if t:
                        mc[t] = mc.get(t, 0) + 1
                elif n.k == "UnaryOperator" and n.op == "&":
                    t = lvalue_text(n.c[0])
                    if t:
                        mc[t] = mc.get(t, 0) + 2
            self._modcount = mc
        return self._modcount.get(name, 0) == 0

    def _norm(self, t, depth=0):
        """Strip integer casts and inline single-definition locals whose definition only
        mentions variables that are never modified."""
        if not isinstance(t, tuple):
            return t
        if t[0] == "cast":
            return self._norm(t[2], depth)
        if t[0] == "local" and depth < 4:
            d = self._single_defs().get(t[1])
            if d is not None:
                return self._norm(d, depth + 1)
        if t[0] == "bin" and t[1] in ("*", "+"):
            a, b = self._norm(t[2], depth), self._norm(t[3], depth)
            if repr(b) < repr(a):
                a, b = b, a
            return ("bin", t[1], a, b)
        return tuple(self._norm(x, depth) for x in t)

    def _single_defs(self):
        if hasattr(self, "_sdefs"):
            return self._sdefs
        defs = {}
        for n in self.fn.body.walk():
            if n.k == "DeclStmt":
                for d, init in zip(n.get("decls", []), n.c):
                    if "n" in d and "d" in d and init is not None:
                        defs.setdefault("%s#%s" % (d["n"], d["d"]), []).append(init)
            elif is_assign(n):
                t = lvalue_text(n.c[0])
                if t:
                    defs.setdefault(t, []).append(None)
            elif n.k == "UnaryOperator" and n.op in ("++", "--", "&"):
                t = lvalue_text(n.c[0])
                if t:
                    defs.setdefault(t, []).append(None)
        out = {}
        for name, ds in defs.items():
            if len(ds) == 1 and ds[0] is not None:
                expr = ds[0]
                vars_ = set()
                for x in expr.walk():
                    if x.k == "DeclRefExpr" and x.get("dk") in ("local", "param"):
                        vars_.add(lvalue_text(x))
                    elif x.k == "MemberExpr":
                        vars_.add(lvalue_text(x) or "?")
                    elif x.k in ("CallExpr", "UnaryOperator") and (x.k == "CallExpr" or x.op in ("++", "--", "*")):
                        vars_.add("?call")
                if "?call" in vars_ or "?" in vars_:
                    continue
                if all(self._never_modified(v) or (len(defs.get(v, [])) == 1 and defs[v][0] is not None) for v in vars_):
                    out[name] = self.cz(expr)
        self._sdefs = out
        return out

    def term(self, e):
        t = self._norm(self.cz(e))
        ty = clean_type(e.strip().t if e.strip() is not None else None)
        if ty in UNSIGNED:
            self.unsigned_terms.add(t)
        x = e.strip_casts()
        if x is not None and x.k == "DeclRefExpr" and x.get("dk") in ("local", "param"):
            self.simple[lvalue_text(x)] = t
            if clean_type(x.t) in UNSIGNED:
                self.unsigned_terms.add(t)
        return t

    # ---- counted loops: for (i = 0; i < N; i++) { ... cursor++ once ... } is one bulk access of N
    def counted_loops(self):
        """Returns {init node id: (pair index, bulk term, bulk const, member node ids)} for the
        outermost summarisable loops."""
        out = {}
        done = set()

        def loop_info(lp):
            init, cond, inc, body = lp.c[0], lp.c[2], lp.c[3], lp.c[4]
            if init is None or cond is None or inc is None or body is None:
                return None
            ivar = None
            initnode = None
            if init.k == "DeclStmt" and len(init.get("decls", [])) == 1 and init.c and init.c[0] is not None and init.c[0].cv == 0:
                ivar = "%s#%s" % (init.get("decls")[0]["n"], init.get("decls")[0]["d"])
                initnode = init
            elif is_assign(init) and init.op == "=" and init.c[1].cv == 0 and init.c[0].strip().k == "DeclRefExpr":
                ivar = lvalue_text(init.c[0])
                initnode = init
            if ivar is None:
                return None
            c = cond.strip()
            if c.k != "BinaryOperator" or c.op != "<" or lvalue_text(c.c[0]) != ivar:
                return None
            N = c.c[1]
            ic = inc.strip()
            if not (ic.k == "UnaryOperator" and ic.op == "++" and lvalue_text(ic.c[0]) == ivar):
                return None
            # N and i are not modified in the body
            nvars = set(lvalue_text(x) for x in N.walk() if x.k in ("DeclRefExpr", "MemberExpr"))
            for x in body.walk():
                if is_assign(x) or (x.k == "UnaryOperator" and x.op in ("++", "--")):
                    t = lvalue_text(x.c[0])
                    if t == ivar or t in nvars:
                        return None
            return ivar, N, initnode, body

        def advance_of(body, pi):
            """Per-iteration advance of pair pi in a loop body: (const, [terms]) or None if unknown."""
            p = self.pairs[pi]
            const = 0
            terms = []
            members = set()
            stack = [(body, False)]
            while stack:
                n, cond_ctx = stack.pop()
                if n.k == "ForStmt":
                    info = loop_info(n)
                    if info is None:
                        if any(lvalue_text(x.c[0]) == p.cursor for x in n.walk()
                               if is_assign(x) or (x.k == "UnaryOperator" and x.op in ("++", "--"))):
                            return None
                        continue
                    iv, N2, initn, b2 = info
                    sub = advance_of(b2, pi)
                    if sub is None:
                        return None
                    c2, t2, m2 = sub
                    members |= m2
                    members.add(initn.i)
                    if t2:
                        return None
                    if c2 > 0:
                        tN = self.term(N2)
                        terms.append(tN if c2 == 1 else ("bin", "*", ("int", c2), tN))
                    continue
                if n.k in ("IfStmt", "WhileStmt", "DoStmt", "SwitchStmt", "ConditionalOperator"):
                    if any(lvalue_text(x.c[0]) == p.cursor for x in n.walk()
                           if is_assign(x) or (x.k == "UnaryOperator" and x.op in ("++", "--"))):
                        return None
                    continue
                if n.k == "UnaryOperator" and n.op == "++" and lvalue_text(n.c[0]) == p.cursor:
                    const += 1
                    members.add(n.i)
                    par = n.parent
                    while par is not None and par.k in ("ParenExpr", "ImplicitCastExpr", "CStyleCastExpr"):
                        par = par.parent
                    if par is not None and par.k in ("ArraySubscriptExpr", "UnaryOperator"):
                        members.add(par.i)
                    continue
                if n.k == "CompoundAssignOperator" and lvalue_text(n.c[0]) == p.cursor:
                    if n.op == "+=" and n.c[1].cv is not None and n.c[1].cv >= 0:
                        const += n.c[1].cv
                        members.add(n.i)
                        continue
                    return None
                if is_assign(n) and lvalue_text(n.c[0]) == p.cursor:
                    return None
                if n.k == "UnaryOperator" and n.op == "--" and lvalue_text(n.c[0]) == p.cursor:
                    return None
                for ch in n.kids():
                    stack.append((ch, cond_ctx))
            return const, terms, members

        for lp in self.fn.body.walk():
            if lp.k != "ForStmt" or lp.i in done:
                continue
            info = loop_info(lp)
            if info is None:
                continue
            ivar, N, initnode, body = info
            for pi in range(len(self.pairs)):
                # a body that tests the cursor against its limit on every iteration is proved iteration by
                # iteration (the fixpoint below), not by a bulk requirement in front of the loop
                pc = self.pairs[pi]
                if any(x.k == "IfStmt" and x.c and x.c[0] is not None and
                       any(lvalue_text(y) == pc.cursor for y in [z for z in x.c if z is not None][0].walk() if y.k in ("DeclRefExpr", "MemberExpr")) and
                       any(lvalue_text(y) == pc.limit for y in [z for z in x.c if z is not None][0].walk() if y.k in ("DeclRefExpr", "MemberExpr"))
                       for x in body.walk()):
                    continue
                adv = advance_of(body, pi)
                if adv is None:
                    continue
                const, terms, members = adv
                if const == 0 and not terms:
                    continue
                tN = self.term(N)
                if terms and const:
                    continue
                if terms:
                    if len(terms) != 1:
                        continue
                    a, b = tN, terms[0]
                    if repr(b) < repr(a):
                        a, b = b, a
                    bulk = ("bin", "*", a, b)
                else:
                    bulk = tN if const == 1 else self._mul(const, tN)
                for x in lp.walk():
                    if x.k == "ForStmt":
                        done.add(x.i)
                out[initnode.i] = (pi, bulk, members, lp)
        return out

    @staticmethod
    def _const_of(t):
        """integer value of a constant bulk term (n, or c*n), else None"""
        if isinstance(t, tuple) and t and t[0] == "int":
            return t[1]
        if isinstance(t, tuple) and len(t) == 4 and t[0] == "bin" and t[1] == "*" and \
                isinstance(t[2], tuple) and isinstance(t[3], tuple) and t[2][0] == "int" and t[3][0] == "int":
            return t[2][1] * t[3][1]
        return None

    def _mul(self, c, t):
        a, b = ("int", c), t
        if repr(b) < repr(a):
            a, b = b, a
        return ("bin", "*", a, b)

    # ---- state: (facts, idx) ; facts: pair index -> {term or None: k}; idx: {index name: bound term}
    @staticmethod
    def join(a, b):
        if a is None:
            return b
        if b is None:
            return a
        fa, ia = a
        fb, ib = b
        out = {}
        for pi in set(fa) | set(fb):
            x, y = fa.get(pi, {}), fb.get(pi, {})
            out[pi] = {t: min(x[t], y[t]) for t in set(x) & set(y)}
        idx = {k: v for k, v in ia.items() if ib.get(k) == v}
        return (out, idx)

    def run(self):
        cfg = self.cfg
        self.loops = self.counted_loops()
        self.loop_members = {}
        for init_id, (pi, bulk, members, lp) in self.loops.items():
            for m in members:
                self.loop_members[m] = init_id
        self.loop_result = {}
        inn = {cfg.entry: ({i: {} for i in range(len(self.pairs))}, {})}
        order = cfg.rpo()
        work = list(order)
        it = 0
        while work and it < 8000:
            it += 1
            b = work.pop(0)
            if b not in inn:
                continue
            st = self.copy(inn[b])
            B = cfg.blocks[b]
            for e in B.elems:
                st = self.transfer(e, st, record=False)
            for si, s in enumerate(B.succs):
                if s is None:
                    continue
                st2 = self.refine(B, si, self.copy(st))
                new = self.join(inn.get(s), st2)
                if new != inn.get(s):
                    inn[s] = new
                    if s not in work:
                        work.append(s)
        self.handled = set()
        for b in order:
            if b not in inn:
                continue
            st = self.copy(inn[b])
            for e in cfg.blocks[b].elems:
                st = self.transfer(e, st, record=True)
        return self.reads

    @staticmethod
    def copy(st):
        f, i = st
        return ({pi: dict(x) for pi, x in f.items()}, dict(i))

    # ---- helpers
    def _tvars(self, t):
        out = set()
        if isinstance(t, tuple):
            if t[0] in ("local", "param") and isinstance(t[1], str):
                out.add(t[1])
            if t[0] == "member":
                out.add(self._mtext(t))
            for x in t[1:]:
                out |= self._tvars(x)
        return out

    def _mtext(self, t):
        if t[0] == "member":
            b = self._mtext(t[1])
            return (b + "->" if b else "") + t[2]
        if t[0] in ("local", "param"):
            return str(t[1])
        if t[0] == "un" and t[1] == "*":
            return self._mtext(t[2])
        return ""

    def modify_var(self, st, name, delta=None):
        """Variable `name` changes: by a known constant delta (new = old + delta) or arbitrarily."""
        facts, idx = st
        simple = self.simple.get(name)
        for pi in facts:
            for t in list(facts[pi]):
                if t is None or name not in self._tvars(t):
                    continue
                if delta is not None and t == simple:
                    # avail >= k + old = k + (new - delta)
                    k = facts[pi][t] - delta
                    if k >= -64:
                        facts[pi][t] = k
                    else:
                        del facts[pi][t]
                else:
                    del facts[pi][t]
        for i in list(idx):
            if i == name or name in self._tvars(idx[i]):
                del idx[i]
        return st

    def advance(self, st, pi, amount_node, const=None):
        facts, idx = st
        f = facts[pi]
        new = {}
        if const is not None:
            for t, k in f.items():
                if t is None:
                    if k - const >= 0:
                        new[t] = k - const
                else:
                    new[t] = k - const
        else:
            T = self.term(amount_node)
            for t, k in f.items():
                if t == T:
                    new[None] = max(new.get(None, 0), k)
        facts[pi] = new
        return st

    def _drop(self, st, pi):
        st[0][pi] = {}
        return st

    def transfer(self, e, st, record):
        k = e.k
        if e.i in self.loops:
            # bulk access of a counted loop: needs `bulk` bytes now, then the cursor is past them
            pi, bulk, members, lp = self.loops[e.i]
            f = st[0].get(pi, {})
            cbulk = self._const_of(bulk)
            if cbulk is not None:
                # a loop with a constant trip count consumes a constant number of bytes
                have = f.get(None, 0)
                ok = have >= cbulk
                if record:
                    self.loop_result[e.i] = (ok, dict(f), bulk)
                st[0][pi] = {None: have - cbulk} if ok and have - cbulk > 0 else {}
            else:
                kk = f.get(bulk)
                ok = kk is not None and kk >= 0
                if record:
                    self.loop_result[e.i] = (ok, dict(f), bulk)
                facts = st[0]
                new = {}
                for t, k2 in f.items():
                    if t == bulk:
                        new[None] = max(new.get(None, 0), k2)
                facts[pi] = new
        if e.i in self.loop_members:
            init_id = self.loop_members[e.i]
            pi, bulk, members, lp = self.loops[init_id]
            if record and (e.k in ("ArraySubscriptExpr",) or (e.k == "UnaryOperator" and e.op == "*")):
                okb, f0, _ = self.loop_result.get(init_id, (False, {}, bulk))
                need = self.need_of(e)
                if need and e.i not in self.handled:
                    self.handled.add(e.i)
                    self.reads.append((e, self.pairs[pi], 0, ("loop", bulk), okb, f0))
            if e.k in ("UnaryOperator", "CompoundAssignOperator") and lvalue_text(e.c[0]) == self.pairs[pi].cursor:
                # the advance was accounted for at the loop entry
                par = e.parent
                while par is not None and par.k in ("ParenExpr", "ImplicitCastExpr", "CStyleCastExpr"):
                    par = par.parent
                if record and par is not None and par.i in self.loop_members and par.i not in self.handled and \
                        (par.k == "ArraySubscriptExpr" or (par.k == "UnaryOperator" and par.op == "*")):
                    okb, f0, _ = self.loop_result.get(init_id, (False, {}, bulk))
                    self.handled.add(par.i)
                    self.reads.append((par, self.pairs[pi], 0, ("loop", bulk), okb, f0))
                return st
            if e.i in self.handled:
                return st
        if k == "UnaryOperator" and e.op == "++" and e.get("post"):
            par = e.parent
            while par is not None and par.k in ("ParenExpr", "ImplicitCastExpr", "CStyleCastExpr"):
                par = par.parent
            if par is not None and (par.k == "ArraySubscriptExpr" or (par.k == "UnaryOperator" and par.op == "*")):
                if record:
                    self.check_read(par, st)
                self.handled.add(par.i)
        if record and e.i not in self.handled:
            self.check_read(e, st)
        if k == "UnaryOperator" and e.op in ("++", "--"):
            t = lvalue_text(e.c[0])
            hit = False
            for pi, p in enumerate(self.pairs):
                if t == p.cursor:
                    hit = True
                    st = self.advance(st, pi, None, const=1) if e.op == "++" else self._drop(st, pi)
                elif t == p.limit:
                    st = self._drop(st, pi)
            if t:
                st = self.modify_var(st, t, 1 if e.op == "++" else -1)
        elif k == "CompoundAssignOperator":
            t = lvalue_text(e.c[0])
            c = e.c[1].cv
            for pi, p in enumerate(self.pairs):
                if t == p.cursor:
                    if e.op == "+=" and (c is None or c >= 0):
                        st = self.advance(st, pi, e.c[1], const=c)
                    else:
                        st = self._drop(st, pi)
                elif t == p.limit:
                    st = self._drop(st, pi)
            if t:
                d = None
                if c is not None and e.op == "+=":
                    d = c
                elif c is not None and e.op == "-=":
                    d = -c
                st = self.modify_var(st, t, d)
        elif k == "BinaryOperator" and e.op == "=":
            t = lvalue_text(e.c[0])
            for pi, p in enumerate(self.pairs):
                if t == p.cursor:
                    r = e.c[1].strip_casts()
                    if r.k == "BinaryOperator" and r.op == "+" and lvalue_text(r.c[0]) == p.cursor:
                        c = r.c[1].cv
                        st = self.advance(st, pi, r.c[1], const=c if c is not None and c >= 0 else None)
                    else:
                        st = self._drop(st, pi)
                elif t == p.limit:
                    st = self._drop(st, pi)
            if t:
                r = e.c[1].strip_casts()
                keep = False
                # v = limit - cursor  =>  avail >= v
                for pi, p in enumerate(self.pairs):
                    if r.k == "BinaryOperator" and r.op == "-" and lvalue_text(r.c[0]) == p.limit and lvalue_text(r.c[1]) == p.cursor:
                        st = self.modify_var(st, t)
                        st[0][pi][self.term(e.c[0])] = 0
                        keep = True
                # clamp: `if (v > X) v = X;` only lowers v, facts avail >= k + v stay valid
                if not keep:
                    for anc in e.ancestors():
                        if anc.k == "IfStmt":
                            c0 = [x for x in anc.c if x is not None][0].strip()
                            if c0.k == "BinaryOperator" and c0.op == ">" and lvalue_text(c0.c[0]) == t and src(c0.c[1]) == src(e.c[1]):
                                keep = True
                            break
                        if anc.k in ("ForStmt", "WhileStmt", "DoStmt"):
                            break
                if not keep:
                    st = self.modify_var(st, t)
                # v = w where `avail >= k + w` is known: the same holds for v
                if r.k in ("DeclRefExpr", "MemberExpr") and r.cv is None:
                    Tr, Tl = self.term(r), self.term(e.c[0])
                    for pi in st[0]:
                        if Tr in st[0][pi]:
                            st[0][pi][Tl] = max(st[0][pi][Tr], st[0][pi].get(Tl, -10 ** 9))
        elif k == "CallExpr":
            for a in e.args():
                x = a.strip_casts()
                if x.k == "UnaryOperator" and x.op == "&":
                    t = lvalue_text(x.c[0])
                    for pi, p in enumerate(self.pairs):
                        if t in (p.cursor, p.limit):
                            st = self._drop(st, pi)
                    if t:
                        st = self.modify_var(st, t)
        elif k == "DeclStmt":
            for d, init in zip(e.get("decls", []), e.c):
                if "n" in d and "d" in d:
                    name = "%s#%s" % (d["n"], d["d"])
                    st = self.modify_var(st, name)
                    if init is not None:
                        r = init.strip_casts()
                        for pi, p in enumerate(self.pairs):
                            if r.k == "BinaryOperator" and r.op == "-" and lvalue_text(r.c[0]) == p.limit \
                                    and lvalue_text(r.c[1]) == p.cursor:
                                T = ("local", name, (d.get("t") or "").replace("const ", ""))
                                self.simple[name] = T
                                st[0][pi][T] = 0
        return st

    # ---- branch refinement
    def refine(self, B, si, st):
        if B.cond is not None and B.tk == "SwitchStmt":
            # edge switch(T) -> `case K:`: T == K there, so `avail >= k + T` gives avail >= k + K.
            # (A case block entered by fall-through joins with the state of the block above as usual.)
            s = B.succs[si]
            lab = self.cfg.blocks[s].label if s in self.cfg.blocks else None
            K = lab.c[0].cv if lab is not None and lab.k == "CaseStmt" and lab.c and lab.c[0] is not None else None
            if K is not None and K > 0:
                facts, idx = st
                T = self.term(B.cond.strip_casts())
                for pi in facts:
                    if T in facts[pi]:
                        facts[pi][None] = max(facts[pi].get(None, 0), facts[pi][T] + K)
            return st
        if B.cond is None or len(B.succs) != 2:
            return st
        taken = (si == 0)
        c = B.cond.strip()
        neg = False
        while c is not None and c.k == "UnaryOperator" and c.op == "!":
            neg = not neg
            c = c.c[0].strip()
        if c is None:
            return st
        truth = taken != neg
        facts, idx = st
        if c.k == "CallExpr" and c.callee in GUARD_FNS and truth:
            oi, ni = GUARD_FNS[c.callee]
            n = c.args()[ni]
            for pi, p in enumerate(self.pairs):
                if p.style == "reader":
                    if n.cv is not None:
                        facts[pi][None] = max(facts[pi].get(None, 0), n.cv)
                    else:
                        facts[pi][self.term(n)] = 0
            return st
        if c.k != "BinaryOperator" or c.op not in ("<", ">", "<=", ">=", "==", "!="):
            return st
        op = c.op
        L, R = c.c[0].strip_casts(), c.c[1].strip_casts()
        flip = {"<": ">", ">": "<", "<=": ">=", ">=": "<=", "==": "==", "!=": "!="}
        for pi, p in enumerate(self.pairs):
            for (l, r, o) in ((L, R, op), (R, L, flip[op])):
                f = self._fact_from(p, l, r, o, truth)
                if f is not None:
                    t, kk = f
                    if kk >= 0:
                        facts[pi][t] = max(facts[pi].get(t, -10 ** 9), kk)
        # term vs constant:  T >= c on this edge  =>  avail >= k + c
        for (l, r, o) in ((L, R, op), (R, L, flip[op])):
            if r.cv is None:
                continue
            lo = None
            if o == ">=" and truth:
                lo = r.cv
            elif o == ">" and truth:
                lo = r.cv + 1
            elif o == "<" and not truth:
                lo = r.cv
            elif o == "<=" and not truth:
                lo = r.cv + 1
            elif o == "==" and truth and r.cv > 0:
                lo = r.cv
            elif o == "!=" and truth and r.cv == 0:
                lo = 1
            elif o == "==" and not truth and r.cv == 0:
                lo = 1
            if lo is None or lo <= 0:
                continue
            # `n-- > 0`: the comparison saw the old value
            x = l
            post = 0
            if x.k == "UnaryOperator" and x.op == "--" and x.get("post"):
                x = x.c[0].strip_casts()
                post = 1
            T = self.term(x)
            if T in (self.unsigned_terms if (o in ("!=", "==") and r.cv == 0) else [T]):
                for pi in facts:
                    if T in facts[pi]:
                        kk = facts[pi][T] + lo - post
                        if post:
                            # the variable was already decremented by transfer: fact is k+1 + new
                            kk = facts[pi][T] + (lo - 1)
                        facts[pi][None] = max(facts[pi].get(None, 0), kk)
        # term vs term: on an edge where l <= r holds, `avail >= k + r` gives `avail >= k + l`
        for (l, r, o) in ((L, R, op), (R, L, flip[op])):
            if l.cv is not None or r.cv is not None or l.k not in ("DeclRefExpr", "MemberExpr") or r.k not in ("DeclRefExpr", "MemberExpr"):
                continue
            if (o in ("<=", "<") and truth) or (o in (">", ">=") and not truth) or (o == "==" and truth):
                Tl, Tr = self.term(l), self.term(r)
                for pi in facts:
                    if Tr in facts[pi] and facts[pi][Tr] >= facts[pi].get(Tl, -10 ** 9):
                        facts[pi][Tl] = facts[pi][Tr]
        # index facts  i < N
        for (l, r, o) in ((L, R, op), (R, L, flip[op])):
            if ((o == "<" and truth) or (o == ">=" and not truth)) and l.k == "DeclRefExpr" and r.cv is None:
                idx[lvalue_text(l)] = self.term(r)
        return st

    def _fact_from(self, p, l, r, o, truth):
        base, E = l, None
        if l.k == "BinaryOperator" and l.op == "+":
            base, E = l.c[0].strip_casts(), l.c[1]
        if lvalue_text(base) == p.cursor and lvalue_text(r) == p.limit:
            ec = 0 if E is None else E.cv
            et = None if (E is None or E.cv is not None) else self.term(E)
            if ec is None:
                ec = 0
            if o == "<" and truth:
                return (et, ec + 1)
            if o == "<=" and truth:
                return (et, ec)
            if o == ">" and not truth:
                return (et, ec)
            if o == ">=" and not truth:
                return (et, ec + 1)
            return None
        if l.k == "BinaryOperator" and l.op == "-" and lvalue_text(l.c[0]) == p.limit and lvalue_text(l.c[1]) == p.cursor:
            ec = r.cv
            et = None if ec is not None else self.term(r)
            ec = ec or 0
            if o == ">=" and truth:
                return (et, ec)
            if o == ">" and truth:
                return (et, ec + 1)
            if o == "<" and not truth:
                return (et, ec)
            if o == "<=" and not truth:
                return (et, ec + 1)
        # cursor < limit - E   (true)  =>  avail >= E + 1
        if lvalue_text(l) == p.cursor and r.k == "BinaryOperator" and r.op == "-" and lvalue_text(r.c[0]) == p.limit:
            E2 = r.c[1]
            ec = E2.cv
            et = None if ec is not None else self.term(E2)
            ec = ec or 0
            if o == "<" and truth:
                return (et, ec + 1)
            if o == "<=" and truth:
                return (et, ec)
            if o == ">=" and not truth:
                return (et, ec + 1)
            if o == ">" and not truth:
                return (et, ec)
        # counter style: the pair's cursor is itself the remaining count: (remaining, -)
        if p.style == "counter" and lvalue_text(l) == p.cursor:
            ec = r.cv
            et = None if ec is not None else self.term(r)
            ec = ec or 0
            if o == ">=" and truth:
                return (et, ec)
            if o == ">" and truth:
                return (et, ec + 1)
            if o == "<" and not truth:
                return (et, ec)
            if o == "<=" and not truth:
                return (et, ec + 1)
        return None

    # ---- accesses
    def _is_buffer(self, n):
        """A pointer parameter or pointer member (not a local array)."""
        x = n.strip_casts()
        if x is None or "*" not in (n.strip().t or ""):
            return False
        if x.k == "DeclRefExpr":
            return x.get("dk") == "param" or (x.get("dk") == "local" and "*" in (x.t or ""))
        return x.k == "MemberExpr" and "[" not in (x.t or "")

    def need_of(self, e):
        out = []
        for pi, p in enumerate(self.pairs):
            if p.style == "ptr":
                if e.k == "UnaryOperator" and e.op == "*":
                    x = e.c[0].strip_casts()
                    if x.k == "UnaryOperator" and x.op == "++" and x.get("post"):
                        x = x.c[0].strip_casts()
                    if lvalue_text(x) == p.cursor:
                        out.append((pi, 1, None))
                    elif x.k == "BinaryOperator" and x.op == "+" and lvalue_text(x.c[0]) == p.cursor and x.c[1].cv is not None:
                        out.append((pi, x.c[1].cv + 1, None))
                elif e.k == "ArraySubscriptExpr" and lvalue_text(e.c[0]) == p.cursor:
                    i = e.c[1]
                    if i.cv is not None:
                        out.append((pi, i.cv + 1, None))
                    else:
                        out.append((pi, 1, ("idx", lvalue_text(i) or src(i))))
                elif e.k == "CallExpr" and e.callee:
                    args = e.args()
                    if e.callee in ("memcpy", "memmove", "memcmp", "memset") and len(args) >= 3:
                        which = {"memcpy": (0, 1), "memmove": (0, 1), "memcmp": (0, 1), "memset": (0,)}[e.callee]
                        for ai in which:
                            off = self._ptr_off(args[ai], p.cursor)
                            if off is not None:
                                n = args[2]
                                if n.cv is not None:
                                    out.append((pi, off + n.cv, None))
                                else:
                                    out.append((pi, off, self.term(n)))
                    elif e.callee in WIDTH_FNS and args:
                        off = self._ptr_off(args[0], p.cursor)
                        if off is not None:
                            out.append((pi, off + WIDTH_FNS[e.callee], None))
            elif p.style == "idx":
                if e.k == "ArraySubscriptExpr" and self._is_buffer(e.c[0]):
                    off = self._idx_off(e.c[1], p.cursor)
                    if off is not None:
                        out.append((pi, off + 1, None))
                elif e.k == "DeclStmt" and len(e.get("decls", [])) == 1 and e.c and e.c[0] is not None:
                    # T *q = buf + cursor: q's own index pair (j, n) in this function makes n elements
                    # behind buf + cursor an access at this point
                    off = self._buf_plus_idx(e.c[0], p.cursor)
                    if off is not None:
                        lim = self._derived_extent("%s#%s" % (e.get("decls")[0]["n"], e.get("decls")[0]["d"]), e, pi)
                        if lim is not None:
                            out.append((pi, off, self.term(lim)))
                elif e.k == "CallExpr" and e.callee:
                    args = e.args()
                    if e.callee in WIDTH_FNS and args:
                        off = self._buf_plus_idx(args[0], p.cursor)
                        if off is not None:
                            out.append((pi, off + WIDTH_FNS[e.callee], None))
                    elif e.callee.startswith("_mm") and ("storeu" in e.callee or "loadu" in e.callee) and args:
                        width = 64 if e.callee.startswith("_mm512") else 32 if e.callee.startswith("_mm256") else 16
                        off = self._buf_plus_idx(args[0], p.cursor)
                        if off is not None:
                            from ..rules.skeleton import pointee_size
                            x = args[0].strip_casts()
                            while x is not None and x.k == "BinaryOperator" and x.op == "+":
                                x = x.c[0].strip_casts()
                            esz = pointee_size(x.t if x is not None else "") or 1
                            out.append((pi, off + (width + esz - 1) // esz, None))
                    elif resolve(self.P, e.callee, self.fn) not in (None, self.fn):
                        # a helper of the program that touches at most args[li] elements behind args[ai]
                        g = resolve(self.P, e.callee, self.fn)
                        ext = param_extents(self.P, g)
                        for ai, li in sorted(ext.items()):
                            if ai >= len(args) or li >= len(args):
                                continue
                            off = self._buf_plus_idx(args[ai], p.cursor)
                            if off is None or not self._same_pointee(args[ai], g.params[ai]):
                                continue
                            n = args[li]
                            nx = n.strip_casts()
                            if off == 0 and nx.k == "BinaryOperator" and nx.op == "-" and \
                                    lvalue_text(nx.c[0]) == p.limit and lvalue_text(nx.c[1]) == p.cursor:
                                continue    # exactly the remaining elements
                            if n.cv is not None:
                                out.append((pi, off + n.cv, None))
                            else:
                                out.append((pi, off, self.term(n)))
                    elif e.callee in ("memcpy", "memmove") and len(args) >= 3:
                        for ai in (0, 1):
                            off = self._buf_plus_idx(args[ai], p.cursor)
                            if off is not None and not self._byte_ptr(args[ai]):
                                off = None
                            if off is not None:
                                n = args[2]
                                if n.cv is not None:
                                    out.append((pi, off + n.cv, None))
                                else:
                                    out.append((pi, off, self.term(n)))
        return out

    def _derived_extent(self, q, decl, pi):
        """The limit node n of the one index pair (j, n) every use of the never-modified local
        pointer q goes through (q[j], q + j), provided n only changes before q is derived."""
        if not self._never_modified(q):
            return None
        uses = [x for x in self.fn.body.walk() if x.k == "DeclRefExpr" and lvalue_text(x) == q]
        if not uses:
            return None
        limits = {}
        for u in uses:
            par = u.parent
            while par is not None and par.k in ("ParenExpr", "ImplicitCastExpr", "CStyleCastExpr"):
                par = par.parent
            if par is None or not ((par.k == "ArraySubscriptExpr" and par.c[0].strip_casts() is u) or
                                   (par.k == "BinaryOperator" and par.op == "+" and par.c[0].strip_casts() is u)):
                return None
            j = par.c[1].strip_casts()
            if j.k != "DeclRefExpr":
                return None
            jt = lvalue_text(j)
            width = 1
            if par.k == "BinaryOperator":
                # q + j handed to a vector store/load: its width in elements
                call = par.parent
                while call is not None and call.k in ("ParenExpr", "ImplicitCastExpr", "CStyleCastExpr"):
                    call = call.parent
                if call is None or call.k != "CallExpr" or not (call.callee or "").startswith("_mm") or \
                        not ("storeu" in call.callee or "loadu" in call.callee):
                    return None
                from ..rules.skeleton import pointee_size
                esz = pointee_size(u.t or "") or 1
                bits = 64 if call.callee.startswith("_mm512") else 32 if call.callee.startswith("_mm256") else 16
                width = (bits + esz - 1) // esz
            # the enclosing loop condition bounds j: j < N (width 1) or j + w <= N
            lp = par.parent
            N = None
            while lp is not None and N is None:
                if lp.k in ("ForStmt", "WhileStmt"):
                    c = (lp.c[2] if lp.k == "ForStmt" else lp.c[0])
                    c = c.strip() if c is not None else None
                    if c is not None and c.k == "BinaryOperator" and c.op in ("<", "<="):
                        l = c.c[0].strip_casts()
                        if c.op == "<" and lvalue_text(l) == jt and width == 1:
                            N = c.c[1]
                        elif l.k == "BinaryOperator" and l.op == "+" and lvalue_text(l.c[0]) == jt and \
                                l.c[1].cv is not None and ((c.op == "<=" and l.c[1].cv >= width) or
                                                           (c.op == "<" and l.c[1].cv >= width - 1)):
                            N = c.c[1]
                lp = lp.parent
            if N is None or lvalue_text(N) is None:
                return None
            limits[lvalue_text(N)] = N
        if len(limits) != 1:
            return None
        lt, limnode = next(iter(limits.items()))
        for x in self.fn.body.walk():
            if (is_assign(x) or (x.k == "UnaryOperator" and x.op in ("++", "--"))) and \
                    lvalue_text(x.c[0]) == lt and (x.l or 0) > (decl.l or 0):
                return None
        return limnode

    def _same_pointee(self, a, param):
        from ..rules.skeleton import pointee_size
        x = a.strip_casts()
        while x is not None and x.k == "BinaryOperator" and x.op == "+":
            x = x.c[0].strip_casts()
        if x is None:
            return False
        sa, sb = pointee_size(x.t or ""), pointee_size(param.get("t") or "")
        return sa is not None and sa == sb

    def _byte_ptr(self, a):
        x = a.strip_casts()
        while x is not None and x.k == "BinaryOperator" and x.op == "+":
            x = x.c[0].strip_casts()
        t = clean_type(x.t if x is not None else "")
        return t in ("uint8_t *", "char *", "unsigned char *", "void *", "int8_t *")

    def _ptr_off(self, a, cursor):
        x = a.strip_casts()
        if lvalue_text(x) == cursor:
            return 0
        if x.k == "BinaryOperator" and x.op == "+" and lvalue_text(x.c[0]) == cursor and x.c[1].cv is not None:
            return x.c[1].cv
        return None

    def _idx_off(self, i, cursor):
        x = i.strip_casts()
        if x.k == "UnaryOperator" and x.op == "++" and x.get("post"):
            x = x.c[0].strip_casts()
        if lvalue_text(x) == cursor:
            return 0
        if x.k == "BinaryOperator" and x.op == "+" and lvalue_text(x.c[0]) == cursor and x.c[1].cv is not None:
            return x.c[1].cv
        return None

    def _buf_plus_idx(self, a, cursor):
        x = a.strip_casts()
        if x.k == "BinaryOperator" and x.op == "+":
            r = self._idx_off(x.c[1], cursor)
            if r is not None and "*" in (x.c[0].strip().t or ""):
                return r
            l = x.c[0].strip_casts()
            if l.k == "BinaryOperator" and l.op == "+" and x.c[1].cv is not None:
                r2 = self._idx_off(l.c[1], cursor)
                if r2 is not None:
                    return r2 + x.c[1].cv
        return None

    def check_read(self, e, st):
        facts, idx = st
        for pi, kc, kt in self.need_of(e):
            f = facts.get(pi, {})
            best = f.get(None, 0)
            for t, k in f.items():
                if t is not None and t in self.unsigned_terms:
                    best = max(best, k)
            proven = False
            if kt is None:
                proven = best >= kc
            elif isinstance(kt, tuple) and kt and kt[0] == "idx":
                # c[i] with i < N known: covered by avail >= N
                N = idx.get(kt[1])
                proven = N is not None and f.get(N, -1) >= 0
            else:
                k = f.get(kt)
                proven = k is not None and k >= kc
            self.reads.append((e, self.pairs[pi], kc, kt, proven, dict(f)))


_pe_cache = {}
_pe_busy = set()


def resolve(P, name, near=None):
    """The definition a direct call to `name` reaches: the one in the caller's file when there are
    several (static helpers), else the only one."""
    cands = P.by_name.get(name, [])
    if near is not None:
        same = [f for f in cands if f.file == near.file]
        if same:
            return same[0]
    return cands[0] if len(cands) == 1 else None


def param_extents(P, callee):
    """{pointer parameter index: length parameter index} of a helper of the program: every use of
    the pointer parameter is an access this engine proves inside a (cursor, limit) pair of the
    helper whose limit is that never-modified length parameter - so the helper touches at most
    `length` elements behind the pointer it is given."""
    fn = resolve(P, callee) if isinstance(callee, str) else callee
    if fn is None or fn.cfg is None:
        return {}
    _pe_cache = P.__dict__.setdefault("_memo", {}).setdefault("param_extents", {})
    k = (fn.name, fn.file)
    if k in _pe_cache:
        return _pe_cache[k]
    if k in _pe_busy:
        return {}
    _pe_busy.add(k)
    out = {}
    try:
        pairs = find_pairs(fn)
        if pairs:
            a = Analysis(P, fn, pairs)
            reads = a.run()
            names = ["%s#%s" % (q["n"], q.get("d")) for q in fn.params]
            for ai, q in enumerate(fn.params):
                if "*" not in (q.get("t") or ""):
                    continue
                qn = names[ai]
                if not a._never_modified(qn):
                    continue
                occ = set(x.i for x in fn.body.walk() if x.k == "DeclRefExpr" and lvalue_text(x) == qn)
                if not occ:
                    continue
                covered = set()
                limits = set()
                ok = True
                for e, pr, kc, kt, proven, facts in reads:
                    inside = set(x.i for x in e.walk() if x.k == "DeclRefExpr" and lvalue_text(x) == qn)
                    if not inside:
                        continue
                    covered |= inside
                    limits.add(pr.limit)
                    ok = ok and proven
                if ok and covered == occ and len(limits) == 1:
                    L = next(iter(limits))
                    if L in names and a._never_modified(L):
                        out[ai] = names.index(L)
    finally:
        _pe_busy.discard(k)
    _pe_cache[k] = out
    return out


def analyse(P, fn, pairs=None):
    pairs = pairs if pairs is not None else find_pairs(fn)
    if not pairs or fn.cfg is None:
        return [], pairs
    a = Analysis(P, fn, pairs)
    return a.run(), pairs
