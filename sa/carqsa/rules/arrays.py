"""Fixed-size array index bounds for decoder state (R4 companion).

For every subscript of a constant-length array A[L] with a non-constant index, one of the
following must establish index < L:
  (a) a dominating guard in the same function compares the index expression with a constant K
      (`idx >= K` / `idx > K-1` exits, or a loop/branch condition `idx < K` holds) with K <= L;
  (b) the index is a loop variable `i < N` and N's definition-inlined, base-stripped canonical form
      equals an expression E for which the file holds a validation guard `E > K -> error` with
      K <= L (a struct-field invariant established where the header is parsed);
  (c) the index is a struct field whose every store in the file is a constant < L, a reset to 0,
      or an increment guarded by (a)/(b)-style comparison against a field bounded the same way.
Anything else is reported with what was found.
"""
import re

from ..canon import Canon, show, subtrees
from ..facts import src
from ..util import is_assign


_UNSIGNED = ("unsigned", "uint8_t", "uint16_t", "uint32_t", "uint64_t", "size_t", "uintptr_t")


def _cty(t):
    """'unsigned' when the spelled type is an unsigned integer (typedef names included), else ''."""
    t = (t or "").replace("const ", "").strip()
    return "unsigned" if "*" not in t and any(t.startswith(u) for u in _UNSIGNED) else ""


_W = {"char": 8, "signed char": 8, "unsigned char": 8, "uint8_t": 8, "int8_t": 8, "_Bool": 8, "bool": 8,
      "short": 16, "unsigned short": 16, "uint16_t": 16, "int16_t": 16,
      "int": 32, "unsigned int": 32, "uint32_t": 32, "int32_t": 32}


def _no_truncation(outer):
    """No explicit cast between `outer` and its cast-stripped operand narrows the value."""
    n = outer
    while n is not None and n.k in ("ParenExpr", "ImplicitCastExpr", "CStyleCastExpr", "ConstantExpr") and n.c:
        if n.k == "CStyleCastExpr":
            w = lambda t: _W.get((t or "").replace("const ", "").strip(), 64)
            if w(n.t) < w(n.c[0].strip().t):
                return False
        n = n.c[0]
    return True


def strip_base(t):
    """Canonical tree with the object a member is read from abstracted and casts dropped."""
    if isinstance(t, tuple):
        if t[0] == "cast":
            return strip_base(t[2])
        if t[0] == "member":
            return ("member", "_", t[2])
        return tuple(strip_base(x) for x in t)
    return t


def _field_stores(P, relfile):
    """{(record, field): [(fn, node)]} for every store (=, op=, ++, --) to a struct member in the file."""
    out = {}
    for fn in P.funcs_in(relfile):
        for n in fn.body.walk():
            tgt = None
            if is_assign(n):
                tgt = n.c[0].strip()
            elif n.k == "UnaryOperator" and n.op in ("++", "--"):
                tgt = n.c[0].strip()
            if tgt is not None and tgt.k == "MemberExpr":
                out.setdefault((tgt.get("rec"), tgt.name), []).append((fn, n))
    return out


def _is_accessor(g):
    """a helper whose body is a single `return <expression>;` (a named sub-expression of its callers)"""
    try:
        kids = [x for x in g.body.c if x is not None]
        return len(kids) == 1 and kids[0].k == "ReturnStmt"
    except Exception:
        return False


def _canon_for(P, fn):
    """Canon of fn with same-file accessors read as the expressions they stand for"""
    memo = P.__dict__.setdefault("_memo", {}).setdefault("arrays_canon", {})
    k = (fn.file, fn.name)
    if k not in memo:
        cz = None
        if any(c.callee and any(g.static and g.file == fn.file and _is_accessor(g) for g in P.by_name.get(c.callee, [])) for c in fn.calls()):
            try:
                cz = Canon(P.inlined(fn, 2))
            except Exception:
                cz = None
        memo[k] = cz or Canon(fn)
    return memo[k]


def file_invariants(P, relfile):
    """{base-stripped canonical expr over struct members: smallest K} from validation guards
    `E > K` / `E >= K` with an error exit.

    Such a guard is an invariant for *other* functions only when the members it mentions are
    stable: every store to them in the file sits in the validating function, before the guard
    (parse, store, validate - the header idiom). A member that is also incremented or assigned
    elsewhere (a stack depth, a position) is not covered by this rule; those are bounded by
    field_upper_bounds or by a dominating guard in the using function. Guards over parameters or
    locals say nothing about another function and are ignored."""
    inv = {}
    stores = _field_stores(P, relfile)
    for fn0 in P.funcs_in(relfile):
        # helpers are expanded: a validation written as `if (!geometry_is_valid(dec->a, dec->b)) return ERR;`
        # contributes the rejections of the predicate, spelled over the caller's members
        fn = P.inlined(fn0, 2) if any(c.callee and any(g.static and g.file == fn0.file and ((g.ret or "").strip() in ("_Bool", "bool") or _is_accessor(g))
                                                      for g in P.by_name.get(c.callee, [])) for c in fn0.calls()) else fn0
        cz = Canon(fn)
        for n in fn.body.walk():
            if n.k != "IfStmt":
                continue
            kids = [x for x in n.c if x is not None]
            if not any(r.k == "ReturnStmt" for r in kids[1].walk()) and \
                    not any(c.k == "CallExpr" and c.callee == "set_error" for c in kids[1].walk()):
                continue
            # split || chains
            conds = []

            def split(c):
                c = c.strip()
                if c.k == "BinaryOperator" and c.op == "||":
                    split(c.c[0])
                    split(c.c[1])
                elif c.k == "UnaryOperator" and c.op == "!" and c.c[0].strip().k in ("InlinedCall", "ParenExpr"):
                    conds.extend(_predicate_rejections(c.c[0].strip()))
                else:
                    conds.append(c)
            split(kids[0])
            for c in conds:
                if c.k != "BinaryOperator" or c.op not in (">", ">="):
                    continue
                if c.c[1].cv is None:
                    continue
                lhs, shift = c.c[0], 0
                # single-comparison range test `(unsigned)E - c >= K` (rejects E < c and E >= K + c):
                # afterwards c <= E <= K + c - 1
                l0 = lhs.strip_casts()
                if l0.k == "BinaryOperator" and l0.op == "-" and l0.c[1].cv is not None and l0.c[1].cv >= 0 \
                        and "unsigned" in _cty(l0.t) and _no_truncation(lhs) and _no_truncation(l0.c[0]):
                    lhs, shift = l0.c[0].strip_casts(), l0.c[1].cv
                elif lhs.strip().k == "CStyleCastExpr" and "unsigned" in _cty(lhs.strip().t) and _no_truncation(lhs):
                    lhs = l0        # `(unsigned)E >= K` rejects negatives and E >= K alike
                members = [(m.get("rec"), m.name) for m in lhs.walk() if m.k == "MemberExpr"]
                if not members:
                    continue
                if any(x.k in ("DeclRefExpr",) and x.get("dk") in ("local", "param") and "*" not in (x.t or "")
                       for x in lhs.walk()):
                    continue    # mixes in a local/parameter value: not a property of the object
                stable = True
                for key in members:
                    for sfn, sn in stores.get(key, []):
                        if sfn.key() != fn0.key() or sn.i > n.i:
                            stable = False
                if not stable:
                    continue
                K = (c.c[1].cv if c.op == ">" else c.c[1].cv - 1) + shift     # E <= K afterwards
                e = strip_base(cz(lhs))
                inv[e] = min(inv.get(e, K), K)
    return inv


class _Leaf:
    """A comparison `E > K` synthesised from a predicate's `return E <= K` (accepted iff E <= K)."""
    k = "BinaryOperator"

    def __init__(self, op, lhs, rhs):
        self.op, self.c = op, [lhs, rhs]

    def strip(self):
        return self


def _predicate_rejections(inl):
    """Conditions under which an expanded bool helper answers false: the conditions of its
    `if (C) return false;` statements and the negation of a final `return A <= K` / `return A < K`."""
    out = []
    for n in inl.walk():
        if n.k == "IfStmt":
            kids = [x for x in n.c if x is not None]
            rets = [r for r in kids[1].walk() if r.k == "ReturnStmt"]
            if rets and all(r.c and r.c[0] is not None and r.c[0].cv == 0 for r in rets):
                def sp(c):
                    c = c.strip()
                    if c.k == "BinaryOperator" and c.op == "||":
                        sp(c.c[0])
                        sp(c.c[1])
                    else:
                        out.append(c)
                sp(kids[0])
        elif n.k == "ReturnStmt" and n.c and n.c[0] is not None and n.c[0].cv is None:
            e = n.c[0].strip()
            if e.k == "BinaryOperator" and e.op in ("<=", "<") and e.c[1].cv is not None:
                out.append(_Leaf(">" if e.op == "<=" else ">=", e.c[0], e.c[1]))
    if inl.k == "ParenExpr":
        # a single-return helper became its expression: `return a <= K && b <= M` -> both bounds
        def sp2(c):
            c = c.strip()
            if c.k == "BinaryOperator" and c.op == "&&":
                sp2(c.c[0])
                sp2(c.c[1])
            elif c.k == "BinaryOperator" and c.op in ("<=", "<") and c.c[1].cv is not None:
                out.append(_Leaf(">" if c.op == "<=" else ">=", c.c[0], c.c[1]))
        if inl.c and inl.c[0] is not None:
            sp2(inl.c[0])
    return out


def array_len(node):
    b = node.c[0]
    if b.k == "ImplicitCastExpr" and b.get("ck") == "ArrayToPointerDecay":
        m = re.search(r"\[(\d+)\]", b.c[0].t or "")
        if m:
            return int(m.group(1)), b.c[0]
    return None, None


def check(ctx, fns, rule="R4.array", key_prefix="array-index", field_consts=None, skip_records=()):
    P = ctx.P
    n = 0
    invs = {}
    for fn in fns:
        rf = P.rel(fn.file)
        if rf not in invs:
            invs[rf] = file_invariants(P, rf)
        inv = invs[rf]
        # accessors of the same file (`mini_block_size(dec)` for `dec->block_size / dec->mini_blocks_per_block`) are read
        # as the expression they stand for
        if any(c.callee and any(g.static and g.file == fn.file and _is_accessor(g) for g in P.by_name.get(c.callee, [])) for c in fn.calls()):
            try:
                cz = Canon(P.inlined(fn, 2))
            except Exception:
                cz = Canon(fn)
        else:
            cz = Canon(fn)
        for node in fn.body.walk():
            if node.k != "ArraySubscriptExpr":
                continue
            L, arr = array_len(node)
            if L is None or node.c[1].cv is not None:
                continue
            if arr.strip_casts().k == "MemberExpr" and arr.strip_casts().get("rec") in skip_records:
                continue            # state of another component (e.g. the encoder), decided elsewhere
            n += 1
            idx = node.c[1].strip_casts()
            post = False
            if idx.k == "UnaryOperator" and idx.op == "++" and idx.get("post"):
                idx = idx.c[0].strip_casts()
                post = True
            aname = src(arr)
            key = "%s|%s:%s|%s[%s]" % (key_prefix, rf, fn.name, aname.split("->")[-1].split(".")[-1], src(idx))
            what = "index `%s` of %s[%d] is below %d" % (src(idx), aname, L, L)
            how = _bound(P, fn, cz, node, idx, L, inv, field_consts or {})
            if how is True or isinstance(how, str) and how.startswith("ok:"):
                ctx.ok(rule, key, P.where(node), what, how[3:] if isinstance(how, str) else "")
            else:
                ctx.bad(rule, key, P.where(node), what, how or "no bound found")
    return n


def _idx_minus(idx):
    """idx of the form X - c  -> (X, c)"""
    if idx.k == "BinaryOperator" and idx.op == "-" and idx.c[1].cv is not None:
        return idx.c[0].strip_casts(), idx.c[1].cv
    return idx, 0


def _bound(P, fn, cz, node, idx, L, inv, field_consts):
    base, minus = _idx_minus(idx)
    itxt = src(base)
    w = fn.cfg.where()
    # (a) dominating constant guard in this function
    for g in fn.body.walk():
        if g.k not in ("IfStmt", "ForStmt", "WhileStmt"):
            continue
        if g.k == "IfStmt":
            kids = [x for x in g.c if x is not None]
            cond, then = kids[0], kids[1]
            c = cond.strip()
            leaves = []

            def split(c_):
                c_ = c_.strip()
                if c_.k == "BinaryOperator" and c_.op in ("||", "&&"):
                    split(c_.c[0])
                    split(c_.c[1])
                else:
                    leaves.append(c_)
            split(c)
            exits = any(r.k == "ReturnStmt" for r in then.walk()) or \
                any(x.k == "CallExpr" and x.callee == "set_error" for x in then.walk())
            for lf in leaves:
                if lf.k != "BinaryOperator" or lf.c[1].cv is None or src(lf.c[0].strip_casts()) != itxt:
                    continue
                K = lf.c[1].cv
                first = min((x for x in g.walk() if x.i in w), key=lambda x: x.i, default=None)
                if first is None or not fn.cfg.node_dominates(first, node):
                    continue
                inthen = any(x is node for x in then.walk())
                if exits and not inthen and lf.op == ">=" and K - minus <= L:
                    return "ok:guard `%s` exits first" % src(lf)
                if exits and not inthen and lf.op == ">" and K + 1 - minus <= L:
                    return "ok:guard `%s` exits first" % src(lf)
                if inthen and lf.op == "<" and K - minus <= L and c.k != "BinaryOperator" or \
                        (inthen and lf.op == "<" and K - minus <= L and c.op != "||"):
                    return "ok:inside `%s`" % src(lf)
                if inthen and lf.op == ">" and minus > 0 and K >= 0 and False:
                    pass
        else:
            cond = g.c[2] if g.k == "ForStmt" else g.c[-2]
            body = g.c[-1]
            if cond is None or not any(x is node for x in body.walk()):
                continue
            leaves = []

            def split2(c_):
                c_ = c_.strip()
                if c_.k == "BinaryOperator" and c_.op == "&&":
                    split2(c_.c[0])
                    split2(c_.c[1])
                else:
                    leaves.append(c_)
            split2(cond)
            for lf in leaves:
                if lf.k == "BinaryOperator" and lf.op == "<" and src(lf.c[0].strip_casts()) == itxt:
                    # index not modified in the body other than the loop increment/this post-increment
                    return _loop_bound(P, fn, cz, lf.c[1], L, minus, inv, field_consts, 2)
    # (d) refill idiom: `if (idx >= B) { refill(); }` where refill() resets idx to 0 and B <= L
    if base.k == "MemberExpr":
        for g in fn.body.walk():
            if g.k != "IfStmt":
                continue
            kids = [x for x in g.c if x is not None]
            c = kids[0].strip()
            refill_in_cond = []
            if c.k == "BinaryOperator" and c.op == "&&":
                # `if (idx >= B && !refill()) exit;`: the refill runs exactly when the index is exhausted
                refill_in_cond = [x for x in c.c[1].walk() if x.k == "CallExpr" and x.callee]
                c = c.c[0].strip()
            if c.k != "BinaryOperator" or c.op != ">=" or src(c.c[0].strip_casts()) != itxt:
                continue
            first = min((x for x in g.walk() if x.i in w), key=lambda x: x.i, default=None)
            if first is None or not fn.cfg.node_dominates(first, node) or any(x is node for x in kids[1].walk()):
                continue
            B = c.c[1].strip_casts()
            bk = None
            tB = strip_base(cz(B))
            if tB in inv:
                bk = inv[tB]
            elif _field_name(B) in field_consts:
                bk = field_consts[_field_name(B)]
            if bk is None or bk > L:
                continue
            resets = False
            for call in list(kids[1].walk()) + refill_in_cond:
                if call.k == "CallExpr" and call.callee:
                    for cal in P.by_name.get(call.callee, []):
                        if cal.file == fn.file and _resets_field(P, cal, base.name, 2):
                            resets = True
            exits = any(r.k == "ReturnStmt" for r in kids[1].walk())
            if resets and exits:
                return "ok:`if (%s) refill` resets %s to 0 (or returns); %s <= %d" % (src(c), base.name, src(B), bk)
    # (e) ensure idiom: `if (!ensure(dec)) <exit>;` dominates the access, and ensure() answers true only when
    # the index is below a bounded limit (it saw `idx < B`) or right after it was reset to 0 (a refill)
    if base.k == "MemberExpr":
        for g in fn.body.walk():
            if g.k != "IfStmt":
                continue
            kids = [x for x in g.c if x is not None]
            c = kids[0].strip_casts()
            neg = False
            while c is not None and c.k == "UnaryOperator" and c.op == "!":
                neg = not neg
                c = c.c[0].strip_casts()
            if c is None or c.k != "CallExpr" or not c.callee or not neg:
                continue
            if not any(r.k in ("ReturnStmt", "BreakStmt", "GotoStmt", "ContinueStmt") for r in kids[1].walk()):
                continue
            first = min((x for x in g.walk() if x.i in w), key=lambda x: x.i, default=None)
            if first is None or not fn.cfg.node_dominates(first, node) or any(x is node for x in kids[1].walk()):
                continue
            for h in P.by_name.get(c.callee, []):
                if h.file != fn.file or not h.static or h.cfg is None:
                    continue
                lim = _ensures_below(P, h, base.name, inv, field_consts, L, minus)
                if lim is not None:
                    return "ok:%s() answers true only with %s below %s or just reset to 0" % (h.name, base.name, lim)
    # access inside the right operand of `idx < K && ...` (any expression, not only an if-condition)
    for a in node.ancestors():
        if a.k == "BinaryOperator" and a.op == "&&" and any(x is node for x in a.c[1].walk()):
            lv = []

            def split3(c_):
                c_ = c_.strip()
                if c_.k == "BinaryOperator" and c_.op == "&&":
                    split3(c_.c[0])
                    split3(c_.c[1])
                else:
                    lv.append(c_)
            split3(a.c[0])
            for lf in lv:
                if lf.k == "BinaryOperator" and lf.op == "<" and lf.c[1].cv is not None and \
                        src(lf.c[0].strip_casts()) == itxt and lf.c[1].cv - minus <= L:
                    return "ok:right operand of `%s &&`" % src(lf)
    # a local that only caches a member (`const int level = dec->nesting_level;`): the member's
    # all-time bound holds for the cached copy as well
    from ..canon import info as _info
    seen = 0
    while base.k == "DeclRefExpr" and base.get("dk") == "local" and seen < 4:
        d0 = _info(fn).single_def(base.get("d"))
        if d0 is None:
            break
        base, m2 = _idx_minus(d0.strip_casts())
        minus += m2
        seen += 1
    # `x > 0` guard with index x - 1 and x bounded above by a guard elsewhere (nesting level idiom)
    if minus > 0:
        t = strip_base(cz(base))
        if t in inv and inv[t] - minus < L:
            return "ok:`%s` is validated <= %d" % (src(base), inv[t])
        fc = field_consts.get(_field_name(base))
        if fc is not None and fc - minus < L:
            return "ok:field `%s` only ever holds values <= %d" % (src(base), fc)
    t = strip_base(cz(base))
    if t in inv and inv[t] - minus < L:
        return "ok:`%s` is validated <= %d where it is set" % (src(base), inv[t])
    fc = field_consts.get(_field_name(base))
    if fc is not None and fc - minus < L:
        return "ok:field `%s` only ever holds values <= %d" % (src(base), fc)
    return None


def _loop_bound(P, fn, cz, N, L, minus, inv, field_consts, depth):
    """Is the loop bound N (an expression of fn) at most L + minus?  "ok:..." or the reason not."""
    if N.cv is not None:
        if N.cv - minus <= L:
            return "ok:loop bound %d" % N.cv
        return "loop bound %d exceeds the array length %d" % (N.cv, L)
    # (b) N matches a file invariant
    t = strip_base(cz(N))
    if t in inv:
        if inv[t] - minus <= L:
            return "ok:loop bound `%s` is validated <= %d where the header is parsed" % (src(N), inv[t])
        return "loop bound `%s` is only validated <= %d, the array holds %d" % (src(N), inv[t], L)
    # N is a struct field assigned from such an expression / constant
    fc = field_consts.get(_field_name(N))
    if fc is not None and fc <= L:
        return "ok:loop bound field `%s` only ever holds values <= %d" % (src(N), fc)
    ck = _clamped_local(fn, N)
    if ck is not None:
        if ck - minus <= L:
            return "ok:loop bound `%s` starts at %d and is only ever lowered" % (src(N), ck)
        return "loop bound `%s` may reach %d, the array holds %d" % (src(N), ck, L)
    # N is a parameter of a helper that never changes it: every call site's argument is the bound
    x = N.strip_casts()
    if depth > 0 and x.k == "DeclRefExpr" and x.get("dk") == "param" and fn.static:
        names = [q["n"] for q in fn.params]
        written = any((is_assign(n) or (n.k == "UnaryOperator" and n.op in ("++", "--", "&")))
                      and n.c[0].strip_casts().k == "DeclRefExpr" and n.c[0].strip_casts().get("d") == x.get("d")
                      and n.c[0].strip_casts().get("dk") == "param" for n in fn.body.walk())
        sites = []
        for g in P.functions.values():
            if g.file != fn.file:
                continue
            for c in g.calls():
                if c.callee == fn.name:
                    sites.append((g, c))
            if any(r.k == "DeclRefExpr" and r.name == fn.name and
                   not (r.parent is not None and r.parent.k in ("ImplicitCastExpr",) and r.parent.parent is not None
                        and r.parent.parent.k == "CallExpr" and r.parent.parent.c[0] is r.parent)
                   for r in g.body.walk()):
                sites.append(None)      # address taken: callers unknown
        if not written and sites and None not in sites and x.name in names:
            pi = names.index(x.name)
            hows = []
            for g, c in sites:
                if pi >= len(c.args()):
                    return "call of %s at line %s passes no argument %d" % (fn.name, c.l, pi)
                h = _loop_bound(P, g, Canon(g), c.args()[pi], L, minus, inv, field_consts, depth - 1)
                if not (isinstance(h, str) and h.startswith("ok:")):
                    return "loop bound `%s` is parameter %d of %s; at its call in %s: %s" % (src(N), pi, fn.name, g.name, h)
                hows.append("%s: %s" % (g.name, h[3:]))
            return "ok:loop bound `%s` is parameter %d of this helper; at every call site (%s)" % (src(N), pi, "; ".join(hows))
    return "loop bound `%s` (%s) has no validation guard `... > K -> error` with K <= %d in this file" % (
        src(N), show(t), L)


def _ensures_below(P, h, field, inv, field_consts, L, minus, depth=0):
    """In helper h: no path reaches `return <non-zero>` without either the branch outcome `field < B`
    (B bounded by <= L) or a reset of `field` to 0 (in h or in a function of the file it calls)."""
    from .flow import find_path_avoiding
    cz = Canon(h)
    limits = []

    def bound_of(B):
        tB = strip_base(cz(B))
        if B.cv is not None:
            return B.cv
        if tB in inv:
            return inv[tB]
        return field_consts.get(_field_name(B))

    def resets(e):
        if is_assign(e) and e.op == "=" and e.c[0].strip().k == "MemberExpr" and e.c[0].strip().name == field and e.c[1].cv == 0:
            return True
        if e.k == "CallExpr" and e.callee:
            return any(cal.file == h.file and cal.key() != h.key() and _resets_field(P, cal, field, 2) for cal in P.by_name.get(e.callee, []))
        return False

    def cut(B, si):
        if B.cond is None or len(B.succs) != 2:
            return False
        c = B.cond.strip_casts()
        neg = False
        while c is not None and c.k == "UnaryOperator" and c.op == "!":
            neg = not neg
            c = c.c[0].strip_casts()
        if c is None or c.k != "BinaryOperator" or c.op not in ("<", ">="):
            return False
        l = c.c[0].strip_casts()
        if l.k != "MemberExpr" or l.name != field:
            return False
        bk = bound_of(c.c[1].strip_casts())
        if bk is None or bk - minus > L:
            return False
        holds_below = ((si == 0) != neg) if c.op == "<" else ((si == 0) == neg)
        if holds_below:
            limits.append(src(c.c[1]))
        return holds_below
    trues = [r for r in h.returns() if r.c and r.c[0] is not None and r.c[0].cv not in (0, None)]
    other = [r for r in h.returns() if r.c and r.c[0] is not None and r.c[0].cv is None]
    # `return refill(dec);`: true only when that helper is, and the helper has the same property
    for r in other:
        x = r.c[0].strip_casts()
        sub = None
        if x.k == "CallExpr" and x.callee and depth < 3:
            for g in P.by_name.get(x.callee, []):
                if g.file == h.file and g.cfg is not None and g.key() != h.key():
                    sub = _ensures_below(P, g, field, inv, field_consts, L, minus, depth + 1)
        if sub is None:
            return None
        limits.append(sub)
    if not trues and not other:
        return None
    for r in trues:
        if find_path_avoiding(h.cfg, resets, lambda e, r=r: e is r, cut) is not None:
            return None
    return limits[0] if limits else "its limit"


def _field_name(n):
    x = n.strip_casts()
    return x.name if x.k == "MemberExpr" else None


def field_upper_bounds(P, relfiles, record, inv=None):
    """{field: max value} for integer fields of `record` whose every store in the files is a
    constant, `= 0`, or a guarded increment (x++ under x < K / after x >= K exit)."""
    stores = {}
    for fn in P.funcs_in(*relfiles):
        for n in fn.body.walk():
            tgt = None
            kind = None
            if is_assign(n):
                tgt = n.c[0].strip()
                kind = n.op
            elif n.k == "UnaryOperator" and n.op in ("++", "--"):
                tgt = n.c[0].strip()
                kind = n.op
            if tgt is None or tgt.k != "MemberExpr" or tgt.get("rec") != record:
                continue
            stores.setdefault(tgt.name, []).append((fn, n, kind))
    out = {}
    for field, sts in stores.items():
        mx = 0
        ok = True
        for fn, n, kind in sts:
            if kind == "=" and n.c[1].cv is not None:
                mx = max(mx, n.c[1].cv)
            elif kind == "=" and inv is not None and strip_base(_canon_for(P, fn)(n.c[1])) in inv:
                mx = max(mx, inv[strip_base(_canon_for(P, fn)(n.c[1]))])
            elif kind == "--":
                pass
            elif kind == "++":
                # guarded by a dominating comparison of the same field with a constant
                K = None
                w = fn.cfg.where()
                for g in fn.body.walk():
                    if g.k == "IfStmt":
                        kids = [x for x in g.c if x is not None]
                        c = kids[0].strip()
                        if c.k == "BinaryOperator" and c.c[1].cv is not None and \
                                src(c.c[0].strip_casts()).endswith(field):
                            exits = any(r.k == "ReturnStmt" for r in kids[1].walk())
                            inthen = any(x is n for x in kids[1].walk())
                            first = min((x for x in g.walk() if x.i in w), key=lambda x: x.i, default=None)
                            if first is None or not fn.cfg.node_dominates(first, n):
                                continue
                            if exits and not inthen and c.op == ">=":
                                K = c.c[1].cv        # field < K before, <= K after ++
                            elif inthen and c.op == "<":
                                K = c.c[1].cv
                if K is None:
                    ok = False
                else:
                    mx = max(mx, K)
            else:
                ok = False
        if ok:
            out[field] = mx
    return out


def _resets_field(P, fn, field, depth):
    for n in fn.body.walk():
        if is_assign(n) and n.op == "=" and n.c[0].strip().k == "MemberExpr" and n.c[0].strip().name == field \
                and n.c[1].cv == 0:
            return True
    if depth > 0:
        for c in fn.calls():
            for cal in P.by_name.get(c.callee or "", []):
                if cal.file == fn.file and cal.key() != fn.key() and _resets_field(P, cal, field, depth - 1):
                    return True
    return False


def _clamped_local(fn, N):
    """A local initialised with a constant whose other stores only lower it (`if (.. N .. > ..) N = ..`)."""
    x = N.strip_casts()
    if x.k != "DeclRefExpr" or x.get("dk") != "local":
        return None
    d = x.get("d")
    init = None
    for n in fn.body.walk():
        if n.k == "DeclStmt":
            for dd, i in zip(n.get("decls", []), n.c):
                if dd.get("d") == d and i is not None and i.cv is not None:
                    init = i.cv
    if init is None:
        return None
    for n in fn.body.walk():
        tgt = None
        if is_assign(n):
            tgt = n.c[0].strip()
        elif n.k == "UnaryOperator" and n.op in ("++", "--", "&"):
            tgt = n.c[0].strip()
        if tgt is None or tgt.k != "DeclRefExpr" or tgt.get("d") != d:
            continue
        if n.k == "UnaryOperator" and n.op == "--":
            continue
        ok = False
        if is_assign(n) and n.op == "=":
            for anc in n.ancestors():
                if anc.k == "IfStmt":
                    c = [y for y in anc.c if y is not None][0].strip()
                    if c.k == "BinaryOperator" and c.op == ">" and any(
                            y.k == "DeclRefExpr" and y.get("d") == d for y in c.c[0].walk()):
                        # N (+ something) > LIMIT  ->  N = LIMIT - something : lowers N
                        ok = True
                    break
        if not ok:
            return None
    return init
