"""Semantic trace of the data-page finaliser.

`carquet_page_writer_finalize` is executed by the cursor-skeleton interpreter for a finite set of
writer configurations (level streams empty or not, CRC on/off, statistics on/off, codec
UNCOMPRESSED / SNAPPY). Buffers, the Thrift encoder primitives, the CRC and the codec are hooked
and recorded as events, so what is compared is *what the function does* - which bytes are appended
where, in which order, which values the header fields carry - not how the function is spelled
(helpers, goto cleanup, early returns, hoisted locals and field-writing helpers leave the trace
unchanged)."""
from . import sem
from .skeleton import Ptr, U, Sym

PW = "src/writer/page_writer.c"
THRIFT_W = ("thrift_write_struct_begin", "thrift_write_struct_end", "thrift_write_field_header",
            "thrift_write_i32", "thrift_write_i64", "thrift_write_binary", "thrift_write_bool",
            "thrift_write_byte", "thrift_write_i16", "thrift_write_double", "thrift_write_string",
            "thrift_write_list_begin", "thrift_write_field_stop")
SIZES = {"rep": 11, "def": 13, "val": 17}
CRCV = 0x1C0FFEE
COMPRESSED = 7


class Trace:
    def __init__(self, ret, events, outs):
        self.ret, self.events, self.outs = ret, events, outs

    def appends(self, dst=None):
        return [e for e in self.events if e[0] == "append" and (dst is None or e[1] == dst)]

    def header(self):
        """[(depth, field id, wire type, value event)] of the header struct written through the encoder."""
        out = []
        depth = 0
        pend = None
        for e in self.events:
            if e[0] == "thrift_write_struct_begin":
                depth += 1
                if pend is not None:
                    out.append((depth - 1, pend[1], pend[0], ("struct",)))
                    pend = None
            elif e[0] == "thrift_write_struct_end":
                depth -= 1
            elif e[0] == "thrift_write_field_header":
                pend = (e[1], e[2])
            elif e[0].startswith("thrift_write_") and pend is not None:
                out.append((depth, pend[1], pend[0], e))
                pend = None
        return out

    def field(self, depth, fid):
        for d, f, t, v in self.header():
            if d == depth and f == fid:
                return t, v
        return None


def trace(P, crc=False, stats=False, minmax=False, rep=True, deff=True, codec=0, num_values=321, encoding=8):
    fin = P.fn("carquet_page_writer_finalize", PW)
    wo = sem.field_offsets(P, "carquet_page_writer")
    bo = sem.field_offsets(P, "carquet_buffer")
    heap0 = {}
    for tag, member in (("rep", "rep_levels_buffer"), ("def", "def_levels_buffer"), ("val", "values_buffer")):
        on = {"rep": rep, "def": deff, "val": True}[tag]
        heap0[("pw", wo[member] + bo["data"])] = Ptr(tag, 0, 1) if on else 0
        heap0[("pw", wo[member] + bo["size"])] = SIZES[tag] if on else 0
    heap0[("pw", wo["page_buffer"] + bo["data"])] = 0
    heap0[("pw", wo["page_buffer"] + bo["size"])] = 99       # stale bytes of the previous page
    # any further buffer the writer owns (a scratch buffer kept from page to page) still holds the previous page as well
    for f in P.record("carquet_page_writer")["fields"]:
        if "carquet_buffer" in (f.get("t") or "") and "*" not in f["t"] and f["n"] not in ("rep_levels_buffer", "def_levels_buffer", "values_buffer", "page_buffer") \
                and f.get("off") is not None:
            o = f["off"] // 8
            heap0[("pw", o + bo["data"])] = Ptr("scratch_" + f["n"], 0, 1)
            heap0[("pw", o + bo["size"])] = 77
            heap0[("pw", o + bo["capacity"])] = 1 << 20
            if "owns_data" in bo:
                heap0[("pw", o + bo["owns_data"])] = 1
    heap0[("pw", wo["compression"])] = codec
    heap0[("pw", wo["encoding"])] = encoding
    heap0[("pw", wo["num_values"])] = num_values
    heap0[("pw", wo["num_nulls"])] = 5
    heap0[("pw", wo["write_crc"])] = 1 if crc else 0
    heap0[("pw", wo["write_statistics"])] = 1 if stats else 0
    heap0[("pw", wo["has_min_max"])] = 1 if minmax else 0
    heap0[("pw", wo["min_max_size"])] = 4

    def bid(p):
        return (p.base, p.off) if isinstance(p, Ptr) else p

    def b_init(ev, a, it):
        if isinstance(a[0], Ptr):
            it.heap[(a[0].base, a[0].off + bo["data"])] = 0
            it.heap[(a[0].base, a[0].off + bo["size"])] = 0
        return None

    def b_clear(ev, a, it):
        if isinstance(a[0], Ptr):
            it.heap[(a[0].base, a[0].off + bo["size"])] = 0
        ev.append(("clear", bid(a[0])))
        return None

    def b_append(ev, a, it):
        ev.append(("append", bid(a[0]), bid(a[1]), a[2]))
        if isinstance(a[0], Ptr) and isinstance(a[2], int):
            k = (a[0].base, a[0].off + bo["size"])
            cur = it.heap.get(k, 0)
            it.heap[k] = cur + a[2] if isinstance(cur, int) else U
            it.heap[(a[0].base, a[0].off + bo["data"])] = Ptr("data@%s+%s" % (a[0].base, a[0].off), 0, 1)
        return 0

    chains = {}

    def crc_hook(update):
        # a CRC value is an opaque 32-bit term naming the byte ranges folded into it so far, in order
        def f(ev, a, it):
            prev, data, n = (a[0], a[1], a[2]) if update else (0, a[0], a[1])
            if isinstance(prev, Sym) and isinstance(prev.t, tuple) and prev.t[0] == "crc":
                segs = list(chains[prev.t[1]])
            elif prev == 0:
                segs = []
            else:
                raise sem.Inconclusive("CRC continued from a value that is not a CRC (%r)" % (prev,))
            if n != 0:
                segs.append((bid(data), n))
            k = len(chains) + 1
            chains[k] = segs
            ev.append(("crc", k, tuple(segs)))
            return Sym(("crc", k), 32)
        return f

    def codec_hook(ev, a, it):
        ev.append(("codec", bid(a[0]), a[1]))
        sem.set_out(it, a[4], COMPRESSED)
        return 0
    hooks = {"carquet_buffer_init": b_init, "carquet_buffer_clear": b_clear, "carquet_buffer_append": b_append,
             "carquet_buffer_destroy": lambda ev, a, it: ev.append(("destroy", bid(a[0]))),
             "carquet_crc32": crc_hook(False), "carquet_crc32_update": crc_hook(True),
             "thrift_encoder_init": lambda ev, a, it: ev.append(("enc-init", bid(a[1]))),
             "thrift_encoder_has_error": lambda ev, a, it: 0,
             "carquet_snappy_compress": codec_hook,
             "malloc": lambda ev, a, it: Ptr("scratch", 0, 1), "free": lambda ev, a, it: None}
    for w in THRIFT_W:
        hooks[w] = (lambda ev, a, it, w=w: ev.append((w,) + tuple(bid(x) for x in a[1:])))
    args = [Ptr("pw", 0, 1), Ptr("out_data", 0, 8), Ptr("out_size", 0, 8), Ptr("out_usize", 0, 4), Ptr("out_csize", 0, 4)]
    ret, ev, heap = sem.run(P, fin, args, heap0=heap0, hooks=hooks, single=True, max_forks=64, budget=400000)
    outs = {"data": heap.get(("out_data", 0)), "size": heap.get(("out_size", 0)),
            "usize": heap.get(("out_usize", 0)), "csize": heap.get(("out_csize", 0)),
            "page_buffer": ("pw", wo["page_buffer"]),
            "page_size": heap.get(("pw", wo["page_buffer"] + bo["size"]))}
    T = Trace(ret, ev, outs)
    T.chains = chains
    return T


def crc_chain(T, value):
    """The (source, size) ranges folded into the CRC value `value` (what the header's field 4 carries), or None
    when it is not a value the CRC routines returned."""
    t = value.t if isinstance(value, Sym) else None
    while isinstance(t, tuple) and t[0] == "cast":
        t = t[2]
    if isinstance(t, tuple) and t[0] == "crc":
        return list(T.chains[t[1]])
    return None
