"""R21: a refill step that gives up must say why (decoder loops terminate).

The streaming RLE/bit-packed decoder is driven by loops of the form
    while (produced < wanted && has_next(dec)) { if (need) { if (!refill(dec)) break; } ... }
where has_next(dec) is `status == OK && (run_remaining > 0 || pos < size)`. An iteration in which a
refill step returns false produces nothing and consumes nothing, so the loop condition must have
become false: either the step recorded an error in `status`, or it ran with nothing left in the
current run (`run_remaining <= 0`, where the only such exit is the end of the input). A false return
with values still owed by the current run and no error recorded leaves has_next() true for ever.

The rule, over clang's CFG of every bool-returning static function of the file that takes the
decoder: no path reaches `return false` unless it passed a store of a non-OK constant to the status
member, or the fact `run_remaining <= 0` holds there. The fact comes from branch edges on the path
(`run_remaining <= 0` true, `> 0` false, `== 0` true, ...) or from the call sites (every call of the
function sits where the fact holds); it dies when run_remaining is assigned or the decoder is handed
to another function. A false return that merely passes on the false return of another refill step
(`if (!load_value(dec)) return false;`) is covered by that step's own obligations."""
from ..facts import src
from ..util import is_assign
from .flow import describe_path


def _member(n, field):
    x = n.strip_casts() if n is not None else None
    return x is not None and x.k == "MemberExpr" and x.name == field


def _edge_fact(cond, truth, field):
    """True when the branch outcome establishes `field <= 0`; False when it refutes it; None otherwise."""
    c = cond.strip_casts()
    neg = False
    while c is not None and c.k == "UnaryOperator" and c.op == "!":
        neg = not neg
        c = c.c[0].strip_casts()
    if c is None:
        return None
    if _member(c, field):
        # truth value of the counter itself: non-zero
        nonzero = truth != neg
        return not nonzero
    if c.k != "BinaryOperator" or c.op not in ("<", "<=", ">", ">=", "==", "!="):
        return None
    l, r = c.c[0], c.c[1]
    op = c.op
    if _member(r, field) and l.cv is not None:
        l, r = r, l
        op = {"<": ">", "<=": ">=", ">": "<", ">=": "<=", "==": "==", "!=": "!="}[op]
    if not (_member(l, field) and r.cv is not None):
        return None
    if truth == neg:
        op = {"<": ">=", "<=": ">", ">": "<=", ">=": "<", "==": "!=", "!=": "=="}[op]
    k = r.cv
    if (op == "<=" and k <= 0) or (op == "<" and k <= 1) or (op == "==" and k == 0):
        return True
    if (op == ">" and k >= 0) or (op == ">=" and k >= 1):
        return False
    return None


def _search(fn, targets, field, status_field, rec_param_decls, entry_fact, refill_names=()):
    """Paths from the entry to a node of `targets` that pass no error store and arrive without the fact.
    Returns {target node id: block path}."""
    cfg = fn.cfg
    found = {}
    seen = set()
    stack = [(cfg.entry, 0, bool(entry_fact), (cfg.entry,))]
    tids = set(t.i for t in targets)
    while stack:
        bid, idx, fact, path = stack.pop()
        if (bid, idx, fact) in seen:
            continue
        seen.add((bid, idx, fact))
        B = cfg.blocks[bid]
        blocked = False
        for e in B.elems[idx:]:
            if e.i in tids:
                if not fact and e.i not in found:
                    found[e.i] = list(path)
                if e.k == "ReturnStmt":
                    blocked = True
                    break
            if is_assign(e) and _member(e.c[0], status_field) and e.op == "=" and e.c[1].cv not in (0, None):
                blocked = True          # an error is recorded: whatever follows is accounted for
                break
            if (is_assign(e) or (e.k == "UnaryOperator" and e.op in ("++", "--"))) and _member(e.c[0], field):
                fact = bool(e.k == "BinaryOperator" and e.op == "=" and e.c[1].cv is not None and e.c[1].cv <= 0)
            elif e.k == "CallExpr" and e.callee and e.i not in tids and any(
                    x.k == "DeclRefExpr" and x.get("d") in rec_param_decls for a in e.args() for x in a.walk()):
                fact = False            # another function of the decoder may start a new run
        if blocked:
            continue
        for si, s in enumerate(B.succs):
            if s is None:
                continue
            f2 = fact
            if B.cond is not None and B.tk != "SwitchStmt" and len(B.succs) == 2:
                c_ = B.cond.strip_casts()
                neg_ = False
                while c_ is not None and c_.k == "UnaryOperator" and c_.op == "!":
                    neg_ = not neg_
                    c_ = c_.c[0].strip_casts()
                if c_ is not None and c_.k == "CallExpr" and c_.callee in refill_names and (si == 0) == neg_:
                    continue        # another refill step returned false: its own obligations account for that
                ef = _edge_fact(B.cond, si == 0, field)
                if ef is not None:
                    f2 = ef
            stack.append((s, 0, f2, path + (s,)))
    return found


def check(ctx, relfile, record, field="run_remaining", status_field="status", rule="R21.progress", key_prefix="progress"):
    P = ctx.P
    fns = P.funcs_in(relfile)
    refills = []
    for f in fns:
        if not f.static or f.cfg is None or f.ret not in ("_Bool", "bool"):
            continue
        decls = [p["d"] for p in f.params if record in (p.get("t") or "") and "*" in (p.get("t") or "")]
        if not decls:
            continue
        falses = [r for r in f.returns() if r.c and r.c[0] is not None and r.c[0].cv == 0]
        if falses:
            refills.append((f, decls, falses))
    n = 0
    for f, decls, falses in refills:
        # the fact at entry: holds when every call site of f has it
        entry = True
        sites = 0
        for g in fns:
            calls = [c for c in g.calls() if c.callee == f.name]
            if not calls or g.cfg is None:
                continue
            sites += len(calls)
            gdecls = [p["d"] for p in g.params if record in (p.get("t") or "") and "*" in (p.get("t") or "")]
            if _search(g, calls, field, "\0none", gdecls, False):
                entry = False
        if sites == 0:
            entry = False
        bad = _search(f, falses, field, status_field, decls, entry, set(x[0].name for x in refills) - {f.name})
        for r in falses:
            n += 1
            key = "%s|%s:%s|L%d" % (key_prefix, relfile, f.name, sorted(x.i for x in falses).index(r.i))
            what = ("a false return of %s either follows a recorded error or happens with nothing owed by the current run "
                    "(%s <= 0%s)" % (f.name, field, "; holds at every call site" if entry else ""))
            if r.i in bad:
                ctx.bad(rule, key, P.where(r), what,
                        "path without an error store on which %s may still be positive: %s" % (field, describe_path(f, f.cfg, bad[r.i])),
                        witness={"blocks": bad[r.i][-40:]})
            else:
                ctx.ok(rule, key, P.where(r), what)
    return n, len(refills)
