"""R44: a 64-bit length taken from the input does not reach `position + length` unbounded.

`pos + n <= size` is the library's availability test (carquet_buffer_reader_has and the helpers that hand their
length on to it). In 64 bits it is only a test if n cannot make the sum wrap: n = 2^64 - pos gives 0 <= size.
R24 covers sums computed in 32 bits; this rule covers the 64-bit case, across helpers:

  wrap-prone parameter   a 64-bit unsigned parameter n of a function that compares `x + n` relationally with something,
                         or passes n (possibly cast) as the wrap-prone argument of such a function (fixed point);
  site                   every call that hands a value to a wrap-prone parameter, and every relational comparison in a
                         function body with `x + v` on one side, v a 64-bit local;
  bounded                a constant or sizeof; an expression whose type before the widening conversion has at most
                         32 bits (the conversion of an unsigned one cannot exceed 2^32; a signed one is C08.9's
                         business - the sign check - and is not judged here); sums and products of bounded things;
                         a local all of whose values are bounded; a 64-bit local that a dominating relational test
                         against anything compares first;
  violation              a 64-bit local one of whose values is the result of a routine that decodes a 64-bit integer
                         from the input (LEB128 / zigzag readers, 64-bit little-endian readers), reaching the site
                         with no relational test of it on some path: the witness is n = 2^64 - pos;
  not judged             anything else (a parameter of the function itself makes the function wrap-prone instead).
"""
import re
from ..facts import src
from ..util import is_assign
from .flow import find_path_avoiding, describe_path

W64U = ("unsigned long", "size_t", "uint64_t", "unsigned long long")
W64 = W64U + ("long", "int64_t", "long long", "ptrdiff_t", "ssize_t", "off_t")
SOURCE = re.compile(r"varint|uleb|leb128|zigzag|read_[ui]64|read_le64|reader_read_[ui]64")
REL = ("<", "<=", ">", ">=")


def _bt(t):
    return (t or "").replace("const ", "").replace("volatile ", "").strip()


def _is64(t):
    return _bt(t) in W64


def _strip(n):
    return n.strip_casts() if n is not None else None


def _sum_operands(side):
    """operands of `a + b` (parens and casts aside) or None"""
    s = _strip(side)
    if s is not None and s.k == "BinaryOperator" and s.op == "+" and _is64(s.t):
        return [_strip(s.c[0]), _strip(s.c[1])]
    return None


def _comparisons(fn):
    for n in fn.body.walk():
        if n.k == "BinaryOperator" and n.op in REL:
            for side in (n.c[0], n.c[1]):
                ops = _sum_operands(side)
                if ops:
                    yield n, ops


def wrap_prone(P):
    """{(function name, file): set(parameter indices)}"""
    memo = P.__dict__.setdefault("_memo", {})
    if "wrapsum" in memo:
        return memo["wrapsum"]
    prone = {}
    fns = [f for f in P.lib_functions() if f.body is not None]
    for f in fns:
        pd = {q.get("d"): i for i, q in enumerate(f.params) if _bt(q.get("t")) in W64U}
        if not pd:
            continue
        for cmp_, ops in _comparisons(f):
            for o in ops:
                if o.k == "DeclRefExpr" and o.get("dk") == "param" and o.get("d") in pd and not _stored(f, o.get("d")):
                    prone.setdefault((f.name, f.file), set()).add(pd[o.get("d")])
    changed = True
    rounds = 0
    while changed and rounds < 6:
        changed = False
        rounds += 1
        for f in fns:
            pd = {q.get("d"): i for i, q in enumerate(f.params) if _bt(q.get("t")) in W64U}
            if not pd:
                continue
            for c in f.calls():
                for g in P.by_name.get(c.callee or "", []):
                    for idx in prone.get((g.name, g.file), ()):
                        args = c.args()
                        if idx < len(args):
                            a = _strip(args[idx])
                            if a is not None and a.k == "DeclRefExpr" and a.get("dk") == "param" and a.get("d") in pd and not _stored(f, a.get("d")):
                                s = prone.setdefault((f.name, f.file), set())
                                if pd[a.get("d")] not in s:
                                    s.add(pd[a.get("d")])
                                    changed = True
    memo["wrapsum"] = prone
    return prone


def _stored(fn, d):
    for n in fn.body.walk():
        if (is_assign(n) or (n.k == "UnaryOperator" and n.op in ("++", "--"))):
            t = _strip(n.c[0])
            if t is not None and t.k == "DeclRefExpr" and t.get("d") == d:
                return True
    return False


def _defs(fn, d):
    out = []
    for n in fn.body.walk():
        if n.k == "DeclStmt":
            for dd, init in zip(n.get("decls", []), n.c):
                if dd.get("d") == d:
                    out.append((n, init))
        elif is_assign(n):
            t = _strip(n.c[0])
            if t is not None and t.k == "DeclRefExpr" and t.get("d") == d:
                out.append((n, n.c[1] if n.op == "=" else None))
        elif n.k == "CallExpr":
            for a in n.args():
                x = _strip(a)
                if x is not None and x.k == "UnaryOperator" and x.op == "&":
                    y = _strip(x.c[0])
                    if y is not None and y.k == "DeclRefExpr" and y.get("d") == d:
                        out.append((n, n))
    return out


def _inner_type(e):
    """type of the expression under implicit and explicit integer conversions"""
    x = e
    while x is not None and x.k in ("ImplicitCastExpr", "CStyleCastExpr", "ParenExpr") and x.c:
        x = x.c[0] if x.k != "CStyleCastExpr" else x.c[-1]
    return x


def classify(P, fn, e, depth=0):
    """'bounded' | ('input', description, def node, decl) | 'unknown'"""
    if e is None:
        return "unknown"
    if e.cv is not None:
        return "bounded"
    x = _inner_type(e)
    if x is None:
        return "unknown"
    if x.cv is not None or x.k == "UnaryExprOrTypeTraitExpr":
        return "bounded"
    if not _is64(x.t):
        return "bounded"          # at most 32 bits before the widening (sign handled by C08.9)
    if x.k == "BinaryOperator" and x.op in ("+", "*"):
        a, b = classify(P, fn, x.c[0], depth + 1), classify(P, fn, x.c[1], depth + 1)
        if a == "bounded" and b == "bounded":
            return "bounded"
        for r in (a, b):
            if isinstance(r, tuple):
                return r
        return "unknown"
    if x.k == "BinaryOperator" and x.op in ("&", "%", ">>", "/"):
        return "bounded" if x.op in ("&", "%") else "unknown"
    if x.k == "CallExpr" and x.callee and SOURCE.search(x.callee):
        return ("input", "the result of %s" % x.callee, x, None)
    if x.k == "DeclRefExpr" and x.get("dk") == "local" and depth < 3:
        d = x.get("d")
        res = []
        for node, init in _defs(fn, d):
            if init is None:
                res.append("unknown")
            elif init is node and node.k == "CallExpr":
                res.append(("input", "filled by %s" % node.callee, node, d) if node.callee and SOURCE.search(node.callee) else "unknown")
            else:
                r = classify(P, fn, init, depth + 1)
                if isinstance(r, tuple) and r[3] is None:
                    r = (r[0], r[1], node, d)
                res.append(r)
        if res and all(r == "bounded" for r in res):
            return "bounded"
        for r in res:
            if isinstance(r, tuple):
                return (r[0], r[1], r[2], d)
        return "unknown"
    return "unknown"


def _tests(e, d):
    """does CFG element e relationally test the variable d (or hand it to a call that may)?"""
    for y in e.walk():
        if y.k == "BinaryOperator" and y.op in REL:
            for s in (y.c[0], y.c[1]):
                z = _strip(s)
                if z is not None and z.k == "DeclRefExpr" and z.get("d") == d:
                    return True
    return False


def _path_text(fn, path):
    d = describe_path(fn, fn.cfg, path)
    if isinstance(d, (list, tuple)):
        d = "; ".join(str(x) for x in d) or "the straight path"
    return d


def check(ctx, relfiles, rule="R44.wrap-sum", key_prefix="wrap-sum"):
    P = ctx.P
    prone = wrap_prone(P)
    n = 0
    idx = {}
    for fn in P.funcs_in(*relfiles):
        if fn.body is None or fn.cfg is None:
            continue
        sites = []
        for c in fn.calls():
            for g in P.by_name.get(c.callee or "", []):
                for pi in sorted(prone.get((g.name, g.file), ())):
                    if pi < len(c.args()):
                        sites.append((c, c.args()[pi], "`%s` adds its argument %d to a position before comparing" % (g.name, pi + 1)))
                break
        for cmp_, ops in _comparisons(fn):
            for o in ops:
                if o.k == "DeclRefExpr" and o.get("dk") == "local" and _is64(o.t):
                    sites.append((cmp_, o, "the guard `%s` adds it to a position" % src(cmp_)[:50]))
        for node, arg, why in sites:
            r = classify(P, fn, arg)
            if r == "unknown":
                ctx.count("wrap_sum_sites_not_judged", 1)
                continue
            n += 1
            k0 = "%s|%s:%s|%s" % (key_prefix, P.rel(fn.file), fn.name, src(_strip(arg))[:24])
            idx[k0] = idx.get(k0, -1) + 1
            key = k0 + ("#%d" % idx[k0] if idx[k0] else "")
            what = "the length `%s` cannot make a 64-bit `position + length` wrap where %s" % (src(_strip(arg))[:30], why)
            if r == "bounded":
                ctx.ob(rule, key, P.where(node), what, True)
                continue
            _, desc, defnode, d = r
            path = None
            if d is not None and defnode is not None:
                w = fn.cfg.where()
                start = min((x for x in defnode.walk() if x.i in w), key=lambda x: x.i, default=None)
                target = min((x for x in node.walk() if x.i in w), key=lambda x: x.i, default=None)
                if start is not None and target is not None:
                    from .flow import after_reaches
                    path = after_reaches(fn.cfg, start, lambda e: e.i == target.i or any(y.i == target.i for y in e.walk()),
                                         lambda e: _tests(e, d) and not any(y is node for y in e.walk()))
                    if path is None:
                        ctx.ob(rule, key, P.where(node), what + " (every path from its decoding tests it first)", True)
                        continue
            ctx.ob(rule, key, P.where(node), what, False,
                   "`%s` is %s, a 64-bit value from the input, and reaches this point untested%s: with length = 2^64 - position the sum is 0 and the test passes"
                   % (src(_strip(arg))[:30], desc, (" along " + _path_text(fn, path)) if path else ""))
    return n
