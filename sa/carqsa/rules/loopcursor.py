"""R40: what a loop iteration reads through a cursor, it also steps over before the next iteration.

A cursor of a loop is a local pointer or index that the loop both reads through (`*p`, `p[i]`, `buf[pos]`, or handed
to a callee as the place to read from) and advances (`p += n`, `p++`, `pos = pos + n`, `&pos` handed to a callee).
If some path leads from a read through the cursor back to the loop's next iteration without any store to the
cursor, that iteration and the next one read the same input while everything else (the group counter, the
output position) has moved on: the second result is a copy of the first. Paths that leave the loop are not
judged, and a path on which nothing was read through the cursor is not either (a `continue` for a skipped
element is fine).

The loop considered for a read is the innermost loop that contains both the read and an advance of the cursor."""
from ..facts import src
from ..util import is_assign
from .flow import after_reaches, describe_path

LOOPS = ("ForStmt", "WhileStmt", "DoStmt")


def _stores_to(n, d):
    """Does CFG element / AST node n store to the variable d (assignment, ++/--, or its address handed to a call)?"""
    if is_assign(n) or (n.k == "UnaryOperator" and n.op in ("++", "--")):
        t = n.c[0].strip()
        return t.k == "DeclRefExpr" and t.get("d") == d
    if n.k == "CallExpr":
        for a in n.args():
            x = a.strip_casts() if a is not None else None
            if x is not None and x.k == "UnaryOperator" and x.op == "&":
                y = x.c[0].strip_casts()
                if y.k == "DeclRefExpr" and y.get("d") == d:
                    return True
    if n.k == "DeclStmt":
        # a cursor declared (and initialised) inside the loop body is a fresh value every iteration
        return any(dd.get("d") == d for dd in n.get("decls", []))
    return False


def _reads_through(n, d, P):
    """n reads input at the position held in d: *d, d[i], X[d] as an rvalue, or d (a pointer) handed to a callee whose
    parameter is a pointer to const."""
    if n.k == "UnaryOperator" and n.op == "*":
        x = n.c[0].strip_casts()
        return x.k == "DeclRefExpr" and x.get("d") == d and _is_rvalue(n)
    if n.k == "ArraySubscriptExpr":
        b, i = n.c[0].strip_casts(), n.c[1].strip_casts()
        if b.k == "DeclRefExpr" and b.get("d") == d and "*" in (b.t or ""):
            return _is_rvalue(n)
        if i.k == "DeclRefExpr" and i.get("d") == d:
            return _is_rvalue(n)
        return False
    if n.k == "CallExpr" and n.callee:
        for ai, a in enumerate(n.args()):
            x = a.strip_casts() if a is not None else None
            if x is not None and x.k == "DeclRefExpr" and x.get("d") == d and "*" in (x.t or ""):
                for g in P.by_name.get(n.callee, []):
                    if ai < len(g.params) and "const " in g.params[ai]["t"].split("*")[0]:
                        return True
    return False


def _is_rvalue(n):
    p = n.parent
    while p is not None and p.k in ("ParenExpr",):
        p = p.parent
    if p is None:
        return True
    if p.k == "ImplicitCastExpr" and p.get("ck") == "LValueToRValue":
        return True
    if is_assign(p) and p.c[0].strip() is n:
        return p.op != "="          # compound assignment reads as well
    if p.k == "UnaryOperator" and p.op in ("&", "++", "--"):
        return False
    return p.k == "ImplicitCastExpr"


def check(ctx, fns, rule="R40.loop-cursor", key_prefix="loop-cursor"):
    P = ctx.P
    n = 0
    for fn in fns:
        if fn.body is None or fn.cfg is None:
            continue
        w = fn.cfg.where()
        loops = [l for l in fn.body.walk() if l.k in LOOPS]
        if not loops:
            continue
        # candidate cursors: locals (and by-value parameters) stored to inside some loop
        cands = {}
        for l in loops:
            ids = None
            for x in l.walk():
                if is_assign(x) or (x.k == "UnaryOperator" and x.op in ("++", "--")):
                    t = x.c[0].strip()
                    if t.k == "DeclRefExpr" and t.get("dk") in ("local", "param") and t.get("d") is not None:
                        # the loop's own induction variable (stepped in the for-increment) is not a cursor of this rule
                        if l.k == "ForStmt" and l.c[3] is not None and any(y is x for y in l.c[3].walk()):
                            continue
                        cands.setdefault(t.get("d"), (t.name, []))[1].append(l)
        idx = {}
        ptr_types = {}
        for x in fn.body.walk():
            if x.k == "DeclRefExpr" and x.get("d") in cands:
                ptr_types[x.get("d")] = x.t or ""
        for d, (name, ls) in cands.items():
            if "*" not in ptr_types.get(d, ""):
                continue        # index cursors may address sub-element positions (bit cursors): pointers only
            for l in fn.body.walk():
                if l.k not in LOOPS:
                    continue
            reads = [r for r in fn.body.walk() if _reads_through(r, d, P) and r.i in w]
            for r in reads:
                # innermost loop containing the read and a store to d
                L = None
                for a in r.ancestors():
                    if a.k in LOOPS and any(_stores_to(x, d) for x in a.walk()):
                        L = a
                        break
                if L is None:
                    continue
                inside = set(x.i for x in L.walk())
                if L.k == "ForStmt":
                    latch = [x for x in (L.c[3], L.c[2]) if x is not None]
                elif L.k == "WhileStmt":
                    latch = [[x for x in L.c if x is not None][0]]
                else:
                    latch = [[x for x in L.c if x is not None][-1]]
                if not latch:
                    continue
                latch_ids = set(y.i for y in latch[0].walk())
                # the read itself may sit in the latch / condition (`while (*p++ ...)`): then the same element advances
                if r.i in latch_ids:
                    continue
                # the loop's own induction variable: stepped by the for-increment on every iteration
                if L.k == "ForStmt" and L.c[3] is not None and any(_stores_to(y, d) for y in L.c[3].walk()):
                    continue
                n += 1
                k0 = "%s|%s:%s|%s" % (key_prefix, P.rel(fn.file), fn.name, name)
                idx[k0] = idx.get(k0, -1) + 1
                key = "%s#%d" % (k0, idx[k0])
                what = "what the loop reads through `%s` (%s) is stepped over before its next iteration" % (name, src(r)[:40])
                path = after_reaches(fn.cfg, r, lambda e: e.i in latch_ids,
                                     lambda e: _stores_to(e, d) or any(_stores_to(y, d) for y in e.walk()) or e.i not in inside)
                # a store inside the same full expression as the read (`x = *p++`) counts: after_reaches starts after r
                if path is not None:
                    par = r
                    stmt_has_store = False
                    for a in r.ancestors():
                        if a.k in ("CompoundStmt",) + LOOPS or a.k == "IfStmt":
                            break
                        if any(_stores_to(y, d) for y in a.walk()):
                            stmt_has_store = True
                            break
                    if stmt_has_store:
                        path = None
                if path is not None:
                    # ... and from there a read through the cursor is reached before anything stores to it (a cursor that is
                    # recomputed at the top of every iteration was not carried over)
                    first = min((x for x in latch[0].walk() if x.i in w), key=lambda x: x.i, default=None)
                    again = None
                    if first is not None:
                        from .flow import find_path_avoiding
                        b_, i_ = w[first.i]
                        again = find_path_avoiding(fn.cfg, lambda e: _stores_to(e, d) or any(_stores_to(y, d) for y in e.walk()) or e.i not in inside,
                                                   lambda e: any(_reads_through(y, d, P) for y in e.walk()), None, (b_, i_))
                    if again is None:
                        path = None
                ctx.ob(rule, key, P.where(r), what, path is None,
                       "a path reaches the next iteration without any store to `%s`: %s" % (name, describe_path(fn, fn.cfg, path)) if path else "")
    return n
