"""R38: LEB128 / varint writers and readers, executed on the values where the encoding changes length.

Every unsigned varint in the formats carquet touches (Thrift compact, the RLE/bit-pack hybrid headers, the DELTA
headers, the Snappy preamble) is the same code: seven value bits per byte, least significant group first, the
high bit set on every byte but the last. A writer is a function of one integer; what it emits can change shape
only where the number of 7-bit groups changes, so it is executed abstractly for the values on either side of
every such boundary (2^(7k) - 1, 2^(7k), 2^(7k) + 1 for every k the argument type admits, plus 0 and the
maximum) with the growable-buffer API hooked, and the bytes it emitted are decoded by the definition above:
they must spell the value, end exactly there, and carry the continuation bit on every byte but the last.
A reader is fed the definition's bytes for the same values (followed by a sentinel) and must return the value
and consume exactly those bytes. `thrift_write_binary` is included for its length prefix: the prefix must
spell the length and be followed by exactly that many payload bytes.

Writers and readers are found by name (`*write*varint*`, `*write*uleb128*`, `*read*varint*`, `*read*uleb128*`)
with an instance floor; their parameters are bound by type (byte pointer = output or input, a second byte
pointer = end of input, an integer = the value or the input size, pointers to integers = results, a pointer to
a record = an encoder / decoder object whose buffer members are bound to tracked buffers)."""
from . import sem
from .skeleton import Ptr, U

BYTE_PTR = ("uint8_t *", "unsigned char *", "char *")


def encode(v):
    out = []
    while v >= 0x80:
        out.append((v & 0x7F) | 0x80)
        v >>= 7
    out.append(v)
    return out


def decode(bs):
    """(value, bytes used) by the definition; None when the bytes are not one complete varint from the start."""
    v = 0
    for i, b in enumerate(bs):
        if not isinstance(b, int):
            return None
        v |= (b & 0x7F) << (7 * i)
        if not (b & 0x80):
            return v, i + 1
    return None


def boundary_values(bits):
    vals = {0, 1, (1 << bits) - 1}
    k = 1
    while 7 * k < bits:
        for d in (-1, 0, 1):
            x = (1 << (7 * k)) + d
            if 0 <= x < (1 << bits):
                vals.add(x)
        k += 1
    return sorted(vals)


def _t(p):
    return p["t"].replace("const ", "").replace("  ", " ").strip()


def _int_bits(t):
    t = t.replace("const ", "").strip()
    return {"uint32_t": 32, "unsigned int": 32, "uint64_t": 64, "unsigned long": 64, "size_t": 64, "int32_t": 31, "int": 31,
            "int64_t": 63, "uint16_t": 16}.get(t)


def _collect_hooks(P, st):
    def rd(it, p, n):
        if isinstance(p, tuple) and p and p[0] == "ADDR" and isinstance(n, int) and 0 < n <= 8:
            # the address of a scalar local (`append(buf, &byte, 1)`): its bytes in memory order
            v = (p[3] if len(p) > 3 else it.cur_env).get(p[1], U)
            if isinstance(v, int):
                return [(v >> (8 * j)) & 0xFF for j in range(n)]
            raise sem.Inconclusive("append of a scalar whose value is not known")
        if not isinstance(p, Ptr) or not isinstance(p.off, int) or not isinstance(n, int):
            raise sem.Inconclusive("append of an untracked range")
        return [it.byte_at(p.base, p.off + j) for j in range(n)]

    def app(ev, a, it):
        st["bytes"] += rd(it, a[1], a[2])
        return 0

    def app_byte(ev, a, it):
        st["bytes"].append(a[1] & 0xFF if isinstance(a[1], int) else a[1])
        return 0
    return {"carquet_buffer_append": app, "carquet_buffer_append_byte": app_byte, "set_error": lambda ev, a, it: ev.append("error") or 0}


def _bind_object(P, tname, base, heap0):
    """An encoder / decoder object: members that point to a growable buffer get one; a buffer-reader member is laid
    over the input."""
    rec = P.records.get(tname) or P.records.get(tname[:-2] if tname.endswith("_t") else tname)
    if rec is None:
        return False
    for f in rec["fields"]:
        if f.get("off") is None:
            continue
        ft = f["t"].replace("const ", "").strip()
        if ft in ("carquet_buffer_t *", "struct carquet_buffer *"):
            heap0[(base, f["off"] // 8)] = Ptr("buf", 0, 1)
        elif f["n"] == "status":
            heap0[(base, f["off"] // 8)] = 0
    return True


def check_writer(ctx, fn, rule):
    P = ctx.P
    vi = [i for i, p in enumerate(fn.params) if _int_bits(_t(p)) and "*" not in _t(p)]
    if not vi:
        return 0
    bits = _int_bits(_t(fn.params[vi[-1]]))
    key = "varint-writer|%s:%s" % (P.rel(fn.file), fn.name)
    what = "%s emits, for every value on either side of a 7-bit boundary of its %d-bit argument, the LEB128 bytes of that value and nothing else" % (fn.name, bits)
    bad = None
    n = 0
    try:
        for v in boundary_values(bits):
            st = {"bytes": []}
            heap0 = {}
            args = []
            outp = None
            for i, p in enumerate(fn.params):
                t = _t(p)
                if i == vi[-1]:
                    args.append(v)
                elif t in BYTE_PTR:
                    outp = Ptr("out", 0, 1)
                    args.append(outp)
                elif "*" in t and _bind_object(P, t.replace("*", "").strip(), "obj", heap0):
                    args.append(Ptr("obj", 0, 1))
                else:
                    raise sem.Inconclusive("parameter %s of type %s is not bound by this rule" % (p["n"], t))
            ret, ev, heap = sem.run(P, fn, args, heap0=heap0, hooks=_collect_hooks(P, st), single=True, max_forks=4, budget=40000, inline_depth=6,
                                    on_start=lambda st=st: st.__setitem__("bytes", []))
            bs = list(st["bytes"])
            if outp is not None:
                k = 0
                while ("out", k) in heap and k < 16:
                    bs.append(heap[("out", k)])
                    k += 1
                if isinstance(ret, int) and ret != k and bad is None:
                    bad = "for %d it stores %d byte(s) and reports %d" % (v, k, ret)
            n += 1
            d = decode(bs)
            want = encode(v)
            if v == 0 and (d is None or d[0] != 0 or len(bs) != 1):
                raise sem.Inconclusive("the value 0 is not emitted as the single byte 00 (%s): parameter roles not established" % (bs[:4],))
            if bad is None and (d is None or d[0] != v or d[1] != len(bs)):
                bad = "for %d (%#x) it emits %s; the definition reads that as %s - the value is spelled %s" % (
                    v, v, " ".join("%02x" % (b & 0xFF) if isinstance(b, int) else "??" for b in bs),
                    "an unterminated varint" if d is None else "%d in %d of the %d byte(s)" % (d[0], d[1], len(bs)),
                    " ".join("%02x" % b for b in want))
    except (sem.Inconclusive, KeyError) as ex:
        # a routine this rule cannot drive (an object-style wrapper, another buffer API) is not judged; the instance
        # floors of the properties see to it that not everything ends up here
        ctx.count("varint_routines_not_driven", 1)
        ctx.note("R38: %s not driven (%s)" % (fn.name, str(ex)[:120])) if hasattr(ctx, "note") else None
        return 0
    ctx.ob(rule, key, P.where(fn.body), what + " (%d values)" % n, bad is None, bad or "")
    return 1


def check_reader(ctx, fn, rule):
    P = ctx.P
    key = "varint-reader|%s:%s" % (P.rel(fn.file), fn.name)
    outs = [i for i, p in enumerate(fn.params) if _t(p).endswith("*") and _int_bits(_t(p).replace("*", "").strip())]
    ret_bits = _int_bits((fn.ret or "").replace("const ", "").strip())
    val_bits = None
    for i in outs:
        if fn.params[i]["n"] not in ("pos", "offset", "consumed", "bytes_read"):
            val_bits = _int_bits(_t(fn.params[i]).replace("*", "").strip())
    if val_bits is None and not outs:
        val_bits = ret_bits
    if val_bits is None:
        return 0
    what = "%s returns, for the LEB128 bytes of every value on either side of a 7-bit boundary (%d-bit result), that value, and consumes exactly those bytes" % (fn.name, val_bits)
    bad = None
    n = 0
    try:
        for v in boundary_values(min(val_bits, 63 if val_bits == 63 else val_bits)):
            enc = encode(v) + [0xAA, 0xAA]
            used = len(enc) - 2
            heap0 = {("in", j): b for j, b in enumerate(enc)}
            args = []
            seen_ptr = 0
            valslot = posslot = None
            obj = False
            for i, p in enumerate(fn.params):
                t = _t(p)
                if t in BYTE_PTR:
                    args.append(Ptr("in", 0, 1) if seen_ptr == 0 else Ptr("in", len(enc), 1))
                    seen_ptr += 1
                elif i in outs:
                    slot = "o%d" % i
                    if p["n"] in ("pos", "offset", "consumed", "bytes_read"):
                        heap0[(slot, 0)] = 0
                        posslot = slot
                    else:
                        valslot = slot
                    args.append(Ptr(slot, 0, 8))
                elif "*" not in t and _int_bits(t):
                    pn_ = p["n"].lower()
                    if pn_ in ("pos", "offset", "start", "idx", "index", "position", "at", "from"):
                        args.append(0)          # a starting position handed by value
                    elif any(k in pn_ for k in ("size", "len", "count", "avail", "remaining", "end", "limit", "n")):
                        args.append(len(enc))
                    else:
                        raise sem.Inconclusive("integer parameter %s has no role this rule knows" % p["n"])
                elif "*" in t:
                    tn = t.replace("*", "").strip()
                    rec = P.records.get(tn) or P.records.get(tn[:-2] if tn.endswith("_t") else tn)
                    if rec is None:
                        raise sem.Inconclusive("parameter %s of type %s is not bound by this rule" % (p["n"], t))
                    rd = [f for f in rec["fields"] if "buffer_reader" in f["t"]]
                    if not rd:
                        raise sem.Inconclusive("%s has no buffer reader member" % tn)
                    ro = sem.field_offsets(P, "carquet_buffer_reader")
                    b0 = rd[0]["off"] // 8
                    heap0[("obj", b0 + ro["data"])] = Ptr("in", 0, 1)
                    heap0[("obj", b0 + ro["size"])] = len(enc)
                    heap0[("obj", b0 + ro["pos"])] = 0
                    for f in rec["fields"]:
                        if f["n"] == "status":
                            heap0[("obj", f["off"] // 8)] = 0
                    obj = (b0 + ro["pos"])
                    args.append(Ptr("obj", 0, 1))
                else:
                    raise sem.Inconclusive("parameter %s of type %s is not bound by this rule" % (p["n"], t))
            ret, ev, heap = sem.run(P, fn, args, heap0=heap0, hooks={"set_error": lambda ev, a, it: ev.append("error") or 0},
                                    single=True, max_forks=4, budget=40000, inline_depth=6)
            n += 1
            got = heap.get((valslot, 0)) if valslot else ret
            m = (1 << (val_bits if val_bits not in (31, 63) else val_bits + 1)) - 1
            if v == 0 and (not isinstance(got, int) or (got & m) != 0):
                # the single byte 00 is the one case every reader gets right: if this does not come back as 0 the
                # parameters were not bound the way the function means them
                raise sem.Inconclusive("the byte 00 does not read back as 0 (%r): parameter roles not established" % (got,))
            if bad is None and (not isinstance(got, int) or (got & m) != (v & m)):
                bad = "for the bytes %s (= %d) it yields %r" % (" ".join("%02x" % b for b in enc[:used]), v, got)
            cons = None
            if posslot:
                cons = heap.get((posslot, 0))
            elif obj is not False:
                cons = heap.get(("obj", obj))
            elif valslot and isinstance(ret, int) and ret_bits:
                cons = ret
            if bad is None and cons is not None and cons != used and not (isinstance(cons, int) and cons == 0 and fn.ret in ("int", "_Bool", "bool") and not posslot is None):
                if isinstance(cons, int):
                    bad = "for the bytes %s (= %d) it consumes %d byte(s), the varint has %d" % (" ".join("%02x" % b for b in enc[:used]), v, cons, used)
    except (sem.Inconclusive, KeyError) as ex:
        # a routine this rule cannot drive (an object-style wrapper, another buffer API) is not judged; the instance
        # floors of the properties see to it that not everything ends up here
        ctx.count("varint_routines_not_driven", 1)
        ctx.note("R38: %s not driven (%s)" % (fn.name, str(ex)[:120])) if hasattr(ctx, "note") else None
        return 0
    ctx.ob(rule, key, P.where(fn.body), what + " (%d values)" % n, bad is None, bad or "")
    return 1


def check_binary_writer(ctx, fn, rule):
    """thrift_write_binary(enc, data, length): varint(length) then exactly `length` payload bytes."""
    P = ctx.P
    key = "varint-writer|%s:%s" % (P.rel(fn.file), fn.name)
    what = "%s writes the LEB128 of the length followed by exactly that many payload bytes, for lengths on either side of the 7-bit boundaries" % fn.name
    bad = None
    n = 0
    try:
        for L in (0, 1, 2, 126, 127, 128, 129, 255, 256, 16383, 16384, 16385):
            st = {"bytes": []}
            heap0 = {}
            _bind_object(P, _t(fn.params[0]).replace("*", "").strip(), "obj", heap0)
            mem = lambda base, off, size: ((off * 7 + 1) & 0xFF) if base == "payload" else None
            ret, ev, heap = sem.run(P, fn, [Ptr("obj", 0, 1), Ptr("payload", 0, 1), L], heap0=heap0, hooks=_collect_hooks(P, st), single=True,
                                    max_forks=4, budget=400000, memory=mem, inline_depth=6, on_start=lambda st=st: st.__setitem__("bytes", []))
            n += 1
            bs = st["bytes"]
            d = decode(bs)
            if bad is None and (d is None or d[0] != L):
                bad = "for a payload of %d byte(s) the prefix is %s: the definition reads that as %s" % (
                    L, " ".join("%02x" % (b & 0xFF) if isinstance(b, int) else "??" for b in bs[:4]),
                    "an unterminated varint" if d is None else "length %d" % d[0])
            elif bad is None:
                body = bs[d[1]:]
                if len(body) != L or any(b != ((j * 7 + 1) & 0xFF) for j, b in enumerate(body)):
                    bad = "for a payload of %d byte(s) the prefix is followed by %d byte(s)%s" % (L, len(body), "" if len(body) != L else " that are not the payload")
    except (sem.Inconclusive, KeyError) as ex:
        ctx.count("varint_routines_not_driven", 1)
        return 0
    ctx.ob(rule, key, P.where(fn.body), what + " (%d lengths)" % n, bad is None, bad or "")
    return 1


def check(ctx, rule="R38.varint", files=None, writers=True, readers=True):
    P = ctx.P
    import os
    nw = nr = 0
    done = set()
    for fn in P.lib_functions():
        rf = os.path.normpath(P.rel(fn.file))
        if not rf.startswith("src/") or fn.body is None or (files is not None and rf not in files) or (rf, fn.name) in done:
            continue
        done.add((rf, fn.name))
        nm = fn.name.lower()
        if ("varint" in nm or "uleb128" in nm or "leb128" in nm) and "zigzag" not in nm:
            if ("write" in nm or "put" in nm or "encode" in nm) and writers:
                nw += check_writer(ctx, fn, rule)
            elif ("read" in nm or "get" in nm or "decode" in nm) and readers:
                nr += check_reader(ctx, fn, rule)
        elif fn.name == "thrift_write_binary" and writers:
            nw += check_binary_writer(ctx, fn, rule)
    return nw, nr
