"""R9: sibling implementation diff.

A function is summarised by a feature set expressed in callee, struct-member and enum-constant
names only (never local names, statement order or positions):
  call:<callee>                                   the function calls a vocabulary callee
  arg:<callee>#<i> <- {provenance}                struct members / constants / producers an argument
                                                  may derive from (through all definitions of locals)
  guard:<normalised condition>                    conditions over struct members and constants that
                                                  lead to an error exit
  set:<record>.<field> <- {provenance}            assignments to fields of the shared state object
Helpers called at depth <= 2 inside the same file contribute their features too, so extracting a
helper from one sibling does not change its feature set.
"""
from ..facts import src
from ..util import is_assign


def _members(n):
    out = set()
    for x in n.walk():
        if x.k == "MemberExpr" and not x.get("anon"):
            out.add(x.name)
    return out


class Summary:
    def __init__(self, P, fn, vocab_calls, state_records, depth=2, header_records=None, state_fields=None,
                 errnames=False):
        self.P = P
        self.fn = fn
        self.vocab = vocab_calls
        self.state = state_records
        self.header = header_records      # only members of these records count as provenance
        self.state_fields = state_fields  # only these state fields are compared (None = all)
        self.errnames = errnames
        self.features = {}
        self._defs_cache = {}
        self.collect(fn, depth)

    # provenance of an expression: members, integer constants, enum constants, producing callees
    def prov(self, fn, e, seen=None, depth=0):
        out = set()
        if e is None:
            return out
        seen = seen if seen is not None else set()
        for x in e.walk():
            if x.k == "MemberExpr" and not x.get("anon"):
                if self.header is None or x.get("rec") in self.header:
                    out.add("." + x.name)
            elif x.k == "DeclRefExpr":
                dk = x.get("dk")
                if dk == "enum":
                    out.add(x.name)
                elif dk in ("local",) and x.get("d") not in seen and depth < 6:
                    seen.add(x.get("d"))
                    for d in self.defs(fn, x.get("d")):
                        if isinstance(d, str):
                            if self.header is None:
                                out.add(d)
                        else:
                            out |= self.prov(fn, d, seen, depth + 1)
                elif dk == "param" and self.header is None:
                    out.add("param:" + str([p["n"] for p in fn.params].index(x.name)
                                           if x.name in [p["n"] for p in fn.params] else x.name))
            elif x.k == "CallExpr" and x.callee and self.header is None:
                out.add("call:" + x.callee)
            elif x.k == "IntegerLiteral" and x.get("v") not in (0, 1):
                out.add("const:%s" % x.get("v"))
        return out

    def defs(self, fn, d):
        key = (fn.key(), d)
        if key in self._defs_cache:
            return self._defs_cache[key]
        out = []
        for n in fn.body.walk():
            if n.k == "DeclStmt":
                for dd, init in zip(n.get("decls", []), n.c):
                    if dd.get("d") == d and init is not None:
                        out.append(init)
            elif is_assign(n):
                l = n.c[0].strip()
                if l.k == "DeclRefExpr" and l.get("d") == d:
                    out.append(n.c[1])
            elif n.k == "CallExpr" and n.callee:
                # out-parameters: f(..., &local, ...)
                for i, a in enumerate(n.args()):
                    a = a.strip_casts()
                    if a.k == "UnaryOperator" and a.op == "&":
                        t = a.c[0].strip_casts()
                        if t.k == "DeclRefExpr" and t.get("d") == d:
                            out.append("out:%s#%d" % (n.callee, i))
        self._defs_cache[key] = out
        return out

    def add(self, key, val=None):
        if val is None:
            self.features.setdefault(key, set()).add(True)
        else:
            self.features.setdefault(key, set()).update(val)

    def collect(self, fn, depth):
        for n in fn.body.walk():
            if n.k == "CallExpr" and n.callee:
                if n.callee in self.vocab:
                    self.add("call:" + n.callee)
                    for i, a in enumerate(n.args()):
                        if self.header is not None and "*" in (a.strip().t or "") and a.strip_casts().k != "UnaryOperator":
                            continue  # buffers legitimately come from different places
                        pv = self.prov(fn, a)
                        pv = set(p for p in pv if not p.startswith("param:"))
                        if pv:
                            self.add("arg:%s#%d" % (n.callee, i), pv)
                elif depth > 0:
                    cal = [g for g in self.P.by_name.get(n.callee, []) if g.file == fn.file and g.static]
                    if cal and cal[0].key() != fn.key():
                        self.collect(cal[0], depth - 1)
            elif is_assign(n):
                l = n.c[0].strip()
                if l.k == "MemberExpr" and l.get("rec") in self.state and \
                        (self.state_fields is None or l.name in self.state_fields):
                    pv = self.prov(fn, n.c[1])
                    if n.c[1].cv is not None:
                        pv = pv | {"const:%s" % n.c[1].cv}
                    self.add("set:%s.%s" % (l.get("rec"), l.name), pv)
            elif n.k == "IfStmt":
                kids = [x for x in n.c if x is not None]
                then = kids[1]
                errs = [r for r in then.walk() if r.k == "ReturnStmt" and r.c and r.c[0] is not None
                        and (r.c[0].cv not in (0, None) or (r.c[0].cv == 0 and fn.ret.endswith("*")))]
                if errs:
                    mem = set(x.name for x in kids[0].walk() if x.k == "MemberExpr" and not x.get("anon")
                              and (self.header is None or x.get("rec") in self.header))
                    enums = set(x.name for x in kids[0].walk() if x.k == "DeclRefExpr" and x.get("dk") == "enum")
                    ops = sorted(set(x.op for x in kids[0].walk() if x.k in ("BinaryOperator", "UnaryOperator")
                                     and x.op in ("<", ">", "<=", ">=", "==", "!=", "!")))
                    if mem or enums:
                        code = sorted(set(r.c[0].cv for r in errs if r.c[0].cv is not None))
                        if self.errnames:
                            code = sorted(set(x.name for x in then.walk() if x.k == "DeclRefExpr"
                                              and x.get("dk") == "enum" and x.name.startswith("CARQUET_ERROR")))
                        self.add("guard:%s|%s|%s -> %s" % (",".join(sorted(mem)), ",".join(sorted(enums)),
                                                           "".join(ops), code))


def diff(a, b):
    """Feature differences between two summaries: list of (key, only_in_a, only_in_b)."""
    out = []
    for k in sorted(set(a.features) | set(b.features)):
        va, vb = a.features.get(k, set()), b.features.get(k, set())
        if va != vb:
            out.append((k, sorted(map(str, va - vb)), sorted(map(str, vb - va))))
    return out
