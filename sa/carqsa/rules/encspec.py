"""Parquet encodings against the encoding specification, where the specification can be stated over opaque bytes.

(1) Bit order of the raw packers. Unpacking 8 values of width w from w bytes, and packing them, is a wiring of bits:
    the specification (values back to back, least significant bit first, bytes in increasing address order) says
    value i bit k = stream bit i*w + k. carquet_bitunpack8_32 / carquet_bitpack8_32 are executed abstractly with
    opaque input (bytes resp. 32-bit values); what they return is a term per output. The term is evaluated on the
    basis (every single input bit set alone), on all-zero, all-one and three fixed patterns: the outputs must be
    exactly the specification's wiring. For a term built only from shifts, masks with constants, OR and casts the
    basis determines the function; terms with other operators are additionally only as good as the patterns, and
    the evidence says which case applied.
(2) The hybrid decoder on streams written from the specification, including the legal forms carquet's own encoder
    never emits: several groups in one bit-packed run, zero-length runs, a final group padded beyond the value
    count, runs longer than the values still wanted, bit width 0. Run headers and RLE values are concrete, bit-packed
    payload is opaque; the group unpacker is hooked so that each decoded value is named (payload offset, lane), and
    the decoder's output is compared with the specification's reading of the same stream.
(3) The hybrid encoder on value sequences that differ only in their equality pattern (run lengths 1, 7, 8, 9, 15,
    16, 17, ... over a two- or four-symbol alphabet): the bytes it appends, read by the specification's decoder,
    give back the sequence.
(4) BYTE_STREAM_SPLIT: output byte k*n + i is byte k of value i (and back), decided by provenance of opaque bytes."""
from . import sem
from .skeleton import Ptr, Sym, U
from . import terms
from .blockfmt import varint

BP = "src/core/bitpack.c"
RL = "src/encoding/rle.c"
BS = "src/encoding/byte_stream_split.c"
LINEAR_OPS = ("<<", ">>", "&", "|", "cast", "load")


def _ops(t, out):
    if isinstance(t, tuple):
        if t[0] == "load" or len(t) == 1:
            return
        out.add(t[0])
        for x in t[1:]:
            if isinstance(x, tuple):
                _ops(x, out)


def _eval(t, env):
    if isinstance(t, int):
        return t
    return terms.evaluate(t, env)


def check_unpack(ctx, rule="R42.bit-order"):
    P = ctx.P
    fn = P.fn_opt("carquet_bitunpack8_32", BP)
    if fn is None:
        return 0
    key = "bit-order|%s:carquet_bitunpack8_32" % BP
    what = ("carquet_bitunpack8_32 wires stream bit i*w + k (least significant bit first, bytes in address order) to bit k of value i, "
            "and nothing else, for every width 1..32 (terms over opaque input bytes evaluated on the bit basis and on fixed patterns)")
    bad = None
    nonlinear = set()
    done = 0
    try:
        for w in range(1, 33):
            mem = lambda base, off, size: Sym(("load", "in", off, 8), 8) if base == "in" and size == 1 and 0 <= off < max(w, 1) + 8 else None
            paths = sem.run(P, fn, [Ptr("in", 0, 1), w, Ptr("out", 0, 4)], heap0={}, hooks={}, single=False, memory=mem, max_forks=4,
                            budget=400000, inline_depth=4, with_acc=True)
            if len(paths) != 1:
                raise sem.Inconclusive("width %d: %d paths" % (w, len(paths)))
            ret, ev, heap, acc, unk = paths[0]
            for a in acc:
                if a.base == "in" and a.kind == "r" and a.hi > w and bad is None:
                    bad = "width %d: reads input byte %d; 8 values of %d bits occupy %d byte(s)" % (w, a.hi - 1, w, w)
            outs = []
            for i in range(8):
                v = heap.get(("out", 4 * i))
                if isinstance(v, Sym):
                    outs.append(v.t)
                elif isinstance(v, int):
                    outs.append(v)
                else:
                    raise sem.Inconclusive("width %d: value %d is not a term (%r)" % (w, i, v))
            ops = set()
            for t in outs:
                _ops(t, ops)
            nonlinear |= (ops - set(LINEAR_OPS))
            done += 1

            def spec(data, i):
                x = 0
                for j in range(w):
                    bit = i * w + j
                    if (data[bit // 8] >> (bit % 8)) & 1:
                        x |= 1 << j
                return x
            pats = [[0] * w, [0xFF] * w, [(37 * j + 11) & 0xFF for j in range(w)], [(0xA5 ^ (j * 29)) & 0xFF for j in range(w)],
                    [(j * j + 3 * j + 1) & 0xFF for j in range(w)]]
            for b in range(8 * w):
                d = [0] * w
                d[b // 8] = 1 << (b % 8)
                pats.append(d)
            for data in pats:
                env = {("load", "in", j, 8): data[j] for j in range(w)}
                for i in range(8):
                    try:
                        got = _eval(outs[i], env) & 0xFFFFFFFF
                    except (KeyError, ZeroDivisionError) as ex:
                        raise sem.Inconclusive("width %d value %d: term mentions %r" % (w, i, ex.args[0]))
                    want = spec(data, i)
                    if got != want and bad is None:
                        bad = "width %d, input bytes %s: value %d comes out as %#x, the specification gives %#x" % (
                            w, bytes(data).hex(), i, got, want)
    except (sem.Inconclusive, KeyError) as ex:
        if bad:
            # a witness was found before the execution gave up on a later case: the witness stands
            ctx.ob(rule, key, P.where(fn.body), what, False, bad)
            return 1
        ctx.inconclusive(rule, key, P.where(fn.body), what, "%s: %s" % (type(ex).__name__, ex))
        return 0
    ctx.ob(rule, key, P.where(fn.body), what + (" (%d widths; every term is shift/mask/or only)" % done if not nonlinear else
           " (%d widths; terms also use %s: decided on the basis and the patterns)" % (done, sorted(nonlinear))), bad is None, bad or "")
    return done


def check_pack(ctx, rule="R42.bit-order"):
    P = ctx.P
    fn = P.fn_opt("carquet_bitpack8_32", BP)
    if fn is None:
        return 0
    key = "bit-order|%s:carquet_bitpack8_32" % BP
    what = ("carquet_bitpack8_32 wires bit k (k < w) of value i to stream bit i*w + k, writes exactly w bytes and lets no other bit through, "
            "for every width 1..32 (terms over opaque 32-bit values evaluated on the bit basis and on fixed patterns)")
    bad = None
    done = 0
    try:
        for w in range(1, 33):
            mem = lambda base, off, size: Sym(("load", "val", off, 32), 32) if base == "val" and size == 4 and off % 4 == 0 and 0 <= off < 32 else None
            paths = sem.run(P, fn, [Ptr("val", 0, 4), w, Ptr("out", 0, 1)], heap0={}, hooks={}, single=False, memory=mem, max_forks=4,
                            budget=400000, inline_depth=4, with_acc=True)
            if len(paths) != 1:
                raise sem.Inconclusive("width %d: %d paths" % (w, len(paths)))
            ret, ev, heap, acc, unk = paths[0]
            for a in acc:
                if a.base == "out" and a.hi > w and bad is None:
                    bad = "width %d: touches output byte %d; 8 values of %d bits occupy %d byte(s)" % (w, a.hi - 1, w, w)
            outs = []
            for j in range(w):
                v = heap.get(("out", j))
                if isinstance(v, Sym):
                    outs.append(v.t)
                elif isinstance(v, int):
                    outs.append(v)
                else:
                    raise sem.Inconclusive("width %d: output byte %d is not a term (%r)" % (w, j, v))
            done += 1
            m = (1 << w) - 1 if w < 32 else 0xFFFFFFFF

            def spec(vals, j):
                x = 0
                for b in range(8):
                    bit = 8 * j + b
                    i, k = bit // w, bit % w
                    if (vals[i] >> k) & 1:
                        x |= 1 << b
                return x
            pats = [[0] * 8, [m] * 8, [(0x9E3779B1 * (i + 1)) & m for i in range(8)], [(0x12345678 >> i) & m for i in range(8)]]
            for i in range(8):
                for k in range(w):
                    d = [0] * 8
                    d[i] = 1 << k
                    pats.append(d)
            for vals in pats:
                env = {("load", "val", 4 * i, 32): vals[i] for i in range(8)}
                for j in range(w):
                    try:
                        got = _eval(outs[j], env) & 0xFF
                    except (KeyError, ZeroDivisionError) as ex:
                        raise sem.Inconclusive("width %d byte %d: term mentions %r" % (w, j, ex.args[0]))
                    want = spec(vals, j)
                    if got != want and bad is None:
                        bad = "width %d, values %s: output byte %d is %#04x, the specification gives %#04x" % (w, [hex(v) for v in vals], j, got, want)
    except (sem.Inconclusive, KeyError) as ex:
        if bad:
            # a witness was found before the execution gave up on a later case: the witness stands
            ctx.ob(rule, key, P.where(fn.body), what, False, bad)
            return 1
        ctx.inconclusive(rule, key, P.where(fn.body), what, "%s: %s" % (type(ex).__name__, ex))
        return 0
    ctx.ob(rule, key, P.where(fn.body), what + " (%d widths)" % done, bad is None, bad or "")
    return done


# ---- hybrid RLE / bit-packed streams ---------------------------------------------------------------------------
def hybrid_spec(runs, w, count):
    """runs: [("rle", n, value) | ("bp", groups)] -> (stream with None for opaque payload, expected values as ints or tokens)"""
    vb = (w + 7) // 8
    stream, exp = [], []
    for r in runs:
        if r[0] == "rle":
            stream += varint(r[1] << 1) + [(r[2] >> (8 * i)) & 0xFF for i in range(vb)]
            exp += [r[2] & ((1 << w) - 1 if w < 32 else 0xFFFFFFFF)] * r[1]
        else:
            stream += varint((r[1] << 1) | 1)
            base = len(stream)
            stream += [None] * (r[1] * w)
            for g in range(r[1]):
                exp += [("unp", base + g * w, i) for i in range(8)]
    return stream, exp[:count]


def check_hybrid_decoder(ctx, rule="R42.hybrid"):
    P = ctx.P
    fn = P.fn_opt("carquet_rle_decode_all", RL)
    if fn is None:
        return 0
    key = "hybrid-decode|%s:carquet_rle_decode_all" % RL
    what = ("carquet_rle_decode_all reads streams written from the RLE/bit-packing hybrid specification - several groups per bit-packed run, "
            "zero-length runs, a padded final group, runs longer than wanted, mixed runs - as the specification does (run headers and RLE "
            "values concrete, packed payload opaque, each decoded value named by payload offset and lane)")
    cases = []
    for w in (1, 2, 3, 5, 8, 9, 16, 17, 32):
        v1 = 0x5A5A5A5A & ((1 << w) - 1 if w < 32 else 0xFFFFFFFF)
        cases += [
            (w, [("bp", 1)], 8), (w, [("bp", 3)], 24), (w, [("bp", 3)], 19), (w, [("bp", 2)], 9),
            (w, [("rle", 5, v1)], 5), (w, [("rle", 100, v1)], 40), (w, [("rle", 0, v1), ("rle", 3, 1)], 3),
            (w, [("rle", 9, v1), ("bp", 2), ("rle", 2, 1)], 27), (w, [("bp", 1), ("rle", 8, v1), ("bp", 2)], 30),
            (w, [("bp", 0), ("rle", 4, v1)], 4), (w, [("bp", 4)], 32), (w, [("rle", 1, 1), ("bp", 1), ("rle", 1, 0)], 10),
        ]
    cases.append((0, [("rle", 20, 0)], 20))
    bad = None
    done = 0
    try:
        for w, runs, count in cases:
            stream, exp = hybrid_spec(runs, w, count)
            heap0 = {("in", i): b for i, b in enumerate(stream) if b is not None}

            def unp(ev, a, it):
                p = a[0]
                if not isinstance(p, Ptr) or p.base != "in" or not isinstance(p.off, int) or not isinstance(a[2], Ptr):
                    raise sem.Inconclusive("group unpacker called on an untracked position")
                for i in range(8):
                    it.heap[(a[2].base, a[2].off + 4 * i)] = Sym(("unp", p.off, i), 32)
                return None
            mem = lambda base, off, size, n=len(stream): Sym(("load", "in", off, 8), 8) if base == "in" and size == 1 and 0 <= off < n else None
            ret, ev, heap = sem.run(P, fn, [Ptr("in", 0, 1), len(stream), w, Ptr("out", 0, 4), count], heap0=heap0,
                                    hooks={"carquet_bitunpack8_32": unp}, single=True, memory=mem, max_forks=8, budget=400000, inline_depth=5)
            done += 1
            got = []
            for i in range(len(exp)):
                v = heap.get(("out", 4 * i))
                if isinstance(v, Sym) and isinstance(v.t, tuple) and v.t[0] == "unp":
                    got.append(v.t)
                elif isinstance(v, Sym) and isinstance(v.t, tuple) and v.t[0] == "cast" and isinstance(v.t[2], tuple) and v.t[2][0] == "unp":
                    got.append(v.t[2])
                elif isinstance(v, int):
                    got.append(v & 0xFFFFFFFF)
                else:
                    got.append(("?", repr(v)[:40]))
            label = "width %d, runs %s, %d values wanted" % (w, runs, count)
            if bad is None and ret != len(exp):
                bad = "%s: returns %r, the stream holds %d of the wanted values" % (label, ret, len(exp))
            elif bad is None and got != exp:
                k = next(i for i, (a, b) in enumerate(zip(got, exp)) if a != b)
                bad = "%s: value %d is %s, the specification reads %s" % (label, k, got[k], exp[k])
    except (sem.Inconclusive, KeyError) as ex:
        if bad:
            # a witness was found before the execution gave up on a later case: the witness stands
            ctx.ob(rule, key, P.where(fn.body), what, False, bad)
            return 1
        ctx.inconclusive(rule, key, P.where(fn.body), what, "%s: %s" % (type(ex).__name__, ex))
        return 0
    ctx.ob(rule, key, P.where(fn.body), what + " (%d streams)" % done, bad is None, bad or "")
    return done


def check_levels_decoder(ctx, rule="R42.hybrid"):
    """The int16 level decoder is a sibling of the generic one with vector stores on its fill paths, so its values are
    not tracked; what is compared is how many values it reports and how far runs take it through the stream."""
    P = ctx.P
    fn = P.fn_opt("carquet_rle_decode_levels", RL)
    if fn is None:
        return 0
    key = "hybrid-decode-levels|%s:carquet_rle_decode_levels" % RL
    what = ("carquet_rle_decode_levels reports, for specification-written level streams (zero-length runs, several groups per run, "
            "over-long runs), the number of values the specification's decoder delivers")
    bad = None
    done = 0
    try:
        for w in (0, 2, 3, 8, 12):
            v1 = 1 if w else 0
            # the value carried by an empty run is chosen so that reading it as a header would start another run (2 = a
            # one-value RLE run, 3 = a one-group bit-packed run); at width 0 a run's value occupies no byte at all
            grid0 = (([("rle", 5, 0)], 5), ([("rle", 9, 0), ("rle", 3, 0)], 12), ([("rle", 100, 0)], 40), ([("bp", 2)], 16), ([("rle", 8, 0), ("bp", 1), ("rle", 4, 0)], 20))
            for runs, count in grid0 if w == 0 else (([("rle", 5, v1)], 5), ([("rle", 0, 2), ("rle", 3, v1)], 3), ([("rle", 0, 3), ("rle", 0, 2), ("rle", 9, v1)], 9),
                                ([("rle", 100, v1)], 40), ([("bp", 0), ("rle", 4, v1)], 4), ([("rle", 2, v1), ("rle", 0, 2), ("rle", 2, 0)], 4),
                                ([("bp", 2)], 16), ([("bp", 3)], 19), ([("rle", 3, v1), ("bp", 1), ("rle", 0, 3), ("rle", 5, 0)], 16)):
                stream, exp = hybrid_spec(runs, w, count)
                heap0 = {("in", i): b for i, b in enumerate(stream) if b is not None}
                mem = lambda base, off, size, n=len(stream): Sym(("load", "in", off, 8), 8) if base == "in" and size == 1 and 0 <= off < n else None
                ret, ev, heap = sem.run(P, fn, [Ptr("in", 0, 1), len(stream), w, Ptr("out", 0, 2), count], heap0=heap0,
                                        hooks={"carquet_bitunpack8_32": lambda ev, a, it: None}, single=True, memory=mem, max_forks=8,
                                        budget=400000, inline_depth=5)
                done += 1
                if bad is None and ret != len(exp):
                    bad = "width %d, runs %s, %d values wanted: reports %r values, the specification's decoder delivers %d" % (w, runs, count, ret, len(exp))
    except (sem.Inconclusive, KeyError) as ex:
        if bad:
            # a witness was found before the execution gave up on a later case: the witness stands
            ctx.ob(rule, key, P.where(fn.body), what, False, bad)
            return 1
        ctx.inconclusive(rule, key, P.where(fn.body), what, "%s: %s" % (type(ex).__name__, ex))
        return 0
    ctx.ob(rule, key, P.where(fn.body), what + " (%d streams)" % done, bad is None, bad or "")
    return done


def check_streaming_decoder(ctx, rule="R42.hybrid"):
    """The streaming decoder (init, then get / get_batch in pieces) on specification-written streams with several
    groups per bit-packed run: however the caller cuts its requests, the values come out in stream order."""
    P = ctx.P
    init = P.fn_opt("carquet_rle_decoder_init", RL)
    gb = P.fn_opt("carquet_rle_decoder_get_batch", RL)
    g1 = P.fn_opt("carquet_rle_decoder_get", RL)
    if init is None or gb is None:
        return 0
    key = "hybrid-decode-streaming|%s:carquet_rle_decoder_get_batch" % RL
    what = ("the streaming decoder returns the values of a specification-written stream (several groups per bit-packed run, RLE runs in "
            "between) in stream order for every way of cutting the requests (get / get_batch of 1..24 values)")
    bad = None
    done = 0

    def unp(ev, a, it):
        p = a[0]
        if not isinstance(p, Ptr) or p.base != "in" or not isinstance(p.off, int) or not isinstance(a[2], Ptr):
            raise sem.Inconclusive("group unpacker called on an untracked position")
        for i in range(8):
            it.heap[(a[2].base, a[2].off + 4 * i)] = Sym(("unp", p.off, i), 32)
        return None
    try:
        for w in (3, 12):
            v1 = 5
            for runs, total in (([("bp", 3)], 24), ([("bp", 2), ("rle", 6, v1), ("bp", 2)], 38), ([("rle", 3, v1), ("bp", 4)], 35)):
                stream, exp = hybrid_spec(runs, w, total)
                heap0 = {("in", i): b for i, b in enumerate(stream) if b is not None}
                mem = lambda base, off, size, n=len(stream): Sym(("load", "in", off, 8), 8) if base == "in" and size == 1 and 0 <= off < n else None
                for cuts in ([total], [5, total - 5], [8, 8, total - 16], [7, 9, total - 16], [3, 3, 3, total - 9], [-1, total - 1], [-1, -1, 15, total - 17],
                             [9, -1, total - 10], [1] * 10 + [total - 10], [23, total - 23], [16, total - 16]):
                    r0, e0, heap = sem.run(P, init, [Ptr("dec", 0, 1), Ptr("in", 0, 1), len(stream), w], heap0=heap0, hooks={}, single=True,
                                           memory=mem, max_forks=4, budget=50000)
                    got = []
                    pos = 0
                    for c in cuts:
                        if c == -1:
                            if g1 is None:
                                break
                            r, e, heap = sem.run(P, g1, [Ptr("dec", 0, 1)], heap0=heap, hooks={"carquet_bitunpack8_32": unp}, single=True,
                                                 memory=mem, max_forks=8, budget=200000, inline_depth=5)
                            got.append(r)
                            pos += 1
                        else:
                            r, e, heap = sem.run(P, gb, [Ptr("dec", 0, 1), Ptr("out", 4 * pos, 4), c], heap0=heap, hooks={"carquet_bitunpack8_32": unp},
                                                 single=True, memory=mem, max_forks=8, budget=400000, inline_depth=5)
                            if r != c:
                                got.append(("short", r, c))
                                break
                            for i in range(c):
                                got.append(heap.get(("out", 4 * (pos + i))))
                            pos += c
                    done += 1
                    norm = []
                    for v in got:
                        if isinstance(v, Sym) and isinstance(v.t, tuple) and v.t[0] == "unp":
                            norm.append(v.t)
                        elif isinstance(v, Sym) and isinstance(v.t, tuple) and v.t[0] == "cast" and isinstance(v.t[2], tuple) and v.t[2][0] == "unp":
                            norm.append(v.t[2])
                        elif isinstance(v, int):
                            norm.append(v & 0xFFFFFFFF)
                        else:
                            norm.append(("?", repr(v)[:40]))
                    if bad is None and norm != exp[:len(norm)] or (bad is None and len(norm) != len(exp)):
                        k = next((i for i, (a, b) in enumerate(zip(norm, exp)) if a != b), min(len(norm), len(exp)))
                        bad = "width %d, runs %s, requests %s: value %d is %s, the stream holds %s there" % (
                            w, runs, ["get" if c == -1 else c for c in cuts], k, norm[k] if k < len(norm) else None, exp[k] if k < len(exp) else None)
    except (sem.Inconclusive, KeyError) as ex:
        if bad:
            # a witness was found before the execution gave up on a later case: the witness stands
            ctx.ob(rule, key, P.where(gb.body), what, False, bad)
            return 1
        ctx.inconclusive(rule, key, P.where(gb.body), what, "%s: %s" % (type(ex).__name__, ex))
        return 0
    ctx.ob(rule, key, P.where(gb.body), what + " (%d request sequences)" % done, bad is None, bad or "")
    return done


def _zz(v):
    return (v << 1) ^ (v >> 63) if v >= 0 else ((-v) << 1) - 1


def check_delta_headers(ctx, rule="R42.delta"):
    """DELTA_BINARY_PACKED streams written from the specification whose deltas are all equal (every mini-block width in use
    is 0, so no packed payload exists and every value is determined by the headers): the decoder returns first + k * min_delta,
    consumes exactly the headers, and ignores the width bytes of the mini-blocks the last block does not use - the
    specification lets a writer leave anything there."""
    P = ctx.P
    n = 0
    for name, bits in (("carquet_delta_decode_int32", 32), ("carquet_delta_decode_int64", 64)):
        fn = P.fn_opt(name, "src/encoding/delta.c")
        if fn is None:
            continue
        key = "delta-headers|src/encoding/delta.c:%s" % name
        what = ("%s reads specification-written DELTA_BINARY_PACKED streams with constant deltas (block size 128, 4 mini-blocks): the values are "
                "first + k * min_delta, exactly the header bytes are consumed, and the width bytes of unused mini-blocks may hold anything" % name)
        bad = None
        done = 0
        try:
            for count in (1, 2, 3, 33, 34, 65, 97, 128, 129, 130, 200):
                for first, md in ((7, 3), (-5, -2), (0, 0), (1000, 1 << 20)):
                    for junk in (0, 1, 5, 9, 0x20, 0xFF):
                        nd = count - 1
                        stream = varint(128) + varint(4) + varint(count) + varint(_zz(first))
                        left = nd
                        while left > 0:
                            used = min(4, (left + 31) // 32)
                            stream += varint(_zz(md)) + [0] * used + [junk] * (4 - used)
                            left -= min(left, 128)
                        end = len(stream)
                        stream = stream + [0xEE] * 3          # bytes of whatever follows in the page
                        heap0 = {("in", i): b for i, b in enumerate(stream)}
                        ret, ev, heap = sem.run(P, fn, [Ptr("in", 0, 1), len(stream), Ptr("out", 0, bits // 8), count, Ptr("used", 0, 8)], heap0=heap0,
                                                hooks={}, single=True, max_forks=8, budget=2000000, inline_depth=9)
                        done += 1
                        label = "%d values, first %d, min delta %d, unused width bytes %#x" % (count, first, md, junk)
                        if bad is None and ret != 0:
                            bad = "%s: returns %r for a legal stream" % (label, ret)
                            continue
                        if bad is None and heap.get(("used", 0)) != end:
                            bad = "%s: reports %r bytes consumed, the stream's DELTA part is %d bytes" % (label, heap.get(("used", 0)), end)
                            continue
                        m = (1 << bits) - 1
                        for k in sorted(set(x for x in (0, 1, count // 2, count - 1) if 0 <= x < count)):
                            v = heap.get(("out", k * (bits // 8)))
                            if bad is None and (not isinstance(v, int) or (v & m) != ((first + k * md) & m)):
                                bad = "%s: value %d is %r, the specification gives %d" % (label, k, v, first + k * md)
        except (sem.Inconclusive, KeyError) as ex:
            ctx.inconclusive(rule, key, P.where(fn.body), what, "%s: %s" % (type(ex).__name__, ex))
            continue
        n += done
        ctx.ob(rule, key, P.where(fn.body), what + " (%d streams)" % done, bad is None, bad or "")
    return n


def spec_decode_delta(bs, bits, why=None):
    """DELTA_BINARY_PACKED by the specification, on concrete bytes -> (values, bytes used) or None"""
    pos = [0]

    def uv():
        v = 0
        sh = 0
        while True:
            if pos[0] >= len(bs):
                raise IndexError
            b = bs[pos[0]]
            pos[0] += 1
            v |= (b & 0x7F) << sh
            if not (b & 0x80):
                return v
            sh += 7

    def zz():
        u = uv()
        return (u >> 1) ^ -(u & 1)
    try:
        block, nmini, total, first = uv(), uv(), uv(), zz()
        if nmini == 0 or block % nmini or (block // nmini) % 32:
            return None
        per = block // nmini
        m = (1 << bits) - 1
        out = [first]
        while len(out) < total:
            md = zz()
            widths = bs[pos[0]:pos[0] + nmini]
            if len(widths) < nmini:
                return None
            pos[0] += nmini
            for mb in range(nmini):
                if len(out) >= total:
                    break
                w = widths[mb]
                if w > bits:
                    # no delta of a N-bit type needs more than N bits once differences wrap around in the
                    # type's width, and the reference readers refuse such a mini-block
                    if why is not None:
                        why.append("a mini-block of %d bits for a %d-bit type" % (w, bits))
                    return None
                chunk = bs[pos[0]:pos[0] + per * w // 8]
                if len(chunk) < per * w // 8:
                    return None
                pos[0] += per * w // 8
                for i in range(per):
                    if len(out) >= total:
                        break
                    x = 0
                    for j in range(w):
                        bit = i * w + j
                        if (chunk[bit // 8] >> (bit % 8)) & 1:
                            x |= 1 << j
                    out.append((out[-1] + md + x) & m)
        sgn = lambda v: v - (1 << bits) if v >> (bits - 1) else v
        return [sgn(v & m) for v in out[:total]], pos[0]
    except IndexError:
        return None


def spec_encode_delta(vals, bits, block=128, nmini=4, junk=0, min_width=0):
    """DELTA_BINARY_PACKED by the specification (differences wrap around in the type's width, every mini-block gets the
    smallest width that holds its largest adjusted delta, but never less than min_width - a wider width is legal)."""
    m = (1 << bits) - 1
    sgn = lambda v: v - (1 << bits) if (v >> (bits - 1)) & 1 else v
    per = block // nmini
    out = varint(block) + varint(nmini) + varint(len(vals)) + varint(_zz(vals[0]))
    deltas = [sgn((vals[i] - vals[i - 1]) & m) for i in range(1, len(vals))]
    for b0 in range(0, len(deltas), block):
        blk = deltas[b0:b0 + block]
        md = min(blk)
        adj = [(d - md) & m for d in blk]
        widths = []
        payload = []
        for mb in range(nmini):
            part = adj[mb * per:(mb + 1) * per]
            if not part:
                widths.append(junk)
                continue
            w = max(max(part).bit_length(), min_width)
            widths.append(w)
            part = part + [0] * (per - len(part))
            acc = 0
            for i, x in enumerate(part):
                acc |= x << (i * w)
            payload += [(acc >> (8 * k)) & 0xFF for k in range(per * w // 8)]
        out += varint(_zz(md)) + widths + payload
    return out


def delta_sequences(bits):
    """value sequences that decide the DELTA_BINARY_PACKED arithmetic: every mini-block width class (0, 1, odd, 8, 17, 31, 32
    and - for 64-bit values - 33, 40, 47, 58, 63, 64), widths that differ between the mini-blocks of one block, blocks that
    are partly filled, negative min deltas, and differences that wrap around."""
    lo, hi = -(1 << (bits - 1)), (1 << (bits - 1)) - 1
    wrap = lambda v: ((v + (1 << (bits - 1))) % (1 << bits)) - (1 << (bits - 1))
    seqs = []
    for count in (1, 2, 3, 33, 34, 129, 130):
        seqs.append(("constant delta 3", [wrap(7 + 3 * k) for k in range(count)]))
        seqs.append(("constant delta -2", [wrap(-5 - 2 * k) for k in range(count)]))
        seqs.append(("deltas 1 and 2 alternating", [wrap(100 + (k // 2) * 3 + (k % 2)) for k in range(count)]))
    spans = [3, 5, 8, 13, 17, 24, 31, 32] + ([33, 40, 47, 58, 63] if bits == 64 else [])
    for sp in spans:
        # deltas alternate between about +2^(sp-1) and a small negative step: adjusted deltas need sp bits (give or take one)
        big = (1 << (sp - 1)) - 3
        v, sq = 11, []
        for k in range(70):
            sq.append(wrap(v))
            v += big + k if k % 2 == 0 else -7 - k
        seqs.append(("deltas spanning about 2^%d" % sp, sq))
    # constant mini-blocks on both sides of a block boundary, with different min deltas (state carried from block to block)
    sq = [wrap(5 + k) for k in range(129)]
    for k in range(140):
        sq.append(wrap(sq[-1] + 3))
    seqs.append(("step 1 for one block, then step 3 (constant mini-blocks on both sides of the block boundary)", sq))
    sq = [wrap(-9)]
    for k in range(128):
        sq.append(wrap(sq[-1] + (k % 3 if k < 96 else 7)))       # last mini-block of block 1: width 0 with min delta 7 ... 
    for k in range(40):
        sq.append(wrap(sq[-1] - 2))                               # ... first mini-block of block 2: width 0 with min delta -2
    seqs.append(("a packed block ending in a constant mini-block, then a block of another constant step", sq))
    # one narrow and one wide mini-block in the same block, then a partly filled block
    v, sq = -3, []
    for k in range(150):
        sq.append(wrap(v))
        v += (k % 5) if k < 32 or k >= 128 else ((1 << (bits - 6)) // 3 * (1 if k % 2 else -1) + k)
    seqs.append(("narrow and wide mini-blocks in one block", sq))
    seqs.append(("the extremes of the type", [lo, hi, lo, hi, 0, hi, lo]))
    seqs.append(("zero and the extremes", [0, hi, 0, lo, 0]))
    seqs.append(("steps across the wrap-around", [hi, hi - 1, lo, lo + 1]))
    return seqs


def check_delta_decoder(ctx, rule="R42.delta"):
    """The DELTA_BINARY_PACKED decoders on streams written from the specification for delta_sequences(): all bytes concrete.
    The decoder returns the sequence and reports the stream's length as consumed. Each sequence is also written with
    wider-than-needed mini-blocks (legal) and with junk in the width bytes of unused mini-blocks."""
    P = ctx.P
    n = 0
    for name, bits in (("carquet_delta_decode_int32", 32), ("carquet_delta_decode_int64", 64)):
        fn = P.fn_opt(name, "src/encoding/delta.c")
        if fn is None:
            continue
        key = "delta-decode|src/encoding/delta.c:%s" % name
        what = ("%s returns the values of specification-written DELTA_BINARY_PACKED streams over every mini-block width class of its type "
                "(mixed widths, partly filled blocks, wider-than-needed and unused-width bytes, wrap-around differences, blocks of 128 / 4, 64 / 2 and 32 / 1) and consumes exactly the stream" % name)
        bad = None
        done = 0
        m = (1 << bits) - 1
        try:
            for label, sq in delta_sequences(bits):
                for junk, minw, geo in ((0, 0, (128, 4)), (0x3F, 0, (128, 4)), (0, 9, (128, 4)), (0, 0, (64, 2)), (0x11, 0, (32, 1))):
                    if (minw or geo != (128, 4)) and (len(sq) > 70 or label.startswith("constant")) and len(sq) != 130:
                        continue
                    stream = spec_encode_delta(sq, bits, block=geo[0], nmini=geo[1], junk=junk, min_width=minw)
                    chk = spec_decode_delta(stream, bits)
                    assert chk is not None and chk[0] == sq and chk[1] == len(stream), (label, chk and chk[0][:5], sq[:5])
                    end = len(stream)
                    data = stream + [0xEE] * 3
                    heap0 = {("in", i): b for i, b in enumerate(data)}
                    ret, ev, heap = sem.run(P, fn, [Ptr("in", 0, 1), len(data), Ptr("out", 0, bits // 8), len(sq), Ptr("used", 0, 8)], heap0=heap0,
                                            hooks={}, single=True, max_forks=8, budget=6000000, inline_depth=9)
                    done += 1
                    lab = "%d values, %s%s%s%s" % (len(sq), label, ", unused width bytes %#x" % junk if junk else "", ", widths padded to %d" % minw if minw else "",
                                                   ", blocks of %d in %d mini-block(s)" % geo if geo != (128, 4) else "")
                    if bad is not None:
                        continue
                    if ret != 0:
                        bad = "%s: returns %r for a legal stream" % (lab, ret)
                        continue
                    if heap.get(("used", 0)) != end:
                        bad = "%s: reports %r bytes consumed, the stream is %d bytes" % (lab, heap.get(("used", 0)), end)
                        continue
                    for k in range(len(sq)):
                        v = heap.get(("out", k * (bits // 8)))
                        if not isinstance(v, int):
                            raise sem.Inconclusive("%s: value %d is not known after the call (%r)" % (lab, k, v))
                        if (v & m) != (sq[k] & m):
                            bad = "%s: value %d is %d, the stream holds %d" % (lab, k, sgn_(v & m, bits), sq[k])
                            break
        except (sem.Inconclusive, KeyError) as ex:
            if bad:
                ctx.ob(rule, key, P.where(fn.body), what, False, bad)
                n += done
                continue
            ctx.inconclusive(rule, key, P.where(fn.body), what, "%s: %s" % (type(ex).__name__, ex))
            continue
        n += done
        ctx.ob(rule, key, P.where(fn.body), what + " (%d streams)" % done, bad is None, bad or "")
    return n


def sgn_(v, bits):
    return v - (1 << bits) if (v >> (bits - 1)) & 1 else v


def check_delta_encoder(ctx, rule="R42.delta"):
    """The DELTA_BINARY_PACKED encoders on sequences whose deltas are constant, alternate between two neighbours, or span
    the whole range of the type (the cases that decide the header arithmetic: min delta, widths 0 / 1 / full, unsigned
    differences): the bytes written, read by the specification's decoder, are the sequence."""
    P = ctx.P
    n = 0
    for name, bits in (("carquet_delta_encode_int32", 32), ("carquet_delta_encode_int64", 64)):
        fn = P.fn_opt(name, "src/encoding/delta.c")
        if fn is None:
            continue
        key = "delta-encode|src/encoding/delta.c:%s" % name
        what = ("what %s writes for sequences with constant deltas, deltas alternating between two neighbours, and deltas spanning the whole "
                "range of the type is read back by the specification's DELTA_BINARY_PACKED decoder as the sequence" % name)
        seqs = delta_sequences(bits)
        bad = None
        done = 0
        try:
            for label, sq in seqs:
                heap0 = {("out", i): 0xFF for i in range(3072)}        # a destination that held something else before
                heap0.update({("val", (bits // 8) * i): v for i, v in enumerate(sq)})
                cap = 4096 + len(sq) * 16
                ret, ev, heap = sem.run(P, fn, [Ptr("val", 0, bits // 8), len(sq), Ptr("out", 0, 1), cap, Ptr("used", 0, 8)], heap0=heap0, hooks={},
                                        single=True, max_forks=8, budget=4000000, inline_depth=9)
                done += 1
                used = heap.get(("used", 0))
                if ret != 0 or not isinstance(used, int):
                    raise sem.Inconclusive("returns %r, bytes written %r for %d values" % (ret, used, len(sq)))
                bs = [heap.get(("out", i)) for i in range(used)]
                if any(not isinstance(b, int) for b in bs):
                    # bytes the encoder left untouched inside what it reports as written (padding of a partial mini-block) read as 0
                    zs = set()
                    for zb, zl, zh in heap.get(("\0zeroed", 0), ()):
                        if zb == "out":
                            zs |= set(range(zl, zh))
                    bs = [b if isinstance(b, int) else (0 if i in zs else None) for i, b in enumerate(bs)]
                if any(b is None for b in bs):
                    raise sem.Inconclusive("some of the %d reported bytes are not known after the call" % used)
                why = []
                back = spec_decode_delta([b & 0xFF for b in bs], bits, why)
                if bad is None and (back is None or back[0] != sq or back[1] != used):
                    bad = "%d values, %s (%s%s): writes %s%s, which the specification reads as %s" % (
                        len(sq), label, ", ".join(str(x) for x in sq[:4]), ", ..." if len(sq) > 4 else "", bytes(b & 0xFF for b in bs[:24]).hex(), "..." if used > 24 else "",
                        ("not a DELTA_BINARY_PACKED stream of this type" + (" (%s)" % why[0] if why else "")) if back is None else
                        ("%s%s" % (back[0][:4], "..." if len(back[0]) > 4 else "") if back[0] != sq else "the sequence in %d bytes, not the %d reported" % (back[1], used)))
        except (sem.Inconclusive, KeyError) as ex:
            if bad:
                ctx.ob(rule, key, P.where(fn.body), what, False, bad)
                n += done
                continue
            ctx.inconclusive(rule, key, P.where(fn.body), what, "%s: %s" % (type(ex).__name__, ex))
            continue
        n += done
        ctx.ob(rule, key, P.where(fn.body), what + " (%d sequences)" % done, bad is None, bad or "")
    return n


def spec_decode_hybrid(bs, w, count):
    """the specification's reading of concrete bytes"""
    out = []
    pos = 0
    vb = (w + 7) // 8
    while pos < len(bs) and len(out) < count:
        h = 0
        sh = 0
        while True:
            if pos >= len(bs):
                return None
            b = bs[pos]
            pos += 1
            h |= (b & 0x7F) << sh
            if not (b & 0x80):
                break
            sh += 7
        if h & 1:
            g = h >> 1
            if pos + g * w > len(bs):
                return None
            for k in range(g):
                chunk = bs[pos + k * w: pos + (k + 1) * w]
                for i in range(8):
                    x = 0
                    for j in range(w):
                        bit = i * w + j
                        if (chunk[bit // 8] >> (bit % 8)) & 1:
                            x |= 1 << j
                    out.append(x)
            pos += g * w
        else:
            n = h >> 1
            if pos + vb > len(bs):
                return None
            v = sum(bs[pos + i] << (8 * i) for i in range(vb))
            pos += vb
            out += [v] * min(n, max(0, count - len(out)) + 1)      # only `count` values are wanted: a garbage run length is not materialised
    return out[:count]


def check_hybrid_encoder(ctx, rule="R42.hybrid"):
    P = ctx.P
    fn = P.fn_opt("carquet_rle_encode_all", RL)
    if fn is None:
        return 0
    key = "hybrid-encode|%s:carquet_rle_encode_all" % RL
    what = ("what carquet_rle_encode_all appends, read by the specification's hybrid decoder, is the sequence it was given - for sequences "
            "that cover the equality patterns of run detection (run lengths 1, 7, 8, 9, 15, 16, 17, 24 between and after literal stretches)")
    seqs = []
    for w, a, b in ((1, 0, 1), (2, 1, 3), (3, 5, 2), (8, 200, 7), (12, 0xABC, 1), (20, 0x9ABCD, 7), (32, 0xDEADBEEF, 3)):
        for pattern in ([1], [7], [8], [9], [1, 8], [8, 1], [7, 8, 1], [3, 16, 2], [15, 1, 17], [1, 1, 1, 1, 1, 1, 1, 1, 1], [24], [2, 9, 2, 8],
                        [8, 8], [9, 7, 9], [1, 1, 1, 8, 1, 1]):
            s, cur = [], a
            for n in pattern:
                s += [cur] * n
                cur = b if cur == a else a
            seqs.append((w, s))
        # literal stretch of alternating values then a long run
        seqs.append((w, [a, b] * 5 + [a] * 20 + [b, a, b]))
    bad = None
    done = 0
    bo = sem.field_offsets(P, "carquet_buffer")
    try:
        for w, s in seqs:
            st = {"b": []}

            def app(ev, a, it, st=st):
                if not isinstance(a[1], Ptr) or not isinstance(a[1].off, int) or not isinstance(a[2], int):
                    raise sem.Inconclusive("append of an untracked range")
                st["b"] += [it.byte_at(a[1].base, a[1].off + j) for j in range(a[2])]
                return 0

            def app_byte(ev, a, it, st=st):
                st["b"].append(a[1])
                return 0
            heap0 = {("val", 4 * i): v for i, v in enumerate(s)}
            ret, ev, heap = sem.run(P, fn, [Ptr("val", 0, 4), len(s), w, Ptr("buf", 0, 1)], heap0=heap0,
                                    hooks={"carquet_buffer_append": app, "carquet_buffer_append_byte": app_byte},
                                    single=True, max_forks=4, budget=2000000, inline_depth=6, on_start=lambda st=st: st.__setitem__("b", []))
            done += 1
            bs = st["b"]
            if any(not isinstance(x, int) for x in bs):
                raise sem.Inconclusive("emitted bytes are not all known for %s" % (s[:12],))
            back = spec_decode_hybrid([x & 0xFF for x in bs], w, len(s))
            if bad is None and (ret != 0 or back != s):
                bad = "width %d, values %s: emits %s, which the specification reads as %s" % (w, s[:40], bytes(x & 0xFF for x in bs).hex(), back if back is None else back[:40])
    except (sem.Inconclusive, KeyError) as ex:
        if bad:
            # a witness was found before the execution gave up on a later case: the witness stands
            ctx.ob(rule, key, P.where(fn.body), what, False, bad)
            return 1
        ctx.inconclusive(rule, key, P.where(fn.body), what, "%s: %s" % (type(ex).__name__, ex))
        return 0
    ctx.ob(rule, key, P.where(fn.body), what + " (%d sequences)" % done, bad is None, bad or "")
    return done


def check_bss(ctx, rule="R42.byte-stream-split"):
    P = ctx.P
    n = 0
    for name, enc in (("carquet_byte_stream_split_encode", True), ("carquet_byte_stream_split_decode", False)):
        fn = P.fn_opt(name, BS)
        if fn is None or len(fn.params) < 4:
            continue
        key = "byte-stream-split|%s:%s" % (BS, name)
        what = ("%s moves byte k of value i %s stream position k*count + i, for every value width 1..8, 12, 16 and counts 0..5 "
                "(opaque bytes, provenance compared)" % (name, "to" if enc else "from"))
        bad = None
        done = 0
        try:
            for width in (1, 2, 3, 4, 8, 12, 16):
                for count in (0, 1, 2, 5):
                    total = width * count
                    mem = lambda base, off, size, total=total: Sym(("load", "in", off, 8), 8) if base == "in" and size == 1 and 0 <= off < total else None
                    # the generic entry points take (input, count, width, output[, capacity])
                    args = []
                    ptrs = 0
                    ints = 0
                    for p in fn.params:
                        t = p["t"].replace("const ", "")
                        if "*" in t and "size_t *" not in t:
                            args.append(Ptr("in", 0, 1) if ptrs == 0 else Ptr("out", 0, 1))
                            ptrs += 1
                        elif "*" in t:
                            args.append(Ptr("osz", 0, 8))
                        else:
                            pn = p["n"].lower()
                            if "width" in pn or "size" in pn and "value" in pn or pn in ("type_length", "elem_size", "byte_width"):
                                args.append(width)
                            elif "cap" in pn or pn.endswith("_size") or pn in ("size", "output_size", "data_size"):
                                args.append(total)
                            else:
                                args.append(count)
                            ints += 1
                    ret, ev, heap = sem.run(P, fn, args, heap0={}, hooks={}, single=True, memory=mem, max_forks=4, budget=200000, inline_depth=4)
                    done += 1
                    if ret != 0:
                        raise sem.Inconclusive("width %d count %d: returns %r (parameter roles not established)" % (width, count, ret))
                    for k in range(width):
                        for i in range(count):
                            src_, dst_ = (i * width + k, k * count + i) if enc else (k * count + i, i * width + k)
                            v = heap.get(("out", dst_))
                            ok = isinstance(v, Sym) and isinstance(v.t, tuple) and v.t[:3] == ("load", "in", src_)
                            if not ok and bad is None:
                                bad = "width %d, %d values: output byte %d holds %s, the specification puts input byte %d there" % (
                                    width, count, dst_, v.t if isinstance(v, Sym) else v, src_)
        except (sem.Inconclusive, KeyError) as ex:
            ctx.inconclusive(rule, key, P.where(fn.body), what, "%s: %s" % (type(ex).__name__, ex))
            continue
        n += done
        ctx.ob(rule, key, P.where(fn.body), what + " (%d cases)" % done, bad is None, bad or "")
    return n


DL = "src/encoding/delta_length.c"
DS = "src/encoding/delta_strings.c"


def _ba_heap(base, items, data_base="str"):
    """heap image of a carquet_byte_array_t[]: items = [(offset in data_base, length)]"""
    h = {}
    for i, (off, ln) in enumerate(items):
        h[(base, 16 * i)] = Ptr(data_base, off, 1)
        h[(base, 16 * i + 8)] = ln
    return h


def _alloc_hooks():
    k = [0]

    def m(ev, a, it):
        k[0] += 1
        return Ptr("heap%d" % k[0], 0, 1)
    return {"malloc": m, "calloc": m, "free": lambda ev, a, it: None}


def _framing_cases():
    return [[3], [0], [3, 0, 5], [0, 0, 4], [1, 2, 3, 4, 5, 6, 7], [9, 9, 9, 9], [5, 0, 0, 2, 40], [2] * 33]


def check_delta_length(ctx, rule="R42.delta-length"):
    """DELTA_LENGTH_BYTE_ARRAY framing: <DELTA_BINARY_PACKED lengths> <all the bytes back to back>. The inner DELTA coder is
    hooked (its own bytes are decided by C12.7): the decoder's value i must be the lengths[i] bytes that follow the lengths
    block at the sum of the earlier lengths, and everything is reported consumed; the encoder must append the lengths block
    (the lengths in order), then each value's bytes in order and nothing else."""
    P = ctx.P
    n = 0
    dec = P.fn_opt("carquet_delta_length_decode", DL)
    enc = P.fn_opt("carquet_delta_length_encode", DL)
    if dec is not None:
        key = "delta-length-decode|%s:carquet_delta_length_decode" % DL
        what = ("carquet_delta_length_decode hands out, as value i, the lengths[i] bytes found after the lengths block at the sum of the earlier lengths, "
                "and reports the lengths block plus all value bytes as consumed")
        bad = None
        done = 0
        try:
            for lens in _framing_cases():
                for K in (7, 130):
                    def dhook(ev, a, it, lens=lens, K=K):
                        if not (isinstance(a[0], Ptr) and a[0].base == "in" and a[0].off == 0) or a[3] != len(lens) or not isinstance(a[2], Ptr):
                            raise sem.Inconclusive("the inner DELTA decoder is called on something else than the start of the input for all values")
                        for i, l in enumerate(lens):
                            it.heap[(a[2].base, a[2].off + 4 * i)] = l
                        sem.set_out(it, a[4], K)
                        return 0
                    total = K + sum(lens)
                    ret, ev, heap = sem.run(P, dec, [Ptr("in", 0, 1), total + 4, Ptr("vals", 0, 16), len(lens), Ptr("used", 0, 8)], heap0={},
                                            hooks=dict(_alloc_hooks(), carquet_delta_decode_int32=dhook), single=True, max_forks=8, budget=400000, inline_depth=4)
                    done += 1
                    lab = "lengths %s after a %d-byte lengths block" % (lens if len(lens) < 9 else "%d x %d" % (len(lens), lens[0]), K)
                    if bad is not None:
                        continue
                    if ret != 0:
                        bad = "%s: returns %r" % (lab, ret)
                        continue
                    if heap.get(("used", 0)) != total:
                        bad = "%s: reports %r bytes consumed, the stream is %d bytes" % (lab, heap.get(("used", 0)), total)
                        continue
                    off = K
                    for i, l in enumerate(lens):
                        p, ln = heap.get(("vals", 16 * i)), heap.get(("vals", 16 * i + 8))
                        if not isinstance(ln, int) or (ln & 0xFFFFFFFF) != l:
                            bad = "%s: value %d gets length %r" % (lab, i, ln)
                            break
                        if l and not (isinstance(p, Ptr) and p.base == "in" and p.off == off):
                            bad = "%s: value %d points at %s, its bytes start at input offset %d" % (lab, i, "input offset %r" % p.off if isinstance(p, Ptr) and p.base == "in" else repr(p)[:40], off)
                            break
                        off += l
        except (sem.Inconclusive, KeyError) as ex:
            if bad:
                ctx.ob(rule, key, P.where(dec.body), what, False, bad)
            else:
                ctx.inconclusive(rule, key, P.where(dec.body), what, "%s: %s" % (type(ex).__name__, ex))
            done = 0 if not bad else done
        else:
            ctx.ob(rule, key, P.where(dec.body), what + " (%d streams)" % done, bad is None, bad or "")
        n += done
    if enc is not None:
        key = "delta-length-encode|%s:carquet_delta_length_encode" % DL
        what = ("what carquet_delta_length_encode appends to a buffer that already holds bytes is, read by the specification, a DELTA_BINARY_PACKED block of the lengths "
                "followed by every value's bytes in order - and the bytes already there are untouched")
        n += _encoder_by_spec(ctx, enc, key, what, rule, [[[0x41 + (i + j) % 26 for j in range(l)] for i, l in enumerate(lens)] for lens in _framing_cases()], "length")
    return n


def _string_cases():
    """(strings as byte lists): shared prefixes growing, shrinking, absent, whole-string repeats, empty strings"""
    S = lambda t: [ord(c) for c in t]
    return [
        [S("apple")],
        [S("apple"), S("applesauce"), S("apply"), S("banana")],
        [S(""), S("a"), S(""), S("ab"), S("ab"), S("abc")],
        [S("prefix-0001"), S("prefix-0002"), S("prefix-0010"), S("prefix-0010"), S("pre")],
        [S("xyz"), S("xy"), S("x"), S(""), S("x"), S("xy")],
        [S("k%02d" % (i // 3)) for i in range(34)],
    ]


def check_delta_strings(ctx, rule="R42.delta-strings"):
    """DELTA_BYTE_ARRAY: <DELTA_BINARY_PACKED prefix lengths> <DELTA_LENGTH_BYTE_ARRAY suffixes>; value i is the first
    prefix[i] bytes of value i-1 followed by suffix i. The inner DELTA coder is hooked. Decoder: suffix bytes are opaque and
    every byte of every value handed out must be the byte of the input the specification names. Encoder: concrete strings;
    the prefix / suffix lengths handed to the DELTA encoder and the bytes appended, read by the specification, must give
    the strings back (any prefix length up to the common prefix is accepted - only the reconstruction is judged)."""
    P = ctx.P
    n = 0
    dec = P.fn_opt("carquet_delta_strings_decode", DS)
    enc = P.fn_opt("carquet_delta_strings_encode", DS)
    if dec is not None:
        key = "delta-strings-decode|%s:carquet_delta_strings_decode" % DS
        what = ("carquet_delta_strings_decode hands out, as value i, the first prefix[i] bytes of value i-1 followed by the suffix[i] bytes found after the two "
                "lengths blocks at the sum of the earlier suffix lengths, and reports both blocks plus all suffix bytes as consumed")
        bad = None
        done = 0
        try:
            for strs in _string_cases():
                pre, suf = [], []
                for i, st in enumerate(strs):
                    lcp = 0
                    if i:
                        while lcp < min(len(st), len(strs[i - 1])) and st[lcp] == strs[i - 1][lcp]:
                            lcp += 1
                    pre.append(lcp)
                    suf.append(len(st) - lcp)
                for K1, K2, shorter in ((7, 9, 0), (130, 5, 1)):
                    pr = [max(0, p - shorter) for p in pre]          # a writer may share less than the common prefix
                    sf = [len(st) - p for st, p in zip(strs, pr)]
                    calls = []

                    def dhook(ev, a, it, pr=pr, sf=sf, K1=K1, K2=K2, calls=calls):
                        want = (0, pr, K1) if not calls else (K1, sf, K2)
                        if len(calls) > 1 or not (isinstance(a[0], Ptr) and a[0].base == "in" and a[0].off == want[0]) or a[3] != len(pr) or not isinstance(a[2], Ptr):
                            calls.append("bad")
                            raise sem.Inconclusive("the inner DELTA decoder is not called on the two lengths blocks in turn (call %d at %r)" % (len(calls), a[0]))
                        calls.append(a[0].off)
                        for i, l in enumerate(want[1]):
                            it.heap[(a[2].base, a[2].off + 4 * i)] = l
                        sem.set_out(it, a[4], want[2])
                        return 0
                    total = K1 + K2 + sum(sf)
                    mem = lambda base, off, size, total=total: Sym(("load", "in", off, 8), 8) if base == "in" and size == 1 and 0 <= off < total else None
                    wsize = sum(len(s_) for s_ in strs) + 8
                    ret, ev, heap = sem.run(P, dec, [Ptr("in", 0, 1), total + 4, Ptr("vals", 0, 16), len(strs), Ptr("work", 0, 1), wsize, Ptr("used", 0, 8)], heap0={},
                                            hooks=dict(_alloc_hooks(), carquet_delta_decode_int32=dhook), single=True, memory=mem, max_forks=8, budget=2000000, inline_depth=4)
                    done += 1
                    lab = "prefix lengths %s, suffix lengths %s" % (pr[:8], sf[:8])
                    if bad is not None:
                        continue
                    if ret != 0:
                        bad = "%s: returns %r" % (lab, ret)
                        continue
                    if heap.get(("used", 0)) != total:
                        bad = "%s: reports %r bytes consumed, the stream is %d bytes" % (lab, heap.get(("used", 0)), total)
                        continue
                    # the specification's reading: value i as a list of input offsets
                    exp, off, prev = [], K1 + K2, []
                    for p, s_ in zip(pr, sf):
                        cur = prev[:p] + list(range(off, off + s_))
                        off += s_
                        exp.append(cur)
                        prev = cur
                    for i, cur in enumerate(exp):
                        p, ln = heap.get(("vals", 16 * i)), heap.get(("vals", 16 * i + 8))
                        if not isinstance(ln, int) or (ln & 0xFFFFFFFF) != len(cur):
                            bad = "%s: value %d gets length %r, the stream gives it %d bytes" % (lab, i, ln, len(cur))
                            break
                        if not cur:
                            continue
                        if not isinstance(p, Ptr) or not isinstance(p.off, int):
                            raise sem.Inconclusive("value %d points at %r" % (i, p))
                        for j, src_off in enumerate(cur):
                            b = heap.get((p.base, p.off + j))
                            if b is None and p.base == "in":
                                b = Sym(("load", "in", p.off + j, 8), 8)
                            t = b.t if isinstance(b, Sym) else None
                            while isinstance(t, tuple) and t and t[0] == "cast":
                                t = t[2]
                            if not (isinstance(t, tuple) and t[:2] == ("load", "in")):
                                raise sem.Inconclusive("byte %d of value %d is %r" % (j, i, b))
                            if t[2] != src_off:
                                bad = "%s: byte %d of value %d is input byte %d, the specification names input byte %d" % (lab, j, i, t[2], src_off)
                                break
                        if bad:
                            break
        except (sem.Inconclusive, KeyError) as ex:
            if bad:
                ctx.ob(rule, key, P.where(dec.body), what, False, bad)
            else:
                ctx.inconclusive(rule, key, P.where(dec.body), what, "%s: %s" % (type(ex).__name__, ex))
                done = 0
        else:
            ctx.ob(rule, key, P.where(dec.body), what + " (%d streams)" % done, bad is None, bad or "")
        n += done
    if enc is not None:
        key = "delta-strings-encode|%s:carquet_delta_strings_encode" % DS
        what = ("what carquet_delta_strings_encode appends to a buffer that already holds bytes is, read by the specification, the prefix-lengths block, the "
                "suffix-lengths block and the suffix bytes of strings that reconstruct to the input - and the bytes already there are untouched")
        n += _encoder_by_spec(ctx, enc, key, what, rule, _string_cases(), "strings")
    return n


def _encoder_by_spec(ctx, enc, key, what, rule, cases, kind):
    """Run a byte-array encoder as written (real output buffer that already holds PREV_PAGE, real inner DELTA coder, allocator
    hooked) and read what it appended with decoders written from the specification."""
    P = ctx.P
    bo = sem.field_offsets(P, "carquet_buffer")
    bad, done = None, 0
    try:
        for strs in cases:
            heap0, items, o = {}, [], 0
            for st in strs:
                items.append((o, len(st)))
                for j, c in enumerate(st):
                    heap0[("str", o + j)] = c
                o += len(st) + 5
            heap0.update(_ba_heap("vals", items))
            heap0.update({("ob", i): 0xFF for i in range(1024)})
            heap0.update({("ob", i): b for i, b in enumerate(PREV_PAGE)})
            heap0.update({("buf", bo["data"]): Ptr("ob", 0, 1), ("buf", bo["size"]): len(PREV_PAGE), ("buf", bo["capacity"]): 1 << 20})
            ret, ev, heap = sem.run(P, enc, [Ptr("vals", 0, 16), len(strs), Ptr("buf", 0, 1)], heap0=heap0, hooks=_alloc_hooks(), single=True,
                                    max_forks=8, budget=6000000, inline_depth=9)
            size = heap.get(("buf", bo["size"]))
            lab = "%d values of lengths %s" % (len(strs), [len(s_) for s_ in strs][:9])
            if ret != 0 or not isinstance(size, int):
                raise sem.Inconclusive("%s: returns %r with buffer size %r" % (lab, ret, size))
            bs = _flatten(heap, "ob", size)
            zs = set()
            for zb, zl, zh in heap.get(("\0zeroed", 0), ()):
                if zb == "ob":
                    zs |= set(range(zl, zh))
            bs = [0 if (b is None and i in zs) else b for i, b in enumerate(bs)]
            done += 1
            if bad is not None:
                continue
            if bs[:len(PREV_PAGE)] != PREV_PAGE:
                bad = "%s: the %d bytes the buffer already held are now %s" % (lab, len(PREV_PAGE), bytes(b or 0 for b in bs[:len(PREV_PAGE)]).hex())
                continue
            bs = bs[len(PREV_PAGE):]
            if any(b is None for b in bs):
                raise sem.Inconclusive("%s: some of the %d appended bytes are not known" % (lab, len(bs)))
            why = []
            first = spec_decode_delta(bs, 32, why)
            if first is None or len(first[0]) != len(strs):
                bad = "%s: what was appended does not start with a DELTA_BINARY_PACKED block of %d lengths (%s...)" % (lab, len(strs), bytes(bs[:16]).hex())
                continue
            if kind == "length":
                lens, used = first
                body = bs[used:]
                out, off = [], 0
                for l in lens:
                    out.append(body[off:off + l] if l >= 0 else None)
                    off += max(l, 0)
                if out != [list(s_) for s_ in strs] or off != len(body):
                    bad = "%s: the lengths block reads %s and %d bytes follow: not the values" % (lab, lens[:9], len(body))
            else:
                pr, used = first
                second = spec_decode_delta(bs[used:], 32, why)
                if second is None or len(second[0]) != len(strs):
                    bad = "%s: no DELTA_BINARY_PACKED block of %d suffix lengths follows the prefix lengths" % (lab, len(strs))
                    continue
                sf, used2 = second
                body = bs[used + used2:]
                out, prev, off = [], [], 0
                for p_, s_ in zip(pr, sf):
                    if p_ < 0 or s_ < 0 or p_ > len(prev) or off + s_ > len(body):
                        out = None
                        break
                    cur = prev[:p_] + body[off:off + s_]
                    off += s_
                    out.append(cur)
                    prev = cur
                if out is None or out != [list(s_) for s_ in strs] or off != len(body):
                    bad = "%s: prefix lengths %s, suffix lengths %s and %d suffix bytes do not reconstruct the strings" % (lab, pr[:8], sf[:8], len(body))
    except (sem.Inconclusive, KeyError) as ex:
        if bad:
            ctx.ob(rule, key, P.where(enc.body), what, False, bad)
            return done
        ctx.inconclusive(rule, key, P.where(enc.body), what, "%s: %s" % (type(ex).__name__, ex))
        return 0
    ctx.ob(rule, key, P.where(enc.body), what + " (%d value lists)" % done, bad is None, bad or "")
    return done


PL = "src/encoding/plain.c"
PREV_PAGE = [0xA1, 0xA2, 0xA3, 0xA4, 0xA5]      # what an output buffer already holds when an encoder is asked to append


def _flatten(heap, base, n):
    """the first n bytes of a buffer whose heap image mixes byte stores and wider little-endian scalar stores"""
    keys = sorted(o for (b, o) in heap if b == base and isinstance(o, int) and 0 <= o < n)
    out = [None] * n
    for i, o in enumerate(keys):
        v = heap[(base, o)]
        if not isinstance(v, int):
            continue
        nxt = keys[i + 1] if i + 1 < len(keys) else n
        w = min(nxt, n) - o
        if w > 8:
            w = 1
        for k in range(w):
            out[o + k] = (v >> (8 * k)) & 0xFF
    return out


def _plain_values(kind):
    if kind == "boolean":
        return [[1], [0, 1, 1, 0, 0, 0, 0, 1], [1, 0, 0, 1, 0, 0, 0, 0, 0, 1, 1], [1] * 16 + [0, 1], [0] * 9 + [1]]
    if kind == 4:
        return [[0x11223344], [0x11223344, 0xA1B2C3D4, 0x7F6E5D4C], [0x01020304 + 0x10101010 * i for i in range(9)]]
    if kind == 8:
        return [[0x1122334455667788], [0x1122334455667788, 0xA1B2C3D4E5F60718, 0x7F6E5D4C3B2A1909], [0x0102030405060708 + 0x1010101010101010 * i for i in range(5)]]
    if kind == 12:
        return [[(0x11223344, 0x55667788, 0x99AABBCC)], [(0x01020304 + 0x10101010 * i, 0x0A0B0C0D + 0x01010101 * i, 0xF1E1D1C1 - 0x01010101 * i) for i in range(4)]]
    raise KeyError(kind)


def _le(v, w):
    return [(v >> (8 * k)) & 0xFF for k in range(w)]


def check_plain(ctx, rule="R42.plain", encoders=True, decoders=True):
    """PLAIN, both directions, on concrete values whose bytes are all different from each other where it matters: fixed-width
    values are little-endian and back to back (INT96: three 32-bit words in order), booleans are one bit each, least
    significant bit first, padded to a byte, BYTE_ARRAY is a 4-byte little-endian length followed by the bytes,
    FIXED_LEN_BYTE_ARRAY is the bytes alone. The encoders run through the real output-buffer code; the decoders' return value
    is the number of stream bytes."""
    P = ctx.P
    n = 0
    bo = sem.field_offsets(P, "carquet_buffer")

    def buf0():
        # a recycled buffer: whatever the previous page left behind is still there (the bytes an encoder emits may not depend on it)
        h = {("ob", i): 0xFF for i in range(1024)}
        for i, b in enumerate(PREV_PAGE):
            h[("ob", i)] = b            # the buffer already holds the end of an earlier page: encoders append
        h.update({("buf", bo["data"]): Ptr("ob", 0, 1), ("buf", bo["size"]): len(PREV_PAGE), ("buf", bo["capacity"]): 1 << 20})
        return h
    fixed = (("int32", 4), ("int64", 8), ("float", 4), ("double", 8), ("int96", 12))
    # ---- encoders
    enc_cases = []
    for tname, W in fixed:
        for vals in _plain_values(W):
            if W == 12:
                h = {("val", 12 * i + 4 * j): w_ for i, v in enumerate(vals) for j, w_ in enumerate(v)}
                exp = [b for v in vals for w_ in v for b in _le(w_, 4)]
            else:
                h = {("val", W * i): v for i, v in enumerate(vals)}
                exp = [b for v in vals for b in _le(v, W)]
            enc_cases.append(("carquet_encode_plain_" + tname, [Ptr("val", 0, 4 if W == 12 else W), len(vals)], h, exp, "%d value(s)" % len(vals)))
    for vals in _plain_values("boolean"):
        exp = [0] * ((len(vals) + 7) // 8)
        for i, v in enumerate(vals):
            exp[i // 8] |= v << (i % 8)
        enc_cases.append(("carquet_encode_plain_boolean", [Ptr("val", 0, 1), len(vals)], {("val", i): v for i, v in enumerate(vals)}, exp, "booleans %s" % vals[:12]))
    S = lambda t: [ord(c) for c in t]
    for strs in ([S("abc")], [S(""), S("parquet"), S("x")], [S("a" * 300), S(""), S("bc")]):
        h, items, o = {}, [], 0
        for st in strs:
            items.append((o, len(st)))
            for j, c in enumerate(st):
                h[("str", o + j)] = c
            o += len(st) + 3
        h.update(_ba_heap("val", items))
        exp = [b for st in strs for b in _le(len(st), 4) + st]
        enc_cases.append(("carquet_encode_plain_byte_array", [Ptr("val", 0, 16), len(strs)], h, exp, "byte arrays of lengths %s" % [len(s_) for s_ in strs]))
    for L, cnt in ((1, 3), (5, 2), (16, 3)):
        data = [(17 * i + 3) & 0xFF for i in range(L * cnt)]
        enc_cases.append(("carquet_encode_plain_fixed_byte_array", [Ptr("val", 0, 1), cnt, L], {("val", i): b for i, b in enumerate(data)}, data, "%d values of %d bytes" % (cnt, L)))
    by_fn = {}
    for c in enc_cases:
        by_fn.setdefault(c[0], []).append(c)
    for name, cases in (by_fn.items() if encoders else ()):
        fn = P.fn_opt(name, PL)
        if fn is None:
            continue
        key = "plain-encode|%s:%s" % (PL, name)
        what = "%s appends exactly the specification's PLAIN bytes for the values it is given" % name
        bad, done = None, 0
        try:
            for _, args, h, exp, lab in cases:
                hh = dict(h)
                hh.update(buf0())
                ret, ev, heap = sem.run(P, fn, args + [Ptr("buf", 0, 1)], heap0=hh, hooks={}, single=True, max_forks=8, budget=3000000, inline_depth=6)
                done += 1
                if bad is not None:
                    continue
                size = heap.get(("buf", bo["size"]))
                if ret != 0 or not isinstance(size, int):
                    raise sem.Inconclusive("%s: returns %r with buffer size %r" % (lab, ret, size))
                got = _flatten(heap, "ob", size)
                zs = set()
                for zb, zl, zh in heap.get(("\0zeroed", 0), ()):
                    if zb == "ob":
                        zs |= set(range(zl, zh))
                got = [0 if (b is None and i in zs) else b for i, b in enumerate(got)]
                if bad is None and got[:len(PREV_PAGE)] != PREV_PAGE:
                    bad = "%s: the %d bytes the buffer already held are now %s (size %d)" % (lab, len(PREV_PAGE), bytes(b or 0 for b in got[:len(PREV_PAGE)]).hex(), size)
                    continue
                got = got[len(PREV_PAGE):]
                size -= len(PREV_PAGE)
                if size == len(exp) and any(b is None for b in got):
                    raise sem.Inconclusive("%s: some appended bytes are not known" % lab)
                if got != exp:
                    k = next((i for i, (x, y) in enumerate(zip(got, exp)) if x != y), min(len(got), len(exp)))
                    bad = "%s: appends %d bytes %s..., the specification has %d bytes %s... (first difference at byte %d)" % (
                        lab, size, bytes(b or 0 for b in got[:20]).hex(), len(exp), bytes(exp[:20]).hex(), k)
        except (sem.Inconclusive, KeyError) as ex:
            if bad:
                ctx.ob(rule, key, P.where(fn.body), what, False, bad)
            else:
                ctx.inconclusive(rule, key, P.where(fn.body), what, "%s: %s" % (type(ex).__name__, ex))
                done = 0
        else:
            ctx.ob(rule, key, P.where(fn.body), what + " (%d cases)" % done, bad is None, bad or "")
        n += done
    # ---- decoders (directly and through the generic entry point)
    try:
        pt = P.enum("carquet_physical_type")
    except Exception:
        pt = {}
    generic = P.fn_opt("carquet_decode_plain", PL)
    tconst = {"boolean": "CARQUET_PHYSICAL_BOOLEAN", "int32": "CARQUET_PHYSICAL_INT32", "int64": "CARQUET_PHYSICAL_INT64", "int96": "CARQUET_PHYSICAL_INT96",
              "float": "CARQUET_PHYSICAL_FLOAT", "double": "CARQUET_PHYSICAL_DOUBLE", "byte_array": "CARQUET_PHYSICAL_BYTE_ARRAY",
              "fixed_byte_array": "CARQUET_PHYSICAL_FIXED_LEN_BYTE_ARRAY"}
    dec_cases = []       # (type name, stream, count, fixed_len, expectation(heap) -> problem or None, label)

    def exp_scalars(vals, W, words):
        def f(heap):
            flat = _flatten(heap, "out", len(vals) * W)
            want = [b for v in vals for w_ in (v if words else (v,)) for b in _le(w_, 4 if words else W)]
            if any(b is None for b in flat):
                return "?"
            if flat != want:
                k = next(i for i, (x, y) in enumerate(zip(flat, want)) if x != y)
                return "value %d comes out as bytes %s, the stream holds %s" % (k // W, bytes(flat[k // W * W:k // W * W + W]).hex(), bytes(want[k // W * W:k // W * W + W]).hex())
            return None
        return f
    for tname, W in fixed:
        for vals in _plain_values(W):
            stream = [b for v in vals for w_ in (v if W == 12 else (v,)) for b in _le(w_, 4 if W == 12 else W)]
            dec_cases.append((tname, stream, len(vals), 0, exp_scalars(vals, W, W == 12), "%d value(s)" % len(vals), W))
    for vals in _plain_values("boolean"):
        stream = [0] * ((len(vals) + 7) // 8)
        for i, v in enumerate(vals):
            stream[i // 8] |= v << (i % 8)
        # the padding bits of the last byte may hold anything
        if len(vals) % 8:
            stream[-1] |= (0xFF << (len(vals) % 8)) & 0xFF

        def fb(heap, vals=vals):
            got = [heap.get(("out", i)) for i in range(len(vals))]
            if any(not isinstance(g, int) for g in got):
                return "?"
            if [int(bool(g & 0xFF)) for g in got] != vals:
                k = next(i for i, (x, y) in enumerate(zip(got, vals)) if int(bool(x & 0xFF)) != y)
                return "boolean %d comes out as %d, the stream holds %d" % (k, got[k], vals[k])
            return None
        dec_cases.append(("boolean", stream, len(vals), 0, fb, "booleans %s with set padding bits" % vals[:12], 1))
    for strs in ([S("abc")], [S(""), S("parquet"), S("x")], [S("a" * 300), S(""), S("bc")]):
        stream = [b for st in strs for b in _le(len(st), 4) + st]

        def fs(heap, strs=strs):
            off = 0
            for i, st in enumerate(strs):
                p, ln = heap.get(("out", 16 * i)), heap.get(("out", 16 * i + 8))
                off += 4
                if not isinstance(ln, int) or (ln & 0xFFFFFFFF) != len(st):
                    return "value %d gets length %r, the stream says %d" % (i, ln, len(st))
                if st and not (isinstance(p, Ptr) and p.base == "in" and p.off == off):
                    return "value %d points at %s, its bytes are at input offset %d" % (i, "input offset %r" % p.off if isinstance(p, Ptr) and p.base == "in" else repr(p)[:30], off)
                off += len(st)
            return None
        dec_cases.append(("byte_array", stream, len(strs), 0, fs, "byte arrays of lengths %s" % [len(s_) for s_ in strs], 16))
    for L, cnt in ((1, 3), (5, 2), (16, 3)):
        data = [(17 * i + 3) & 0xFF for i in range(L * cnt)]

        def ff(heap, data=data):
            got = _flatten(heap, "out", len(data))
            if any(b is None for b in got):
                return "?"
            return None if got == data else "the values come out as %s..., the stream holds %s..." % (bytes(got[:12]).hex(), bytes(data[:12]).hex())
        dec_cases.append(("fixed_byte_array", data, cnt, L, ff, "%d values of %d bytes" % (cnt, L), 1))
    by_t = {}
    for c in dec_cases:
        by_t.setdefault(c[0], []).append(c)
    for tname, cases in (by_t.items() if decoders else ()):
        for via in ("direct", "generic"):
            name = "carquet_decode_plain_" + tname
            fn = P.fn_opt(name, PL) if via == "direct" else generic
            if fn is None or (via == "generic" and tconst[tname] not in pt):
                continue
            key = "plain-decode|%s:%s%s" % (PL, name, "" if via == "direct" else "|via carquet_decode_plain")
            what = ("%s returns the values of a specification-written PLAIN stream and the number of stream bytes" % name) + (
                "" if via == "direct" else " when reached through carquet_decode_plain(%s)" % tconst[tname])
            bad, done = None, 0
            try:
                for _, stream, cnt, L, expf, lab, esz in cases:
                    data = stream + [0xEE] * 5
                    heap0 = {("in", i): b for i, b in enumerate(data)}
                    if via == "direct":
                        args = [Ptr("in", 0, 1), len(data), Ptr("out", 0, esz if esz != 12 else 4), cnt] + ([L] if tname == "fixed_byte_array" else [])
                    else:
                        args = [Ptr("in", 0, 1), len(data), pt[tconst[tname]], L, Ptr("out", 0, esz if esz != 12 else 4), cnt]
                    ret, ev, heap = sem.run(P, fn, args, heap0=heap0, hooks={}, single=True, max_forks=8, budget=3000000, inline_depth=6)
                    done += 1
                    if bad is not None:
                        continue
                    if ret != len(stream):
                        bad = "%s: returns %r, the stream is %d bytes" % (lab, ret, len(stream))
                        continue
                    pr = expf(heap)
                    if pr == "?":
                        raise sem.Inconclusive("%s: some output bytes are not known" % lab)
                    if pr:
                        bad = "%s: %s" % (lab, pr)
            except (sem.Inconclusive, KeyError) as ex:
                if bad:
                    ctx.ob(rule, key, P.where(fn.body), what, False, bad)
                else:
                    ctx.inconclusive(rule, key, P.where(fn.body), what, "%s: %s" % (type(ex).__name__, ex))
                    done = 0
            else:
                ctx.ob(rule, key, P.where(fn.body), what + " (%d streams)" % done, bad is None, bad or "")
            n += done
    return n


def _known_bytes(heap, base, used):
    """bytes 0..used of an output buffer after a call; untouched bytes inside a zeroed region read as 0; None where unknown"""
    bs = [heap.get((base, i)) for i in range(used)]
    if any(not isinstance(b, int) for b in bs):
        zs = set()
        for zb, zl, zh in heap.get(("\0zeroed", 0), ()):
            if zb == base:
                zs |= set(range(zl, zh))
        bs = [b if isinstance(b, int) else (0 if i in zs else None) for i, b in enumerate(bs)]
    return [None if b is None else b & 0xFF for b in bs]


def check_delta_chain(ctx, rule="R42.delta-chain"):
    """Own output read back (no specification involved): carquet_delta_encode_intNN on delta_sequences(), then
    carquet_delta_decode_intNN on exactly the bytes written: the sequence comes back and every byte is consumed."""
    P = ctx.P
    n = 0
    for bits in (32, 64):
        enc = P.fn_opt("carquet_delta_encode_int%d" % bits, "src/encoding/delta.c")
        dec = P.fn_opt("carquet_delta_decode_int%d" % bits, "src/encoding/delta.c")
        if enc is None or dec is None:
            continue
        key = "delta-chain|src/encoding/delta.c:carquet_delta_decode_int%d" % bits
        what = ("carquet_delta_decode_int%d returns what carquet_delta_encode_int%d was given, from exactly the bytes it wrote, for sequences of every "
                "mini-block width class of the type" % (bits, bits))
        bad, done = None, 0
        m = (1 << bits) - 1
        try:
            for label, sq in delta_sequences(bits):
                heap0 = {("out", i): 0xFF for i in range(3072)}
                heap0.update({("val", (bits // 8) * i): v for i, v in enumerate(sq)})
                ret, ev, heap = sem.run(P, enc, [Ptr("val", 0, bits // 8), len(sq), Ptr("out", 0, 1), 4096 + len(sq) * 16, Ptr("used", 0, 8)], heap0=heap0, hooks={},
                                        single=True, max_forks=8, budget=4000000, inline_depth=9)
                used = heap.get(("used", 0))
                if ret != 0 or not isinstance(used, int):
                    raise sem.Inconclusive("%s: the encoder returns %r, bytes written %r" % (label, ret, used))
                bs = _known_bytes(heap, "out", used)
                if any(b is None for b in bs):
                    raise sem.Inconclusive("%s: some of the %d written bytes are not known" % (label, used))
                h1 = {("in", i): b for i, b in enumerate(bs)}
                ret2, ev2, heap2 = sem.run(P, dec, [Ptr("in", 0, 1), used, Ptr("back", 0, bits // 8), len(sq), Ptr("eaten", 0, 8)], heap0=h1, hooks={},
                                           single=True, max_forks=8, budget=6000000, inline_depth=9)
                done += 1
                if bad is not None:
                    continue
                lab = "%d values, %s" % (len(sq), label)
                if ret2 != 0:
                    bad = "%s: the decoder returns %r for the encoder's %d bytes" % (lab, ret2, used)
                    continue
                for k in range(len(sq)):
                    v = heap2.get(("back", k * (bits // 8)))
                    if not isinstance(v, int):
                        raise sem.Inconclusive("%s: value %d is not known after decoding" % (lab, k))
                    if (v & m) != (sq[k] & m):
                        bad = "%s: value %d comes back as %d, it was %d" % (lab, k, sgn_(v & m, bits), sq[k])
                        break
                if bad is None and heap2.get(("eaten", 0)) != used:
                    bad = "%s: the decoder reports %r bytes consumed of the %d written" % (lab, heap2.get(("eaten", 0)), used)
        except (sem.Inconclusive, KeyError) as ex:
            if bad:
                ctx.ob(rule, key, P.where(dec.body), what, False, bad)
            else:
                ctx.inconclusive(rule, key, P.where(dec.body), what, "%s: %s" % (type(ex).__name__, ex))
                done = 0
        else:
            ctx.ob(rule, key, P.where(dec.body), what + " (%d sequences)" % done, bad is None, bad or "")
        n += done
    return n


def check_strings_chain(ctx, rule="R42.strings-chain"):
    """Own output read back for DELTA_LENGTH_BYTE_ARRAY and DELTA_BYTE_ARRAY: the encoder runs with the real inner DELTA coder
    and the real output buffer; the decoder then runs on exactly the bytes appended; the strings come back byte for byte."""
    P = ctx.P
    n = 0
    bo = sem.field_offsets(P, "carquet_buffer")
    for tag, encn, decn, file_, work in (("delta-length", "carquet_delta_length_encode", "carquet_delta_length_decode", DL, False),
                                         ("delta-strings", "carquet_delta_strings_encode", "carquet_delta_strings_decode", DS, True)):
        enc, dec = P.fn_opt(encn, file_), P.fn_opt(decn, file_)
        if enc is None or dec is None:
            continue
        key = "%s-chain|%s:%s" % (tag, file_, decn)
        what = "%s returns, byte for byte, the strings %s was given, from exactly the bytes it appended" % (decn, encn)
        bad, done = None, 0
        try:
            for strs in _string_cases():
                heap0, items, o = {}, [], 0
                for st in strs:
                    items.append((o, len(st)))
                    for j, c in enumerate(st):
                        heap0[("str", o + j)] = c
                    o += len(st) + 5
                heap0.update(_ba_heap("vals", items))
                heap0.update({("ob", i): 0xFF for i in range(1024)})
                heap0.update({("ob", i): b for i, b in enumerate(PREV_PAGE)})
                heap0.update({("buf", bo["data"]): Ptr("ob", 0, 1), ("buf", bo["size"]): len(PREV_PAGE), ("buf", bo["capacity"]): 1 << 20})
                ret, ev, heap = sem.run(P, enc, [Ptr("vals", 0, 16), len(strs), Ptr("buf", 0, 1)], heap0=heap0, hooks=_alloc_hooks(), single=True,
                                        max_forks=8, budget=6000000, inline_depth=8)
                size = heap.get(("buf", bo["size"]))
                lab = "strings %s" % [bytes(s_).decode() for s_ in strs[:6]]
                if ret != 0 or not isinstance(size, int):
                    raise sem.Inconclusive("%s: the encoder returns %r with buffer size %r" % (lab, ret, size))
                bs = _flatten(heap, "ob", size)
                zs = set()
                for zb, zl, zh in heap.get(("\0zeroed", 0), ()):
                    if zb == "ob":
                        zs |= set(range(zl, zh))
                bs = [0 if (b is None and i in zs) else b for i, b in enumerate(bs)]
                if bs[:len(PREV_PAGE)] != PREV_PAGE:
                    done += 1
                    bad = bad or "%s: the %d bytes the buffer already held are now %s" % (lab, len(PREV_PAGE), bytes(b or 0 for b in bs[:len(PREV_PAGE)]).hex())
                    continue
                bs = bs[len(PREV_PAGE):]
                size -= len(PREV_PAGE)
                if any(b is None for b in bs):
                    raise sem.Inconclusive("%s: some of the %d appended bytes are not known" % (lab, size))
                h1 = {("in", i): b for i, b in enumerate(bs)}
                total = sum(len(s_) for s_ in strs)
                args = [Ptr("in", 0, 1), size, Ptr("back", 0, 16), len(strs)] + ([Ptr("work", 0, 1), total + 8] if work else []) + [Ptr("eaten", 0, 8)]
                ret2, ev2, heap2 = sem.run(P, dec, args, heap0=h1, hooks=_alloc_hooks(), single=True, max_forks=8, budget=6000000, inline_depth=8)
                done += 1
                if bad is not None:
                    continue
                if ret2 != 0:
                    bad = "%s: the decoder returns %r for the encoder's %d bytes" % (lab, ret2, size)
                    continue
                for i, st in enumerate(strs):
                    p, ln = heap2.get(("back", 16 * i)), heap2.get(("back", 16 * i + 8))
                    if not isinstance(ln, int) or (ln & 0xFFFFFFFF) != len(st):
                        bad = "%s: value %d comes back with length %r" % (lab, i, ln)
                        break
                    if not st:
                        continue
                    if not isinstance(p, Ptr) or not isinstance(p.off, int):
                        raise sem.Inconclusive("%s: value %d points at %r" % (lab, i, p))
                    got = [heap2.get((p.base, p.off + j)) for j in range(len(st))]
                    if any(not isinstance(g, int) for g in got):
                        raise sem.Inconclusive("%s: bytes of value %d are not known" % (lab, i))
                    if [g & 0xFF for g in got] != st:
                        bad = "%s: value %d comes back as %r" % (lab, i, bytes(g & 0xFF for g in got))
                        break
                if bad is None and heap2.get(("eaten", 0)) != size:
                    bad = "%s: the decoder reports %r bytes consumed of the %d appended" % (lab, heap2.get(("eaten", 0)), size)
        except (sem.Inconclusive, KeyError) as ex:
            if bad:
                ctx.ob(rule, key, P.where(dec.body), what, False, bad)
            else:
                ctx.inconclusive(rule, key, P.where(dec.body), what, "%s: %s" % (type(ex).__name__, ex))
                done = 0
        else:
            ctx.ob(rule, key, P.where(dec.body), what + " (%d string lists)" % done, bad is None, bad or "")
        n += done
    return n


def check_plain_chain(ctx, rule="R42.plain-chain"):
    """Own output read back for PLAIN (no specification involved): encode through the real buffer code, decode exactly those bytes."""
    P = ctx.P
    n = 0
    bo = sem.field_offsets(P, "carquet_buffer")
    S = lambda t: [ord(c) for c in t]
    cases = []      # (type name, element size for Ptr, heap of the input, encoder args after input ptr, decoder extra args, count, comparer)
    for tname, W in (("int32", 4), ("int64", 8), ("float", 4), ("double", 8), ("int96", 12)):
        for vals in _plain_values(W):
            if W == 12:
                h = {("val", 12 * i + 4 * j): w_ for i, v in enumerate(vals) for j, w_ in enumerate(v)}
                want = [b for v in vals for w_ in v for b in _le(w_, 4)]
            else:
                h = {("val", W * i): v for i, v in enumerate(vals)}
                want = [b for v in vals for b in _le(v, W)]
            cases.append((tname, 4 if W == 12 else W, h, [len(vals)], [], len(vals), ("flat", want)))
    for vals in _plain_values("boolean"):
        cases.append(("boolean", 1, {("val", i): v for i, v in enumerate(vals)}, [len(vals)], [], len(vals), ("bools", vals)))
    for strs in ([S("abc")], [S(""), S("parquet"), S("x")], [S("a" * 300), S(""), S("bc")]):
        h, items, o = {}, [], 0
        for st in strs:
            items.append((o, len(st)))
            for j, c in enumerate(st):
                h[("str", o + j)] = c
            o += len(st) + 3
        h.update(_ba_heap("val", items))
        cases.append(("byte_array", 16, h, [len(strs)], [], len(strs), ("strs", strs)))
    for L, cnt in ((1, 3), (5, 2), (16, 3)):
        data = [(17 * i + 3) & 0xFF for i in range(L * cnt)]
        cases.append(("fixed_byte_array", 1, {("val", i): b for i, b in enumerate(data)}, [cnt, L], [L], cnt, ("flat", data)))
    by_t = {}
    for c in cases:
        by_t.setdefault(c[0], []).append(c)
    for tname, cs in by_t.items():
        enc, dec = P.fn_opt("carquet_encode_plain_" + tname, PL), P.fn_opt("carquet_decode_plain_" + tname, PL)
        if enc is None or dec is None:
            continue
        key = "plain-chain|%s:carquet_decode_plain_%s" % (PL, tname)
        what = "carquet_decode_plain_%s returns what carquet_encode_plain_%s was given, from exactly the bytes it appended" % (tname, tname)
        bad, done = None, 0
        try:
            for _, esz, h, eargs, dargs, cnt, (kind, want) in cs:
                hh = {("ob", i): 0xFF for i in range(1024)}
                hh.update({("ob", i): b for i, b in enumerate(PREV_PAGE)})
                hh.update(h)
                hh.update({("buf", bo["data"]): Ptr("ob", 0, 1), ("buf", bo["size"]): len(PREV_PAGE), ("buf", bo["capacity"]): 1 << 20})
                ret, ev, heap = sem.run(P, enc, [Ptr("val", 0, esz)] + eargs + [Ptr("buf", 0, 1)], heap0=hh, hooks={}, single=True, max_forks=8, budget=3000000, inline_depth=6)
                size = heap.get(("buf", bo["size"]))
                if ret != 0 or not isinstance(size, int):
                    raise sem.Inconclusive("the encoder returns %r with buffer size %r" % (ret, size))
                bs = _flatten(heap, "ob", size)
                zs = set()
                for zb, zl, zh in heap.get(("\0zeroed", 0), ()):
                    if zb == "ob":
                        zs |= set(range(zl, zh))
                bs = [0 if (b is None and i in zs) else b for i, b in enumerate(bs)]
                if bs[:len(PREV_PAGE)] != PREV_PAGE:
                    done += 1
                    bad = bad or "the %d bytes the buffer already held are now %s" % (len(PREV_PAGE), bytes(b or 0 for b in bs[:len(PREV_PAGE)]).hex())
                    continue
                bs = bs[len(PREV_PAGE):]
                size -= len(PREV_PAGE)
                if any(b is None for b in bs):
                    raise sem.Inconclusive("some of the %d appended bytes are not known" % size)
                h1 = {("in", i): b for i, b in enumerate(bs)}
                ret2, ev2, heap2 = sem.run(P, dec, [Ptr("in", 0, 1), size, Ptr("out", 0, esz), cnt] + dargs, heap0=h1, hooks={}, single=True, max_forks=8,
                                           budget=3000000, inline_depth=6)
                done += 1
                if bad is not None:
                    continue
                lab = "%d value(s)" % cnt
                if ret2 != size:
                    bad = "%s: the decoder returns %r for the encoder's %d bytes" % (lab, ret2, size)
                    continue
                if kind == "flat":
                    got = _flatten(heap2, "out", len(want))
                    if any(b is None for b in got):
                        raise sem.Inconclusive("some decoded bytes are not known")
                    if got != want:
                        k = next(i for i, (x, y) in enumerate(zip(got, want)) if x != y)
                        bad = "%s: byte %d of the decoded values is %#x, it was %#x" % (lab, k, got[k], want[k])
                elif kind == "bools":
                    got = [heap2.get(("out", i)) for i in range(cnt)]
                    if any(not isinstance(g, int) for g in got):
                        raise sem.Inconclusive("some decoded booleans are not known")
                    if [int(bool(g & 0xFF)) for g in got] != want:
                        bad = "booleans %s come back as %s" % (want[:12], [int(bool(g & 0xFF)) for g in got][:12])
                else:
                    for i, st in enumerate(want):
                        p, ln = heap2.get(("out", 16 * i)), heap2.get(("out", 16 * i + 8))
                        if not isinstance(ln, int) or (ln & 0xFFFFFFFF) != len(st):
                            bad = "%s: value %d comes back with length %r, it had %d" % (lab, i, ln, len(st))
                            break
                        if st:
                            if not (isinstance(p, Ptr) and isinstance(p.off, int)):
                                raise sem.Inconclusive("value %d points at %r" % (i, p))
                            got = [h1.get((p.base, p.off + j)) if p.base == "in" else heap2.get((p.base, p.off + j)) for j in range(len(st))]
                            if got != st:
                                bad = "%s: value %d comes back as %r" % (lab, i, bytes((g or 0) & 0xFF for g in got)[:20])
                                break
        except (sem.Inconclusive, KeyError) as ex:
            if bad:
                ctx.ob(rule, key, P.where(dec.body), what, False, bad)
            else:
                ctx.inconclusive(rule, key, P.where(dec.body), what, "%s: %s" % (type(ex).__name__, ex))
                done = 0
        else:
            ctx.ob(rule, key, P.where(dec.body), what + " (%d cases)" % done, bad is None, bad or "")
        n += done
    return n
