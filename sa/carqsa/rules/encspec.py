"""Parquet encodings against the encoding specification, where the specification can be stated over opaque bytes.

(1) Bit order of the raw packers. Unpacking 8 values of width w from w bytes, and packing them, is a wiring of bits:
    the specification (values back to back, least significant bit first, bytes in increasing address order) says
    value i bit k = stream bit i*w + k. carquet_bitunpack8_32 / carquet_bitpack8_32 are executed abstractly with
    opaque input (bytes resp. 32-bit values); what they return is a term per output. The term is evaluated on the
    basis (every single input bit set alone), on all-zero, all-one and three fixed patterns: the outputs must be
    exactly the specification's wiring. For a term built only from shifts, masks with constants, OR and casts the
    basis determines the function; terms with other operators are additionally only as good as the patterns, and
    the evidence says which case applied.
(2) The hybrid decoder on streams written from the specification, including the legal forms carquet's own encoder
    never emits: several groups in one bit-packed run, zero-length runs, a final group padded beyond the value
    count, runs longer than the values still wanted, bit width 0. Run headers and RLE values are concrete, bit-packed
    payload is opaque; the group unpacker is hooked so that each decoded value is named (payload offset, lane), and
    the decoder's output is compared with the specification's reading of the same stream.
(3) The hybrid encoder on value sequences that differ only in their equality pattern (run lengths 1, 7, 8, 9, 15,
    16, 17, ... over a two- or four-symbol alphabet): the bytes it appends, read by the specification's decoder,
    give back the sequence.
(4) BYTE_STREAM_SPLIT: output byte k*n + i is byte k of value i (and back), decided by provenance of opaque bytes."""
from . import sem
from .skeleton import Ptr, Sym, U
from . import terms
from .blockfmt import varint

BP = "src/core/bitpack.c"
RL = "src/encoding/rle.c"
BS = "src/encoding/byte_stream_split.c"
LINEAR_OPS = ("<<", ">>", "&", "|", "cast", "load")


def _ops(t, out):
    if isinstance(t, tuple):
        if t[0] == "load" or len(t) == 1:
            return
        out.add(t[0])
        for x in t[1:]:
            if isinstance(x, tuple):
                _ops(x, out)


def _eval(t, env):
    if isinstance(t, int):
        return t
    return terms.evaluate(t, env)


def check_unpack(ctx, rule="R42.bit-order"):
    P = ctx.P
    fn = P.fn_opt("carquet_bitunpack8_32", BP)
    if fn is None:
        return 0
    key = "bit-order|%s:carquet_bitunpack8_32" % BP
    what = ("carquet_bitunpack8_32 wires stream bit i*w + k (least significant bit first, bytes in address order) to bit k of value i, "
            "and nothing else, for every width 1..32 (terms over opaque input bytes evaluated on the bit basis and on fixed patterns)")
    bad = None
    nonlinear = set()
    done = 0
    try:
        for w in range(1, 33):
            mem = lambda base, off, size: Sym(("load", "in", off, 8), 8) if base == "in" and size == 1 and 0 <= off < max(w, 1) + 8 else None
            paths = sem.run(P, fn, [Ptr("in", 0, 1), w, Ptr("out", 0, 4)], heap0={}, hooks={}, single=False, memory=mem, max_forks=4,
                            budget=400000, inline_depth=4, with_acc=True)
            if len(paths) != 1:
                raise sem.Inconclusive("width %d: %d paths" % (w, len(paths)))
            ret, ev, heap, acc, unk = paths[0]
            for a in acc:
                if a.base == "in" and a.kind == "r" and a.hi > w and bad is None:
                    bad = "width %d: reads input byte %d; 8 values of %d bits occupy %d byte(s)" % (w, a.hi - 1, w, w)
            outs = []
            for i in range(8):
                v = heap.get(("out", 4 * i))
                if isinstance(v, Sym):
                    outs.append(v.t)
                elif isinstance(v, int):
                    outs.append(v)
                else:
                    raise sem.Inconclusive("width %d: value %d is not a term (%r)" % (w, i, v))
            ops = set()
            for t in outs:
                _ops(t, ops)
            nonlinear |= (ops - set(LINEAR_OPS))
            done += 1

            def spec(data, i):
                x = 0
                for j in range(w):
                    bit = i * w + j
                    if (data[bit // 8] >> (bit % 8)) & 1:
                        x |= 1 << j
                return x
            pats = [[0] * w, [0xFF] * w, [(37 * j + 11) & 0xFF for j in range(w)], [(0xA5 ^ (j * 29)) & 0xFF for j in range(w)],
                    [(j * j + 3 * j + 1) & 0xFF for j in range(w)]]
            for b in range(8 * w):
                d = [0] * w
                d[b // 8] = 1 << (b % 8)
                pats.append(d)
            for data in pats:
                env = {("load", "in", j, 8): data[j] for j in range(w)}
                for i in range(8):
                    try:
                        got = _eval(outs[i], env) & 0xFFFFFFFF
                    except (KeyError, ZeroDivisionError) as ex:
                        raise sem.Inconclusive("width %d value %d: term mentions %r" % (w, i, ex.args[0]))
                    want = spec(data, i)
                    if got != want and bad is None:
                        bad = "width %d, input bytes %s: value %d comes out as %#x, the specification gives %#x" % (
                            w, bytes(data).hex(), i, got, want)
    except (sem.Inconclusive, KeyError) as ex:
        if bad:
            # a witness was found before the execution gave up on a later case: the witness stands
            ctx.ob(rule, key, P.where(fn.body), what, False, bad)
            return 1
        ctx.inconclusive(rule, key, P.where(fn.body), what, "%s: %s" % (type(ex).__name__, ex))
        return 0
    ctx.ob(rule, key, P.where(fn.body), what + (" (%d widths; every term is shift/mask/or only)" % done if not nonlinear else
           " (%d widths; terms also use %s: decided on the basis and the patterns)" % (done, sorted(nonlinear))), bad is None, bad or "")
    return done


def check_pack(ctx, rule="R42.bit-order"):
    P = ctx.P
    fn = P.fn_opt("carquet_bitpack8_32", BP)
    if fn is None:
        return 0
    key = "bit-order|%s:carquet_bitpack8_32" % BP
    what = ("carquet_bitpack8_32 wires bit k (k < w) of value i to stream bit i*w + k, writes exactly w bytes and lets no other bit through, "
            "for every width 1..32 (terms over opaque 32-bit values evaluated on the bit basis and on fixed patterns)")
    bad = None
    done = 0
    try:
        for w in range(1, 33):
            mem = lambda base, off, size: Sym(("load", "val", off, 32), 32) if base == "val" and size == 4 and off % 4 == 0 and 0 <= off < 32 else None
            paths = sem.run(P, fn, [Ptr("val", 0, 4), w, Ptr("out", 0, 1)], heap0={}, hooks={}, single=False, memory=mem, max_forks=4,
                            budget=400000, inline_depth=4, with_acc=True)
            if len(paths) != 1:
                raise sem.Inconclusive("width %d: %d paths" % (w, len(paths)))
            ret, ev, heap, acc, unk = paths[0]
            for a in acc:
                if a.base == "out" and a.hi > w and bad is None:
                    bad = "width %d: touches output byte %d; 8 values of %d bits occupy %d byte(s)" % (w, a.hi - 1, w, w)
            outs = []
            for j in range(w):
                v = heap.get(("out", j))
                if isinstance(v, Sym):
                    outs.append(v.t)
                elif isinstance(v, int):
                    outs.append(v)
                else:
                    raise sem.Inconclusive("width %d: output byte %d is not a term (%r)" % (w, j, v))
            done += 1
            m = (1 << w) - 1 if w < 32 else 0xFFFFFFFF

            def spec(vals, j):
                x = 0
                for b in range(8):
                    bit = 8 * j + b
                    i, k = bit // w, bit % w
                    if (vals[i] >> k) & 1:
                        x |= 1 << b
                return x
            pats = [[0] * 8, [m] * 8, [(0x9E3779B1 * (i + 1)) & m for i in range(8)], [(0x12345678 >> i) & m for i in range(8)]]
            for i in range(8):
                for k in range(w):
                    d = [0] * 8
                    d[i] = 1 << k
                    pats.append(d)
            for vals in pats:
                env = {("load", "val", 4 * i, 32): vals[i] for i in range(8)}
                for j in range(w):
                    try:
                        got = _eval(outs[j], env) & 0xFF
                    except (KeyError, ZeroDivisionError) as ex:
                        raise sem.Inconclusive("width %d byte %d: term mentions %r" % (w, j, ex.args[0]))
                    want = spec(vals, j)
                    if got != want and bad is None:
                        bad = "width %d, values %s: output byte %d is %#04x, the specification gives %#04x" % (w, [hex(v) for v in vals], j, got, want)
    except (sem.Inconclusive, KeyError) as ex:
        if bad:
            # a witness was found before the execution gave up on a later case: the witness stands
            ctx.ob(rule, key, P.where(fn.body), what, False, bad)
            return 1
        ctx.inconclusive(rule, key, P.where(fn.body), what, "%s: %s" % (type(ex).__name__, ex))
        return 0
    ctx.ob(rule, key, P.where(fn.body), what + " (%d widths)" % done, bad is None, bad or "")
    return done


# ---- hybrid RLE / bit-packed streams ---------------------------------------------------------------------------
def hybrid_spec(runs, w, count):
    """runs: [("rle", n, value) | ("bp", groups)] -> (stream with None for opaque payload, expected values as ints or tokens)"""
    vb = (w + 7) // 8
    stream, exp = [], []
    for r in runs:
        if r[0] == "rle":
            stream += varint(r[1] << 1) + [(r[2] >> (8 * i)) & 0xFF for i in range(vb)]
            exp += [r[2] & ((1 << w) - 1 if w < 32 else 0xFFFFFFFF)] * r[1]
        else:
            stream += varint((r[1] << 1) | 1)
            base = len(stream)
            stream += [None] * (r[1] * w)
            for g in range(r[1]):
                exp += [("unp", base + g * w, i) for i in range(8)]
    return stream, exp[:count]


def check_hybrid_decoder(ctx, rule="R42.hybrid"):
    P = ctx.P
    fn = P.fn_opt("carquet_rle_decode_all", RL)
    if fn is None:
        return 0
    key = "hybrid-decode|%s:carquet_rle_decode_all" % RL
    what = ("carquet_rle_decode_all reads streams written from the RLE/bit-packing hybrid specification - several groups per bit-packed run, "
            "zero-length runs, a padded final group, runs longer than wanted, mixed runs - as the specification does (run headers and RLE "
            "values concrete, packed payload opaque, each decoded value named by payload offset and lane)")
    cases = []
    for w in (1, 2, 3, 5, 8, 9, 16, 17, 32):
        v1 = 0x5A5A5A5A & ((1 << w) - 1 if w < 32 else 0xFFFFFFFF)
        cases += [
            (w, [("bp", 1)], 8), (w, [("bp", 3)], 24), (w, [("bp", 3)], 19), (w, [("bp", 2)], 9),
            (w, [("rle", 5, v1)], 5), (w, [("rle", 100, v1)], 40), (w, [("rle", 0, v1), ("rle", 3, 1)], 3),
            (w, [("rle", 9, v1), ("bp", 2), ("rle", 2, 1)], 27), (w, [("bp", 1), ("rle", 8, v1), ("bp", 2)], 30),
            (w, [("bp", 0), ("rle", 4, v1)], 4), (w, [("bp", 4)], 32), (w, [("rle", 1, 1), ("bp", 1), ("rle", 1, 0)], 10),
        ]
    cases.append((0, [("rle", 20, 0)], 20))
    bad = None
    done = 0
    try:
        for w, runs, count in cases:
            stream, exp = hybrid_spec(runs, w, count)
            heap0 = {("in", i): b for i, b in enumerate(stream) if b is not None}

            def unp(ev, a, it):
                p = a[0]
                if not isinstance(p, Ptr) or p.base != "in" or not isinstance(p.off, int) or not isinstance(a[2], Ptr):
                    raise sem.Inconclusive("group unpacker called on an untracked position")
                for i in range(8):
                    it.heap[(a[2].base, a[2].off + 4 * i)] = Sym(("unp", p.off, i), 32)
                return None
            mem = lambda base, off, size, n=len(stream): Sym(("load", "in", off, 8), 8) if base == "in" and size == 1 and 0 <= off < n else None
            ret, ev, heap = sem.run(P, fn, [Ptr("in", 0, 1), len(stream), w, Ptr("out", 0, 4), count], heap0=heap0,
                                    hooks={"carquet_bitunpack8_32": unp}, single=True, memory=mem, max_forks=8, budget=400000, inline_depth=5)
            done += 1
            got = []
            for i in range(len(exp)):
                v = heap.get(("out", 4 * i))
                if isinstance(v, Sym) and isinstance(v.t, tuple) and v.t[0] == "unp":
                    got.append(v.t)
                elif isinstance(v, Sym) and isinstance(v.t, tuple) and v.t[0] == "cast" and isinstance(v.t[2], tuple) and v.t[2][0] == "unp":
                    got.append(v.t[2])
                elif isinstance(v, int):
                    got.append(v & 0xFFFFFFFF)
                else:
                    got.append(("?", repr(v)[:40]))
            label = "width %d, runs %s, %d values wanted" % (w, runs, count)
            if bad is None and ret != len(exp):
                bad = "%s: returns %r, the stream holds %d of the wanted values" % (label, ret, len(exp))
            elif bad is None and got != exp:
                k = next(i for i, (a, b) in enumerate(zip(got, exp)) if a != b)
                bad = "%s: value %d is %s, the specification reads %s" % (label, k, got[k], exp[k])
    except (sem.Inconclusive, KeyError) as ex:
        if bad:
            # a witness was found before the execution gave up on a later case: the witness stands
            ctx.ob(rule, key, P.where(fn.body), what, False, bad)
            return 1
        ctx.inconclusive(rule, key, P.where(fn.body), what, "%s: %s" % (type(ex).__name__, ex))
        return 0
    ctx.ob(rule, key, P.where(fn.body), what + " (%d streams)" % done, bad is None, bad or "")
    return done


def check_levels_decoder(ctx, rule="R42.hybrid"):
    """The int16 level decoder is a sibling of the generic one with vector stores on its fill paths, so its values are
    not tracked; what is compared is how many values it reports and how far runs take it through the stream."""
    P = ctx.P
    fn = P.fn_opt("carquet_rle_decode_levels", RL)
    if fn is None:
        return 0
    key = "hybrid-decode-levels|%s:carquet_rle_decode_levels" % RL
    what = ("carquet_rle_decode_levels reports, for specification-written level streams (zero-length runs, several groups per run, "
            "over-long runs), the number of values the specification's decoder delivers")
    bad = None
    done = 0
    try:
        for w in (2, 3, 8):
            v1 = 1
            # the value carried by an empty run is chosen so that reading it as a header would start another run (2 = a
            # one-value RLE run, 3 = a one-group bit-packed run)
            for runs, count in (([("rle", 5, v1)], 5), ([("rle", 0, 2), ("rle", 3, v1)], 3), ([("rle", 0, 3), ("rle", 0, 2), ("rle", 9, v1)], 9),
                                ([("rle", 100, v1)], 40), ([("bp", 0), ("rle", 4, v1)], 4), ([("rle", 2, v1), ("rle", 0, 2), ("rle", 2, 0)], 4),
                                ([("bp", 2)], 16), ([("bp", 3)], 19), ([("rle", 3, v1), ("bp", 1), ("rle", 0, 3), ("rle", 5, 0)], 16)):
                stream, exp = hybrid_spec(runs, w, count)
                heap0 = {("in", i): b for i, b in enumerate(stream) if b is not None}
                mem = lambda base, off, size, n=len(stream): Sym(("load", "in", off, 8), 8) if base == "in" and size == 1 and 0 <= off < n else None
                ret, ev, heap = sem.run(P, fn, [Ptr("in", 0, 1), len(stream), w, Ptr("out", 0, 2), count], heap0=heap0,
                                        hooks={"carquet_bitunpack8_32": lambda ev, a, it: None}, single=True, memory=mem, max_forks=8,
                                        budget=400000, inline_depth=5)
                done += 1
                if bad is None and ret != len(exp):
                    bad = "width %d, runs %s, %d values wanted: reports %r values, the specification's decoder delivers %d" % (w, runs, count, ret, len(exp))
    except (sem.Inconclusive, KeyError) as ex:
        if bad:
            # a witness was found before the execution gave up on a later case: the witness stands
            ctx.ob(rule, key, P.where(fn.body), what, False, bad)
            return 1
        ctx.inconclusive(rule, key, P.where(fn.body), what, "%s: %s" % (type(ex).__name__, ex))
        return 0
    ctx.ob(rule, key, P.where(fn.body), what + " (%d streams)" % done, bad is None, bad or "")
    return done


def check_streaming_decoder(ctx, rule="R42.hybrid"):
    """The streaming decoder (init, then get / get_batch in pieces) on specification-written streams with several
    groups per bit-packed run: however the caller cuts its requests, the values come out in stream order."""
    P = ctx.P
    init = P.fn_opt("carquet_rle_decoder_init", RL)
    gb = P.fn_opt("carquet_rle_decoder_get_batch", RL)
    g1 = P.fn_opt("carquet_rle_decoder_get", RL)
    if init is None or gb is None:
        return 0
    key = "hybrid-decode-streaming|%s:carquet_rle_decoder_get_batch" % RL
    what = ("the streaming decoder returns the values of a specification-written stream (several groups per bit-packed run, RLE runs in "
            "between) in stream order for every way of cutting the requests (get / get_batch of 1..24 values)")
    bad = None
    done = 0

    def unp(ev, a, it):
        p = a[0]
        if not isinstance(p, Ptr) or p.base != "in" or not isinstance(p.off, int) or not isinstance(a[2], Ptr):
            raise sem.Inconclusive("group unpacker called on an untracked position")
        for i in range(8):
            it.heap[(a[2].base, a[2].off + 4 * i)] = Sym(("unp", p.off, i), 32)
        return None
    try:
        for w in (3, 12):
            v1 = 5
            for runs, total in (([("bp", 3)], 24), ([("bp", 2), ("rle", 6, v1), ("bp", 2)], 38), ([("rle", 3, v1), ("bp", 4)], 35)):
                stream, exp = hybrid_spec(runs, w, total)
                heap0 = {("in", i): b for i, b in enumerate(stream) if b is not None}
                mem = lambda base, off, size, n=len(stream): Sym(("load", "in", off, 8), 8) if base == "in" and size == 1 and 0 <= off < n else None
                for cuts in ([total], [5, total - 5], [8, 8, total - 16], [7, 9, total - 16], [3, 3, 3, total - 9], [-1, total - 1], [-1, -1, 15, total - 17],
                             [9, -1, total - 10], [1] * 10 + [total - 10], [23, total - 23], [16, total - 16]):
                    r0, e0, heap = sem.run(P, init, [Ptr("dec", 0, 1), Ptr("in", 0, 1), len(stream), w], heap0=heap0, hooks={}, single=True,
                                           memory=mem, max_forks=4, budget=50000)
                    got = []
                    pos = 0
                    for c in cuts:
                        if c == -1:
                            if g1 is None:
                                break
                            r, e, heap = sem.run(P, g1, [Ptr("dec", 0, 1)], heap0=heap, hooks={"carquet_bitunpack8_32": unp}, single=True,
                                                 memory=mem, max_forks=8, budget=200000, inline_depth=5)
                            got.append(r)
                            pos += 1
                        else:
                            r, e, heap = sem.run(P, gb, [Ptr("dec", 0, 1), Ptr("out", 4 * pos, 4), c], heap0=heap, hooks={"carquet_bitunpack8_32": unp},
                                                 single=True, memory=mem, max_forks=8, budget=400000, inline_depth=5)
                            if r != c:
                                got.append(("short", r, c))
                                break
                            for i in range(c):
                                got.append(heap.get(("out", 4 * (pos + i))))
                            pos += c
                    done += 1
                    norm = []
                    for v in got:
                        if isinstance(v, Sym) and isinstance(v.t, tuple) and v.t[0] == "unp":
                            norm.append(v.t)
                        elif isinstance(v, Sym) and isinstance(v.t, tuple) and v.t[0] == "cast" and isinstance(v.t[2], tuple) and v.t[2][0] == "unp":
                            norm.append(v.t[2])
                        elif isinstance(v, int):
                            norm.append(v & 0xFFFFFFFF)
                        else:
                            norm.append(("?", repr(v)[:40]))
                    if bad is None and norm != exp[:len(norm)] or (bad is None and len(norm) != len(exp)):
                        k = next((i for i, (a, b) in enumerate(zip(norm, exp)) if a != b), min(len(norm), len(exp)))
                        bad = "width %d, runs %s, requests %s: value %d is %s, the stream holds %s there" % (
                            w, runs, ["get" if c == -1 else c for c in cuts], k, norm[k] if k < len(norm) else None, exp[k] if k < len(exp) else None)
    except (sem.Inconclusive, KeyError) as ex:
        if bad:
            # a witness was found before the execution gave up on a later case: the witness stands
            ctx.ob(rule, key, P.where(gb.body), what, False, bad)
            return 1
        ctx.inconclusive(rule, key, P.where(gb.body), what, "%s: %s" % (type(ex).__name__, ex))
        return 0
    ctx.ob(rule, key, P.where(gb.body), what + " (%d request sequences)" % done, bad is None, bad or "")
    return done


def _zz(v):
    return (v << 1) ^ (v >> 63) if v >= 0 else ((-v) << 1) - 1


def check_delta_headers(ctx, rule="R42.delta"):
    """DELTA_BINARY_PACKED streams written from the specification whose deltas are all equal (every mini-block width in use
    is 0, so no packed payload exists and every value is determined by the headers): the decoder returns first + k * min_delta,
    consumes exactly the headers, and ignores the width bytes of the mini-blocks the last block does not use - the
    specification lets a writer leave anything there."""
    P = ctx.P
    n = 0
    for name, bits in (("carquet_delta_decode_int32", 32), ("carquet_delta_decode_int64", 64)):
        fn = P.fn_opt(name, "src/encoding/delta.c")
        if fn is None:
            continue
        key = "delta-headers|src/encoding/delta.c:%s" % name
        what = ("%s reads specification-written DELTA_BINARY_PACKED streams with constant deltas (block size 128, 4 mini-blocks): the values are "
                "first + k * min_delta, exactly the header bytes are consumed, and the width bytes of unused mini-blocks may hold anything" % name)
        bad = None
        done = 0
        try:
            for count in (1, 2, 3, 33, 34, 65, 97, 128, 129, 130, 200):
                for first, md in ((7, 3), (-5, -2), (0, 0), (1000, 1 << 20)):
                    for junk in (0, 1, 5, 9, 0x20, 0xFF):
                        nd = count - 1
                        stream = varint(128) + varint(4) + varint(count) + varint(_zz(first))
                        left = nd
                        while left > 0:
                            used = min(4, (left + 31) // 32)
                            stream += varint(_zz(md)) + [0] * used + [junk] * (4 - used)
                            left -= min(left, 128)
                        end = len(stream)
                        stream = stream + [0xEE] * 3          # bytes of whatever follows in the page
                        heap0 = {("in", i): b for i, b in enumerate(stream)}
                        ret, ev, heap = sem.run(P, fn, [Ptr("in", 0, 1), len(stream), Ptr("out", 0, bits // 8), count, Ptr("used", 0, 8)], heap0=heap0,
                                                hooks={}, single=True, max_forks=8, budget=2000000, inline_depth=6)
                        done += 1
                        label = "%d values, first %d, min delta %d, unused width bytes %#x" % (count, first, md, junk)
                        if bad is None and ret != 0:
                            bad = "%s: returns %r for a legal stream" % (label, ret)
                            continue
                        if bad is None and heap.get(("used", 0)) != end:
                            bad = "%s: reports %r bytes consumed, the stream's DELTA part is %d bytes" % (label, heap.get(("used", 0)), end)
                            continue
                        m = (1 << bits) - 1
                        for k in sorted(set(x for x in (0, 1, count // 2, count - 1) if 0 <= x < count)):
                            v = heap.get(("out", k * (bits // 8)))
                            if bad is None and (not isinstance(v, int) or (v & m) != ((first + k * md) & m)):
                                bad = "%s: value %d is %r, the specification gives %d" % (label, k, v, first + k * md)
        except (sem.Inconclusive, KeyError) as ex:
            ctx.inconclusive(rule, key, P.where(fn.body), what, "%s: %s" % (type(ex).__name__, ex))
            continue
        n += done
        ctx.ob(rule, key, P.where(fn.body), what + " (%d streams)" % done, bad is None, bad or "")
    return n


def spec_decode_hybrid(bs, w, count):
    """the specification's reading of concrete bytes"""
    out = []
    pos = 0
    vb = (w + 7) // 8
    while pos < len(bs) and len(out) < count:
        h = 0
        sh = 0
        while True:
            if pos >= len(bs):
                return None
            b = bs[pos]
            pos += 1
            h |= (b & 0x7F) << sh
            if not (b & 0x80):
                break
            sh += 7
        if h & 1:
            g = h >> 1
            if pos + g * w > len(bs):
                return None
            for k in range(g):
                chunk = bs[pos + k * w: pos + (k + 1) * w]
                for i in range(8):
                    x = 0
                    for j in range(w):
                        bit = i * w + j
                        if (chunk[bit // 8] >> (bit % 8)) & 1:
                            x |= 1 << j
                    out.append(x)
            pos += g * w
        else:
            n = h >> 1
            if pos + vb > len(bs):
                return None
            v = sum(bs[pos + i] << (8 * i) for i in range(vb))
            pos += vb
            out += [v] * n
    return out[:count]


def check_hybrid_encoder(ctx, rule="R42.hybrid"):
    P = ctx.P
    fn = P.fn_opt("carquet_rle_encode_all", RL)
    if fn is None:
        return 0
    key = "hybrid-encode|%s:carquet_rle_encode_all" % RL
    what = ("what carquet_rle_encode_all appends, read by the specification's hybrid decoder, is the sequence it was given - for sequences "
            "that cover the equality patterns of run detection (run lengths 1, 7, 8, 9, 15, 16, 17, 24 between and after literal stretches)")
    seqs = []
    for w, a, b in ((1, 0, 1), (2, 1, 3), (3, 5, 2), (8, 200, 7), (12, 0xABC, 1), (20, 0x9ABCD, 7), (32, 0xDEADBEEF, 3)):
        for pattern in ([1], [7], [8], [9], [1, 8], [8, 1], [7, 8, 1], [3, 16, 2], [15, 1, 17], [1, 1, 1, 1, 1, 1, 1, 1, 1], [24], [2, 9, 2, 8],
                        [8, 8], [9, 7, 9], [1, 1, 1, 8, 1, 1]):
            s, cur = [], a
            for n in pattern:
                s += [cur] * n
                cur = b if cur == a else a
            seqs.append((w, s))
        # literal stretch of alternating values then a long run
        seqs.append((w, [a, b] * 5 + [a] * 20 + [b, a, b]))
    bad = None
    done = 0
    bo = sem.field_offsets(P, "carquet_buffer")
    try:
        for w, s in seqs:
            st = {"b": []}

            def app(ev, a, it, st=st):
                if not isinstance(a[1], Ptr) or not isinstance(a[1].off, int) or not isinstance(a[2], int):
                    raise sem.Inconclusive("append of an untracked range")
                st["b"] += [it.byte_at(a[1].base, a[1].off + j) for j in range(a[2])]
                return 0

            def app_byte(ev, a, it, st=st):
                st["b"].append(a[1])
                return 0
            heap0 = {("val", 4 * i): v for i, v in enumerate(s)}
            ret, ev, heap = sem.run(P, fn, [Ptr("val", 0, 4), len(s), w, Ptr("buf", 0, 1)], heap0=heap0,
                                    hooks={"carquet_buffer_append": app, "carquet_buffer_append_byte": app_byte},
                                    single=True, max_forks=4, budget=2000000, inline_depth=6, on_start=lambda st=st: st.__setitem__("b", []))
            done += 1
            bs = st["b"]
            if any(not isinstance(x, int) for x in bs):
                raise sem.Inconclusive("emitted bytes are not all known for %s" % (s[:12],))
            back = spec_decode_hybrid([x & 0xFF for x in bs], w, len(s))
            if bad is None and (ret != 0 or back != s):
                bad = "width %d, values %s: emits %s, which the specification reads as %s" % (w, s[:40], bytes(x & 0xFF for x in bs).hex(), back if back is None else back[:40])
    except (sem.Inconclusive, KeyError) as ex:
        if bad:
            # a witness was found before the execution gave up on a later case: the witness stands
            ctx.ob(rule, key, P.where(fn.body), what, False, bad)
            return 1
        ctx.inconclusive(rule, key, P.where(fn.body), what, "%s: %s" % (type(ex).__name__, ex))
        return 0
    ctx.ob(rule, key, P.where(fn.body), what + " (%d sequences)" % done, bad is None, bad or "")
    return done


def check_bss(ctx, rule="R42.byte-stream-split"):
    P = ctx.P
    n = 0
    for name, enc in (("carquet_byte_stream_split_encode", True), ("carquet_byte_stream_split_decode", False)):
        fn = P.fn_opt(name, BS)
        if fn is None or len(fn.params) < 4:
            continue
        key = "byte-stream-split|%s:%s" % (BS, name)
        what = ("%s moves byte k of value i %s stream position k*count + i, for every value width 1..8, 12, 16 and counts 0..5 "
                "(opaque bytes, provenance compared)" % (name, "to" if enc else "from"))
        bad = None
        done = 0
        try:
            for width in (1, 2, 3, 4, 8, 12, 16):
                for count in (0, 1, 2, 5):
                    total = width * count
                    mem = lambda base, off, size, total=total: Sym(("load", "in", off, 8), 8) if base == "in" and size == 1 and 0 <= off < total else None
                    # the generic entry points take (input, count, width, output[, capacity])
                    args = []
                    ptrs = 0
                    ints = 0
                    for p in fn.params:
                        t = p["t"].replace("const ", "")
                        if "*" in t and "size_t *" not in t:
                            args.append(Ptr("in", 0, 1) if ptrs == 0 else Ptr("out", 0, 1))
                            ptrs += 1
                        elif "*" in t:
                            args.append(Ptr("osz", 0, 8))
                        else:
                            pn = p["n"].lower()
                            if "width" in pn or "size" in pn and "value" in pn or pn in ("type_length", "elem_size", "byte_width"):
                                args.append(width)
                            elif "cap" in pn or pn.endswith("_size") or pn in ("size", "output_size", "data_size"):
                                args.append(total)
                            else:
                                args.append(count)
                            ints += 1
                    ret, ev, heap = sem.run(P, fn, args, heap0={}, hooks={}, single=True, memory=mem, max_forks=4, budget=200000, inline_depth=4)
                    done += 1
                    if ret != 0:
                        raise sem.Inconclusive("width %d count %d: returns %r (parameter roles not established)" % (width, count, ret))
                    for k in range(width):
                        for i in range(count):
                            src_, dst_ = (i * width + k, k * count + i) if enc else (k * count + i, i * width + k)
                            v = heap.get(("out", dst_))
                            ok = isinstance(v, Sym) and isinstance(v.t, tuple) and v.t[:3] == ("load", "in", src_)
                            if not ok and bad is None:
                                bad = "width %d, %d values: output byte %d holds %s, the specification puts input byte %d there" % (
                                    width, count, dst_, v.t if isinstance(v, Sym) else v, src_)
        except (sem.Inconclusive, KeyError) as ex:
            ctx.inconclusive(rule, key, P.where(fn.body), what, "%s: %s" % (type(ex).__name__, ex))
            continue
        n += done
        ctx.ob(rule, key, P.where(fn.body), what + " (%d cases)" % done, bad is None, bad or "")
    return n
