"""R12: copies from the output's own history are only as wide as the guarded distance.

LZ-style decoders copy a match from `op - D` to `op`. Source and destination overlap when the
length exceeds the distance D, and the format defines the result as a forward byte copy (the
bytes written first are read again). A block copy (memcpy, a vector load/store pair) of N bytes
from the history pointer to the output pointer therefore equals the byte copy only when D >= N.
The rule: every such block copy is nested in a branch whose condition establishes D >= K with
K >= N (N constant), or D >= N for the same variable N. Byte-wise loops are always accepted.

History pointers are found structurally: a local initialised as `<pointer> - D` (decoders), or the
(dst, src, len, offset) parameters of the functions installed in the dispatch slot `match_copy`.
"""
from ..facts import src

LOAD_WIDTH = {"_mm_loadu_si128": 16, "_mm_load_si128": 16, "_mm_lddqu_si128": 16, "_mm_loadl_epi64": 8,
              "_mm256_loadu_si256": 32, "_mm256_load_si256": 32, "_mm256_lddqu_si256": 32,
              "_mm512_loadu_si512": 64, "_mm512_load_si512": 64,
              "_mm_loadu_ps": 16, "_mm_loadu_pd": 16, "_mm256_loadu_ps": 32, "_mm256_loadu_pd": 32,
              "_mm512_loadu_ps": 64, "_mm512_loadu_pd": 64}


def _base_decl(e):
    """declaration id of the pointer variable an address expression is built on"""
    x = e.strip_casts()
    while True:
        if x.k in ("ParenExpr", "ImplicitCastExpr", "CStyleCastExpr"):
            x = x.c[0]
        elif x.k == "BinaryOperator" and x.op in ("+", "-"):
            x = x.c[0].strip_casts()
        elif x.k == "UnaryOperator" and x.op in ("++", "--"):
            x = x.c[0].strip_casts()
        elif x.k == "UnaryOperator" and x.op == "&" and x.c[0].strip_casts().k == "ArraySubscriptExpr":
            x = x.c[0].strip_casts().c[0].strip_casts()
        else:
            break
    if x.k == "DeclRefExpr" and x.get("dk") in ("local", "param"):
        return x.get("d")
    return None


def history_pointers(fn, slot_params=None):
    """[(src decl id, dst decl id, distance decl id, distance name)]"""
    out = []
    for n in fn.body.walk():
        if n.k != "DeclStmt":
            continue
        for d, init in zip(n.get("decls", []), n.c):
            if init is None or "*" not in (d.get("t") or ""):
                continue
            e = init.strip_casts()
            if e.k == "BinaryOperator" and e.op == "-" and "*" in (e.c[0].t or ""):
                dist = e.c[1].strip_casts()
                dst = _base_decl(e.c[0])
                if dist.k == "DeclRefExpr" and dst is not None:
                    out.append((d["d"], dst, dist.get("d"), dist.name))
    if slot_params is not None:
        pn = fn.params
        if len(pn) == 4:
            out.append((pn[1]["d"], pn[0]["d"], pn[3]["d"], pn[3]["n"]))
    return out


def _guard_for(node, dist_decl):
    """Strongest lower bound on the distance established by the branches `node` is nested in:
    ('const', K) / ('var', text) list."""
    bounds = []
    child = node
    for a in node.ancestors():
        if a.k == "IfStmt":
            kids = [x for x in a.c if x is not None]
            cond, then = kids[0], kids[1]
            els = kids[2] if len(kids) > 2 else None
            in_then = any(x is child for x in [then]) or _contains(then, child)
            in_else = els is not None and _contains(els, child)
            leaves = []

            def split(c, op):
                c = c.strip()
                if c.k == "BinaryOperator" and c.op == op:
                    split(c.c[0], op)
                    split(c.c[1], op)
                else:
                    leaves.append(c)
            if in_then:
                split(cond, "&&")
                for lf in leaves:
                    b = _lower(lf, dist_decl, True)
                    if b:
                        bounds.append(b)
            elif in_else:
                split(cond, "||")
                for lf in leaves:
                    b = _lower(lf, dist_decl, False)
                    if b:
                        bounds.append(b)
        elif a.k == "CompoundStmt":
            # an earlier `if (c) { ...; return/continue/break; }` of the same block: !c holds from there on
            for sib in a.c:
                if sib is child or _contains(sib, child):
                    break
                if sib is None or sib.k != "IfStmt":
                    continue
                kids = [x for x in sib.c if x is not None]
                if len(kids) != 2 or not _always_leaves(kids[1]):
                    continue
                leaves = []

                def split2(c):
                    c = c.strip()
                    if c.k == "BinaryOperator" and c.op == "||":
                        split2(c.c[0])
                        split2(c.c[1])
                    else:
                        leaves.append(c)
                split2(kids[0])
                for lf in leaves:
                    b = _lower(lf, dist_decl, False)
                    if b:
                        bounds.append(b)
        child = a
    return bounds


def _always_leaves(st):
    """The statement never falls through: it is, or ends in, a return / continue / break / goto."""
    if st.k in ("ReturnStmt", "ContinueStmt", "BreakStmt", "GotoStmt"):
        return True
    if st.k == "CompoundStmt":
        kids = [x for x in st.c if x is not None]
        return bool(kids) and _always_leaves(kids[-1])
    if st.k == "IfStmt":
        kids = [x for x in st.c if x is not None]
        return len(kids) == 3 and _always_leaves(kids[1]) and _always_leaves(kids[2])
    return False


def _contains(root, n):
    x = n
    while x is not None:
        if x is root:
            return True
        x = x.parent
    return False


def _lower(lf, dist_decl, truth):
    """lower bound on the distance implied by leaf condition lf being `truth`"""
    if lf.k != "BinaryOperator" or lf.op not in (">=", ">", "<", "<=", "=="):
        return None
    l, r = lf.c[0].strip_casts(), lf.c[1].strip_casts()
    op = lf.op
    if r.k == "DeclRefExpr" and r.get("d") == dist_decl and not (l.k == "DeclRefExpr" and l.get("d") == dist_decl):
        l, r = r, l
        op = {">=": "<=", ">": "<", "<": ">", "<=": ">=", "==": "=="}[op]
    if not (l.k == "DeclRefExpr" and l.get("d") == dist_decl):
        return None
    if not truth:
        op = {">=": "<", ">": "<=", "<": ">=", "<=": ">", "==": "!="}[op]
    if op not in (">=", ">", "=="):
        return None
    if lf.c[1].cv is not None and r is lf.c[1].strip_casts():
        K = lf.c[1].cv
        return ("const", K + 1 if op == ">" else K)
    if r.k == "DeclRefExpr" and op in (">=", ">"):
        return ("var", r.get("d"))
    return None


def check(ctx, fns, rule="R12.overlap", key_prefix="overlap", slot_fns=()):
    P = ctx.P
    n = 0
    for fn in fns:
        hp = history_pointers(fn, slot_params=True if fn.name in slot_fns else None)
        if not hp:
            continue
        seen = {}
        for srcd, dstd, distd, dname in hp:
            copies = []   # (node, width const or None, width var decl, text)
            for c in fn.body.walk():
                if c.k != "CallExpr" or not c.callee:
                    continue
                if c.callee in ("memcpy", "__builtin_memcpy") and len(c.args()) == 3:
                    a = c.args()
                    if _base_decl(a[1]) == srcd and _base_decl(a[0]) == dstd:
                        w = a[2].strip_casts()
                        copies.append((c, a[2].cv, w.get("d") if w.k == "DeclRefExpr" else None, src(c)[:60]))
                elif c.callee in LOAD_WIDTH and c.args() and _base_decl(c.args()[0]) == srcd:
                    copies.append((c, LOAD_WIDTH[c.callee], None, src(c)[:60]))
            for c, wc, wv, txt in copies:
                n += 1
                k0 = "%s|%s:%s|%s" % (key_prefix, P.rel(fn.file), fn.name, (c.callee + ":" + (str(wc) if wc is not None else "n")))
                seen[k0] = seen.get(k0, 0) + 1
                key = k0 + ("#%d" % (seen[k0] - 1) if seen[k0] > 1 else "")
                bounds = _guard_for(c, distd)
                what = ("block copy `%s` from the output's own history (distance `%s`) is only executed when "
                        "%s >= %s" % (txt, dname, dname, wc if wc is not None else "its length"))
                ok = False
                how = "guards on %s: %s" % (dname, bounds or "none")
                for kind, v in bounds:
                    if kind == "const" and wc is not None and v >= wc:
                        ok = True
                    if kind == "var" and wv is not None and v == wv:
                        ok = True
                if wc is None and wv is None:
                    ctx.inconclusive(rule, key, P.where(c), what, "copy length is neither a constant nor a variable")
                    continue
                ctx.ob(rule, key, P.where(c), what, ok, how)
    return n


def run(ctx, rule="R12.overlap", decoders=True):
    """The rule over the LZ decoders and every implementation installed in the match_copy slot."""
    from .. import callgraph
    P = ctx.P
    cg = callgraph.get(P)
    slot = sorted(cg.slots.get("match_copy", ()))
    slot_fns = [P.functions[k] for k in slot]
    fns = (P.funcs_in("src/compression/snappy.c", "src/compression/lz4.c") if decoders else []) + \
        [f for f in slot_fns if P.rel(f.file) not in ("src/compression/snappy.c", "src/compression/lz4.c")]
    n = check(ctx, fns, rule, slot_fns=tuple(f.name for f in slot_fns))
    ctx.floor("match_copy slot implementations", len(slot_fns), 2)
    ctx.floor("block copies from the output history", n, 6 if decoders else 3)
    return n
