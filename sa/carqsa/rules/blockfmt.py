"""Snappy and LZ4 block decoders against the format documents, on streams whose structure is given and whose
payload is opaque.

A compressed block is structure (tags, lengths, offsets - a few bytes the decoder branches on) wrapped around
payload (literal bytes the decoder only moves). The rule builds streams from the format definition - every element
kind, lengths and offsets on either side of every field boundary, overlapping copies, the longest forms - with
concrete structure bytes and *opaque* payload bytes, executes carquet's decompressor on them abstractly, and
compares the output, byte by byte as "which input byte ended up here", with what a decoder written from the
format document (below, in Python, over the same opaque bytes) produces. Streams the formats define as invalid
(zero offset, offset before the start of the output, element running past the input, output longer than
announced) must be rejected.

What this decides is the decoder's reading of every element form; it is bounded by the grid of forms, and it
says nothing about the encoder's choice of matches (the encoder's element emission is decided by the element
rules of C09, its length fields by R35/R38)."""
from . import sem
from .skeleton import OutOfBounds, Ptr, Sym, U

SN = "src/compression/snappy.c"
LZ = "src/compression/lz4.c"


class Bad(Exception):
    pass


class Outside(Exception):
    pass


def varint(n):
    out = []
    while n >= 0x80:
        out.append((n & 0x7F) | 0x80)
        n >>= 7
    out.append(n)
    return out


# ---- stream builders: lists of ints (structure) and None (opaque payload) -------------------------------------
def sn_literal(n):
    if n <= 60:
        return [((n - 1) << 2)] + [None] * n
    m = n - 1
    nb = 1 if m < (1 << 8) else 2 if m < (1 << 16) else 3 if m < (1 << 24) else 4
    return [((59 + nb) << 2)] + [(m >> (8 * i)) & 0xFF for i in range(nb)] + [None] * n


def sn_copy1(ln, off):
    assert 4 <= ln <= 11 and 0 <= off < 2048
    return [1 | ((ln - 4) << 2) | ((off >> 8) << 5), off & 0xFF]


def sn_copy2(ln, off):
    assert 1 <= ln <= 64 and 0 <= off < 65536
    return [2 | ((ln - 1) << 2), off & 0xFF, off >> 8]


def sn_copy4(ln, off):
    assert 1 <= ln <= 64
    return [3 | ((ln - 1) << 2)] + [(off >> (8 * i)) & 0xFF for i in range(4)]


def lz_seq(lit, mlen=None, off=None):
    """one LZ4 sequence: `lit` literal bytes, then (optionally) a match of mlen >= 4 bytes at distance off"""
    tok = (min(lit, 15) << 4) | (0 if mlen is None else min(mlen - 4, 15))
    out = [tok]
    if lit >= 15:
        r = lit - 15
        out += [255] * (r // 255) + [r % 255]
    out += [None] * lit
    if mlen is not None:
        out += [off & 0xFF, (off >> 8) & 0xFF]
        if mlen - 4 >= 15:
            r = mlen - 4 - 15
            out += [255] * (r // 255) + [r % 255]
    return out


# ---- decoders written from the format documents, over (int | token) bytes -------------------------------------
def sn_spec(stream):
    pos = 0
    n = 0
    shift = 0
    while True:
        if pos >= len(stream) or shift > 28:
            raise Bad("preamble")
        b = stream[pos][1]
        pos += 1
        n |= (b & 0x7F) << shift
        if not (b & 0x80):
            break
        shift += 7
    out = []
    while pos < len(stream):
        tag = stream[pos][1]
        pos += 1
        kind = tag & 3
        if kind == 0:
            ln = (tag >> 2) + 1
            if ln > 60:
                nb = ln - 60
                if pos + nb > len(stream):
                    raise Bad("literal length truncated")
                ln = sum(stream[pos + i][1] << (8 * i) for i in range(nb)) + 1
                pos += nb
            if pos + ln > len(stream):
                raise Bad("literal past the input")
            out += [stream[pos + i] for i in range(ln)]
            pos += ln
            continue
        if kind == 1:
            if pos + 1 > len(stream):
                raise Bad("copy truncated")
            ln, off = 4 + ((tag >> 2) & 7), ((tag >> 5) << 8) | stream[pos][1]
            pos += 1
        elif kind == 2:
            if pos + 2 > len(stream):
                raise Bad("copy truncated")
            ln, off = 1 + (tag >> 2), stream[pos][1] | (stream[pos + 1][1] << 8)
            pos += 2
        else:
            if pos + 4 > len(stream):
                raise Bad("copy truncated")
            ln, off = 1 + (tag >> 2), sum(stream[pos + i][1] << (8 * i) for i in range(4))
            pos += 4
        if off == 0 or off > len(out):
            raise Bad("offset %d with %d bytes produced" % (off, len(out)))
        for _ in range(ln):
            out.append(out[-off])
        if len(out) > n:
            raise Bad("more output than announced")
    if len(out) != n:
        raise Bad("announced %d, produced %d" % (n, len(out)))
    return out


def lz_spec(stream):
    pos = 0
    out = []
    while pos < len(stream):
        tok = stream[pos][1]
        pos += 1
        lit = tok >> 4
        if lit == 15:
            while True:
                if pos >= len(stream):
                    raise Bad("literal length truncated")
                s = stream[pos][1]
                pos += 1
                lit += s
                if s != 255:
                    break
        if pos + lit > len(stream):
            raise Bad("literals past the input")
        out += stream[pos:pos + lit]
        pos += lit
        if pos >= len(stream):
            break               # the last sequence is literals only
        if pos + 2 > len(stream):
            raise Bad("offset truncated")
        off = stream[pos][1] | (stream[pos + 1][1] << 8)
        pos += 2
        ml = tok & 15
        if ml == 15:
            while True:
                if pos >= len(stream):
                    raise Bad("match length truncated")
                s = stream[pos][1]
                pos += 1
                ml += s
                if s != 255:
                    break
        ml += 4
        if off == 0 or off > len(out):
            raise Bad("offset %d with %d bytes produced" % (off, len(out)))
        for _ in range(ml):
            out.append(out[-off])
    return out


# ---- carquet's decoder on the same stream ------------------------------------------------------------------------
def run_decoder(P, fn, raw, cap):
    """raw: ints and None. Returns (status, reported size, [tokens])."""
    heap0 = {("in", i): b for i, b in enumerate(raw) if b is not None}
    mem = lambda base, off, size: Sym(("load", "in", off, 8), 8) if base == "in" and 0 <= off < len(raw) and size == 1 else None
    try:
        paths = sem.run(P, fn, [Ptr("in", 0, 1), len(raw), Ptr("out", 0, 1), cap, Ptr("osz", 0, 8)], heap0=heap0, hooks={},
                        single=False, memory=mem, max_forks=8, budget=6000000, inline_depth=5, with_acc=True,
                        bounds={"in": (0, len(raw)), "out": (0, cap)})
    except OutOfBounds as ob:
        a = ob.access
        if a.base == "in":
            raise Outside("reads input bytes %d..%d of a %d-byte stream" % (a.lo, a.hi - 1, len(raw)))
        raise Outside("%s output bytes %d..%d of a %d-byte destination" % ("writes" if a.kind == "w" else "reads", a.lo, a.hi - 1, cap))
    # extents: nothing is read outside the stream, nothing is touched outside the destination (on any path: a byte
    # fetched from behind the input is what makes the control flow fork in the first place)
    for ret, ev, heap, acc, unk in paths:
        for a in acc:
            if a.base == "in" and (a.lo < 0 or a.hi > len(raw)):
                raise Outside("reads input bytes %d..%d of a %d-byte stream" % (a.lo, a.hi - 1, len(raw)))
            if a.base == "out" and (a.lo < 0 or a.hi > cap):
                raise Outside("%s output bytes %d..%d of a %d-byte destination" % ("writes" if a.kind == "w" else "reads", a.lo, a.hi - 1, cap))
    if len(paths) != 1:
        raise sem.Inconclusive("%s: control flow depends on payload bytes (%d paths)" % (fn.name, len(paths)))
    ret, ev, heap, acc, unk = paths[0]
    size = heap.get(("osz", 0))
    toks = []
    if ret == 0 and isinstance(size, int):
        for i in range(size):
            v = heap.get(("out", i))
            if isinstance(v, Sym) and isinstance(v.t, tuple) and v.t[0] == "load" and v.t[1] == "in":
                toks.append(("in", v.t[2]))
            elif isinstance(v, int):
                toks.append(("const", v & 0xFF))
            else:
                toks.append(("?", repr(v)[:30]))
    return ret, size, toks


def tokens_of(raw):
    return [("b", b) if b is not None else ("in", i) for i, b in enumerate(raw)]


def _norm(spec_out):
    return [t if t[0] == "in" else ("const", t[1]) for t in spec_out]


def sn_streams(deep):
    V, I = [], []

    def S(*parts):
        body = [b for p in parts for b in p]
        n = 0
        # announced length: what the elements produce
        toks = [("b", b) if b is not None else ("in", 0) for b in body]
        try:
            n = len(sn_spec(tokens_of(varint(0) + body)[:1] + toks)) if False else None
        except Bad:
            n = None
        return body
    lits = [1, 2, 59, 60, 61, 62, 255, 256, 257, 300]
    for L in lits:
        V.append(("literal of %d" % L, [sn_literal(L)]))
    for ln, off in ((4, 1), (4, 4), (7, 8), (11, 8), (11, 3), (5, 2), (8, 8), (9, 7)):
        V.append(("literal 8, copy-1 len %d offset %d" % (ln, off), [sn_literal(8), sn_copy1(ln, off)]))
    V.append(("literal 2100, copy-1 len 11 offset 2047", [sn_literal(2100), sn_copy1(11, 2047)]))
    for ln, off in ((1, 1), (64, 70), (64, 1), (13, 64), (33, 8), (2, 2048), (60, 69)):
        V.append(("literal 2100, copy-2 len %d offset %d" % (ln, off), [sn_literal(2100), sn_copy2(ln, off)]))
    for ln, off in ((1, 1), (64, 70), (20, 8)):
        V.append(("literal 70, copy-4 len %d offset %d" % (ln, off), [sn_literal(70), sn_copy4(ln, off)]))
    V.append(("literal, copy, literal, copy", [sn_literal(10), sn_copy1(4, 10), sn_literal(61), sn_copy2(64, 75), sn_literal(1)]))
    # the same copies with plenty of output still to come (room for a decoder's wide stores), overlapping and not
    for ln, off in ((11, 8), (11, 9), (10, 15), (11, 16), (4, 1), (9, 3)):
        V.append(("literal 20, copy-1 len %d offset %d, literal 40" % (ln, off), [sn_literal(20), sn_copy1(ln, off), sn_literal(40)]))
    for ln, off in ((64, 8), (64, 15), (64, 16), (64, 17), (33, 32), (17, 20), (64, 63)):
        V.append(("literal 70, copy-2 len %d offset %d, literal 40" % (ln, off), [sn_literal(70), sn_copy2(ln, off), sn_literal(40)]))
    # offsets with the top bit of the 16-bit field set (a decoder that assembles the offset in a signed 16-bit type goes wrong here)
    V.append(("literal 32800, copy-2 len 20 offset 32768", [sn_literal(32800), sn_copy2(20, 32768)]))
    V.append(("literal 40010, copy-2 len 64 offset 40000, literal 3", [sn_literal(40010), sn_copy2(64, 40000), sn_literal(3)]))
    if deep:
        V.append(("literal 65600, copy-2 len 64 offset 65535", [sn_literal(65600), sn_copy2(64, 65535)]))
        V.append(("literal 65600, copy-4 len 64 offset 65537", [sn_literal(65601), sn_copy4(64, 65537)]))
    I.append(("copy-1 with offset 0", [sn_literal(8), sn_copy1(4, 0)], None))
    I.append(("copy-2 offset past the start of the output", [sn_literal(8), sn_copy2(4, 9)], None))
    I.append(("copy-4 offset past the start of the output", [sn_literal(8), sn_copy4(4, 100000)], None))
    I.append(("literal header announcing more bytes than the input holds", [sn_literal(20)[:-3]], 20))
    I.append(("copy-2 missing its second offset byte", [sn_literal(8), sn_copy2(4, 4)[:-1]], 12))
    I.append(("copy-1 tag as the last byte of the input", [sn_literal(8), sn_copy1(4, 4)[:-1]], 12))
    I.append(("copy-4 missing offset bytes", [sn_literal(8), sn_copy4(4, 4)[:-2]], 12))
    I.append(("literal tag announcing 2 length bytes as the last byte", [sn_literal(8), [61 << 2]], 300))
    I.append(("elements producing more than the announced length", [sn_literal(8), sn_copy1(4, 4)], 10))
    I.append(("elements producing less than the announced length", [sn_literal(8)], 9))
    # length fields with the top bit of their last byte set (an implementation that assembles them in a signed int goes negative)
    I.append(("literal with 4 length bytes announcing 2^31 + 1 bytes", [[(63 << 2), 0x00, 0x00, 0x00, 0x80, 1, 2, 3]], 100))
    I.append(("literal with 4 length bytes announcing 2^32 bytes", [[(63 << 2), 0xFF, 0xFF, 0xFF, 0xFF, 1, 2, 3]], 100))
    I.append(("literal with 3 length bytes announcing 2^23 + 1 bytes", [[(62 << 2), 0x00, 0x00, 0x80, 1, 2, 3]], 100))
    # malformed length preambles: given as the whole stream (parts = None)
    I.append(("length preamble cut off after one continuation byte", None, [0x80]))
    I.append(("length preamble cut off after three continuation bytes", None, [0x81, 0x80, 0x80]))
    I.append(("length preamble of six bytes", None, [0x80, 0x80, 0x80, 0x80, 0x80, 0x00] + sn_literal(1)))
    I.append(("length preamble of five continuation bytes and nothing else", None, [0x88, 0x80, 0x80, 0x80, 0x80]))
    return V, I


def lz_streams(deep):
    V, I = [], []
    for L in (0, 1, 14, 15, 16, 269, 270, 271, 524, 525, 526):
        V.append(("literals only, %d" % L, [lz_seq(L)]))
    for ml, off in ((4, 1), (4, 4), (18, 8), (19, 8), (20, 3), (273, 8), (274, 8), (275, 8), (19 + 255 + 255, 8), (7, 7), (8, 8), (9, 8), (40, 13)):
        V.append(("literals 13, match %d at distance %d, 5 literals" % (ml, off), [lz_seq(13, ml, off), lz_seq(5)]))
    V.append(("two matches", [lz_seq(15, 4, 15), lz_seq(0, 30, 2), lz_seq(270, 19, 100), lz_seq(6)]))
    # matches with plenty of output still to come and distances around the widths of block copies
    for ml, off in ((20, 8), (20, 9), (20, 15), (20, 16), (20, 17), (33, 31), (33, 32), (40, 24), (64, 16), (5, 16), (17, 16)):
        V.append(("literals 40, match %d at distance %d, 30 literals" % (ml, off), [lz_seq(40, ml, off), lz_seq(30)]))
    for ml, off in ((20, 16), (36, 16), (17, 32), (4, 16)):
        V.append(("literals 40, match %d at distance %d, then only 5 literals" % (ml, off), [lz_seq(40, ml, off), lz_seq(5)]))
    V.append(("match with no literals before it", [lz_seq(9, 5, 9), lz_seq(0, 4, 1), lz_seq(5)]))
    if deep:
        V.append(("distance 65535", [lz_seq(65540, 20, 65535), lz_seq(5)]))
    I.append(("match at distance 0", [lz_seq(13, 4, 0), lz_seq(5)], None))
    I.append(("match reaching before the start of the output", [lz_seq(13, 4, 14), lz_seq(5)], None))
    I.append(("literal length bytes cut off", [lz_seq(270)[:2]], None))
    I.append(("literals running past the input", [lz_seq(20)[:-4]], None))
    I.append(("offset cut off", [lz_seq(13, 4, 4)[:-1]], None))
    return V, I


def check(ctx, rule="R41.block-format", deep=False, valid_only=False):
    P = ctx.P
    n = 0
    for name, file_, fname, spec, streams, preamble in (("Snappy", SN, "carquet_snappy_decompress", sn_spec, sn_streams, True),
                                                         ("LZ4", LZ, "carquet_lz4_decompress", lz_spec, lz_streams, False)):
        fn = P.fn_opt(fname, file_)
        if fn is None:
            continue
        V, I = streams(deep)
        key = "decoder-elements|%s:%s" % (file_, fname)
        what = ("%s returns, for every valid %s stream of the grid (all element kinds, lengths and offsets on either side of every field "
                "boundary, overlapping copies; structure concrete, payload opaque), the bytes a decoder written from the format document "
                "returns, into a buffer of exactly that size" % (fname, name))
        bad = None
        done = 0
        try:
            for label, parts in V:
                body = [b for p in parts for b in p]
                if preamble:
                    # announced length = what the format's decoder produces for the body
                    exp_n = len(_sn_len(body))
                    raw = varint(exp_n) + body
                else:
                    raw = body
                want = _norm(spec(tokens_of(raw)))
                try:
                    ret, size, toks = run_decoder(P, fn, raw, len(want))
                except Outside as ex:
                    done += 1
                    bad = bad or "%s (%d stream bytes, %d output bytes): %s" % (label, len(raw), len(want), ex)
                    continue
                done += 1
                if bad is None and (ret != 0 or size != len(want) or toks != want):
                    k = next((i for i, (a, b) in enumerate(zip(toks, want)) if a != b), min(len(toks), len(want)))
                    bad = "%s (%d stream bytes): %s" % (label, len(raw),
                        "returns %s" % ret if ret != 0 else "reports %s bytes, the format gives %d" % (size, len(want)) if size != len(want)
                        else "output byte %d is %s, the format gives %s" % (k, toks[k] if k < len(toks) else None, want[k] if k < len(want) else None))
        except (sem.Inconclusive, KeyError) as ex:
            ctx.inconclusive(rule, key, P.where(fn.body), what, "%s: %s" % (type(ex).__name__, ex))
            continue
        n += done
        ctx.ob(rule, key, P.where(fn.body), what + " (%d streams)" % done, bad is None, bad or "")
        if valid_only:
            continue
        key2 = "decoder-rejects|%s:%s" % (file_, fname)
        what2 = "%s rejects the streams of the grid that the %s format defines as invalid" % (fname, name)
        bad = None
        done = 0
        try:
            for label, parts, announced in I:
                if parts is None:
                    raw = list(announced)
                else:
                    body = [b for p in parts for b in p]
                    if preamble:
                        raw = varint(announced if announced is not None else len(_sn_len(body, lenient=True))) + body
                    else:
                        raw = body
                try:
                    spec(tokens_of(raw))
                    continue            # the grid entry is not invalid after all: not judged
                except Bad:
                    pass
                except (IndexError, TypeError):
                    pass
                try:
                    ret, size, toks = run_decoder(P, fn, raw, 4096)
                except Outside as ex:
                    done += 1
                    bad = bad or "%s: %s" % (label, ex)
                    continue
                done += 1
                if bad is None and ret == 0:
                    bad = "%s: accepted, reporting %s bytes" % (label, size)
        except (sem.Inconclusive, KeyError) as ex:
            ctx.inconclusive(rule, key2, P.where(fn.body), what2, "%s: %s" % (type(ex).__name__, ex))
            continue
        n += done
        ctx.ob(rule, key2, P.where(fn.body), what2 + " (%d streams)" % done, bad is None, bad or "")
    # the length query reads the same preamble: well-formed ones give their value, malformed ones are refused
    gl = P.fn_opt("carquet_snappy_get_uncompressed_length", SN)
    if gl is not None and not valid_only:
        key3 = "preamble|%s:carquet_snappy_get_uncompressed_length" % SN
        what3 = ("carquet_snappy_get_uncompressed_length returns the value of a well-formed length preamble (one value on either side of every 7-bit boundary) "
                 "and refuses a preamble that is cut off or longer than five bytes")
        bad, done = None, 0
        try:
            for v in (0, 1, 127, 128, 16383, 16384, 2097151, 2097152, 268435455, 268435456, 0xFFFFFFFF):
                raw = varint(v) + [0x00, 0x41]
                ret, ev, heap = sem.run(P, gl, [Ptr("in", 0, 1), len(raw), Ptr("len", 0, 8)], heap0={("in", i): b for i, b in enumerate(raw)}, hooks={},
                                        single=True, max_forks=4, budget=100000, inline_depth=5)
                done += 1
                if bad is None and (ret != 0 or heap.get(("len", 0)) != v):
                    bad = "preamble of the length %d: returns %r with length %r" % (v, ret, heap.get(("len", 0)))
            for label, parts, raw in sn_streams(False)[1]:
                if parts is not None:
                    continue
                ret, ev, heap = sem.run(P, gl, [Ptr("in", 0, 1), len(raw), Ptr("len", 0, 8)], heap0={("in", i): b for i, b in enumerate(raw)}, hooks={},
                                        single=True, max_forks=4, budget=100000, inline_depth=5)
                done += 1
                if bad is None and ret == 0:
                    bad = "%s: accepted, reporting the length %r" % (label, heap.get(("len", 0)))
        except (sem.Inconclusive, KeyError) as ex:
            ctx.inconclusive(rule, key3, P.where(gl.body), what3, "%s: %s" % (type(ex).__name__, ex))
        else:
            n += done
            ctx.ob(rule, key3, P.where(gl.body), what3 + " (%d preambles)" % done, bad is None, bad or "")
    return n


def _sn_len(body, lenient=False):
    """what the elements of a Snappy body produce (tokens), ignoring the preamble"""
    toks = tokens_of(body)
    pos = 0
    out = []
    while pos < len(toks):
        tag = toks[pos][1]
        pos += 1
        kind = tag & 3
        try:
            if kind == 0:
                ln = (tag >> 2) + 1
                if ln > 60:
                    nb = ln - 60
                    ln = sum(toks[pos + i][1] << (8 * i) for i in range(nb)) + 1
                    pos += nb
                out += toks[pos:pos + ln]
                pos += ln
                continue
            if kind == 1:
                ln, off = 4 + ((tag >> 2) & 7), ((tag >> 5) << 8) | toks[pos][1]
                pos += 1
            elif kind == 2:
                ln, off = 1 + (tag >> 2), toks[pos][1] | (toks[pos + 1][1] << 8)
                pos += 2
            else:
                ln, off = 1 + (tag >> 2), sum(toks[pos + i][1] << (8 * i) for i in range(4))
                pos += 4
        except (IndexError, TypeError):
            if lenient:
                return out
            raise
        for _ in range(ln):
            out.append(out[-off] if 0 < off <= len(out) else ("x", 0))
    return out
