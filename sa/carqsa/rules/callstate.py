"""R47: a table that outlives the call (thread-local or static) is reset in every call before it is consulted.

A compressor's match table is scratch state: what it holds at the start of a call is whatever an earlier call left
there (positions in an input that may be gone). Keeping such a table per thread instead of on the stack is a fine
optimisation as long as every call starts from a reset table; a reset that is skipped on some path (only when the new
input is far from the old one, only every n-th call, ...) makes what the call emits depend on the calls before it.

  table          a thread-local or static *array* (or array of pointers) defined in the files given; thread-local
                 pointers to library contexts (ZSTD_CCtx *) are not tables;
  reset          `memset(T, ...)` of the table, or a call to a function of the file that resets it on every path from
                 its entry to each of its exits (must-pass, decided on that function's CFG);
  consult        any other mention of T, or a call to a function of the file that mentions T without being a resetting
                 function;
  obligation     in every externally visible function of the file from which T is consulted: no path from the entry to
                 a consulting element that avoids every reset. The witness is the branch path.
"""
from ..facts import src
from .flow import find_path_avoiding, describe_path


def _mentions(e, name):
    return any(x.k == "DeclRefExpr" and x.name == name and x.get("dk") == "global" for x in e.walk())


def _is_memset_of(e, name):
    if e.k == "CallExpr" and e.callee in ("memset", "__builtin_memset", "__memset_chk") and e.args():
        a = e.args()[0].strip_casts()
        while a is not None and a.k in ("UnaryOperator", "ArraySubscriptExpr", "ParenExpr", "ImplicitCastExpr") and a.c:
            a = a.c[0].strip_casts() if a.c[0] is not None else None
        return a is not None and a.k == "DeclRefExpr" and a.name == name
    return False


def tables(P, relfiles):
    out = []
    seen = set()
    lazy = set()
    try:
        from . import lazyinit
        for rf_, init, flag, tabs in lazyinit.instances(P, list(relfiles)):
            for t_ in tabs:
                lazy.add((rf_, t_))
    except Exception:
        pass
    for unit, g in P.globals:
        rf = P.rel(g["file"])
        if rf not in relfiles or not g.get("def") or g.get("const") or (g["name"], rf) in seen:
            continue
        if "[" not in (g.get("t") or ""):
            continue
        seen.add((g["name"], rf))
        if (rf, g["name"]) in lazy:
            continue            # a call-independent lookup table built once by an accepted lazy initialiser is not scratch state
        out.append((rf, g["name"], bool(g.get("tls"))))
    # static locals of array type
    for fn in P.funcs_in(*relfiles):
        if fn.body is None:
            continue
        for n in fn.body.walk():
            if n.k == "DeclStmt":
                for d in n.get("decls", []):
                    if d.get("static") and "const" not in (d.get("t") or "") and "[" in (d.get("t") or ""):
                        out.append((P.rel(fn.file), d["n"], bool(d.get("tls"))))
    return out


def check(ctx, relfiles, rule="R47.call-state", key_prefix="call-state"):
    P = ctx.P
    n = 0
    for rf, name, tls in tables(P, relfiles):
        fns = [f for f in P.funcs_in(rf) if f.body is not None and f.cfg is not None]
        users = [f for f in fns if _mentions(f.body, name)]
        if not users:
            continue
        # functions that reset the table on every path to every exit
        resetting = set()
        for f in users:
            def ev_reset(e, f=f):
                return _is_memset_of(e, name) or any(_is_memset_of(y, name) for y in e.walk())
            exits = lambda e: e.k == "ReturnStmt"
            has_return = any(r for r in f.returns())
            p = find_path_avoiding(f.cfg, ev_reset, exits) if has_return else None
            falls = None
            if not has_return or (f.ret or "").strip() == "void":
                # a void function also ends by falling off its end: the exit block must not be reachable without a reset
                falls = find_path_avoiding(f.cfg, ev_reset, lambda e: False)
                reach_exit = _reaches_exit_avoiding(f.cfg, ev_reset)
                if reach_exit:
                    p = p or [f.cfg.entry]
            if p is None and any(ev_reset(e) for B in f.cfg.blocks.values() for e in B.elems):
                resetting.add(f.name)
        accessors = set(f.name for f in users if f.name not in resetting)
        # transitive: callers (in the file) of accessors are accessors too, unless they reset first - judged on their own CFG below
        entry = [f for f in fns if not f.static]
        for f in entry:
            def is_reset(e):
                if _is_memset_of(e, name) or any(_is_memset_of(y, name) for y in e.walk()):
                    return True
                return any(y.k == "CallExpr" and y.callee in resetting for y in e.walk())

            def consults(e):
                if is_reset(e):
                    return False
                if _mentions(e, name):
                    return True
                return any(y.k == "CallExpr" and y.callee in accessors for y in e.walk())
            if not any(consults(e) for B in f.cfg.blocks.values() for e in B.elems):
                continue
            n += 1
            key = "%s|%s:%s|%s" % (key_prefix, rf, f.name, name)
            what = ("the %s table `%s` is reset in every call of %s before it is consulted (what it holds at entry was left by an earlier call)"
                    % ("thread-local" if tls else "static", name, f.name))
            path = find_path_avoiding(f.cfg, is_reset, consults)
            ctx.ob(rule, key, P.where(f.body), what, path is None,
                   "" if path is None else "a path reaches a use of the table without a reset: %s%s" % (
                       _text(describe_path(f, f.cfg, path)), "" if resetting else "; no function of the file resets it on all of its paths"))
    return n


def _text(d):
    if isinstance(d, (list, tuple)):
        return "; ".join(str(x) for x in d) or "the straight path"
    return d


def _reaches_exit_avoiding(cfg, is_event):
    """can control fall to the CFG's exit block without executing an event element?"""
    seen = set()
    stack = [cfg.entry]
    exit_id = getattr(cfg, "exit", None)
    while stack:
        b = stack.pop()
        if b in seen:
            continue
        seen.add(b)
        B = cfg.blocks[b]
        if any(is_event(e) for e in B.elems):
            continue
        succs = [s for s in B.succs if s is not None]
        if not succs or b == exit_id:
            return True
        stack.extend(succs)
    return False
