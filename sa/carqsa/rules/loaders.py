"""Semantic traces of the four page loaders of the reader.

load_dictionary_page_{mmap,fread} and load_next_page_{mmap,fread} are executed by the cursor-skeleton
interpreter for finite scenarios (page type, CRC present or not, verification option, stored vs.
computed CRC, codec, levels or not). The page-header parser, stdio / positioned reads, the CRC, the
codecs, the allocator and the page decoders are hooked and recorded. A rule then reads *what happens
to the page bytes*: which bytes are checksummed, whether a mismatch stops before any consumer, which
bytes are handed to the decoder - independent of how a loader is organised (helpers with
out-parameters, early returns, merged conditions)."""
from . import sem
from .skeleton import Ptr, U

PR = "src/reader/page_reader.c"
HEADER_SIZE = 30
CSIZE, USIZE = 120, 480
DICT_OFF, DATA_OFF = 500, 1000
LOADERS = ("load_dictionary_page_mmap", "load_dictionary_page_fread", "load_next_page_mmap", "load_next_page_fread")


def bid(p):
    if isinstance(p, Ptr):
        return (p.base, p.off)
    return p


def trace(P, fname, page_type, has_crc, verify, stored_crc, computed_crc, codec, levels=True, num_values=10,
          encoding=0, avail=100000, current_page=0, csize=None, usize=None, view_state=False, capacity=100000,
          file_size=None, ptype=None, type_length=0, map_align=0, dict_off=None, data_off=None, native_geometry=False):
    fn = P.fn(fname, PR)
    ro = sem.field_offsets(P, "carquet_column_reader")
    fo = sem.field_offsets(P, "carquet_reader")
    oo = sem.field_offsets(P, "carquet_reader_options")
    mo = sem.field_offsets(P, "parquet_column_metadata")
    ho = sem.field_offsets(P, "parquet_page_header")
    dho = sem.field_offsets(P, "parquet_data_page_header")
    anon = [f["off"] // 8 for f in P.record("parquet_page_header")["fields"] if f["n"] == ""]
    anon = anon[0] if anon else max(ho.values()) + 8
    own = P.enum("carquet_data_ownership") if "carquet_data_ownership" in P.enums else {}
    pt = P.enum("carquet_physical_type")
    csize = CSIZE if csize is None else csize
    usize = USIZE if usize is None else usize
    fsize = (avail + DATA_OFF) if file_size is None else file_size
    dict_off = DICT_OFF if dict_off is None else dict_off
    data_off = DATA_OFF if data_off is None else data_off
    heap0 = {("rd", ro["file_reader"]): Ptr("fr", 0, 1), ("rd", ro["col_meta"]): Ptr("cm", 0, 1),
             ("rd", ro["has_dictionary"]): 1, ("rd", ro["data_start_offset"]): data_off, ("rd", ro["current_page"]): current_page,
             ("rd", ro["type"]): pt["CARQUET_PHYSICAL_INT32"] if ptype is None else ptype, ("rd", ro["type_length"]): type_length,
             ("rd", ro["max_def_level"]): 1 if levels else 0, ("rd", ro["max_rep_level"]): 0,
             ("rd", ro["decoded_ownership"]): own.get("CARQUET_DATA_VIEW", 1) if view_state else own.get("CARQUET_DATA_OWNED", 0),
             ("rd", ro["decoded_capacity"]): capacity,
             ("rd", ro["decoded_values"]): Ptr("map", 777, 1) if view_state else Ptr("dv", 0, 1), ("rd", ro["decoded_def_levels"]): Ptr("ddl", 0, 2),
             ("rd", ro["decoded_rep_levels"]): Ptr("drl", 0, 2),
             ("fr", fo["mmap_data"]): Ptr("map", 0, 1), ("fr", fo["file_size"]): fsize, ("fr", fo["file"]): Ptr("FILE", 0, 1),
             ("fr", fo["options"] + oo["verify_checksums"]): 1 if verify else 0,
             ("cm", mo["codec"]): codec, ("cm", mo["dictionary_page_offset"]): dict_off,
             ("cm", mo["has_dictionary_page_offset"]): 1, ("cm", mo["data_page_offset"]): data_off}
    # the column reader is a calloc'ed object: members the scenario does not set are zero
    for f_ in P.record("carquet_column_reader")["fields"]:
        if f_.get("off") is not None and f_["n"] and "[" not in f_["t"] and P.records.get(f_["t"].replace("struct ", "").replace("_t", "")) is None:
            heap0.setdefault(("rd", f_["off"] // 8), 0)
    nm = [0]

    def parse_hdr(ev, a, it):
        ev.append(("parse-header", bid(a[0]), a[1]))
        h = a[2]
        if isinstance(h, Ptr):
            it.heap[(h.base, h.off + ho["type"])] = page_type
            it.heap[(h.base, h.off + ho["uncompressed_page_size"])] = usize
            it.heap[(h.base, h.off + ho["compressed_page_size"])] = csize
            it.heap[(h.base, h.off + ho["has_crc"])] = 1 if has_crc else 0
            it.heap[(h.base, h.off + ho["crc"])] = stored_crc
            it.heap[(h.base, h.off + anon + dho["num_values"])] = num_values
            it.heap[(h.base, h.off + anon + dho["encoding"])] = encoding
        sem.set_out(it, a[3], HEADER_SIZE)
        return 0

    def malloc(ev, a, it):
        nm[0] += 1
        ev.append(("malloc", "m%d" % nm[0], a[0]))
        return Ptr("m%d" % nm[0], 0, 1)

    def read_at(ev, a, it):
        got = a[3]
        if isinstance(a[1], int) and isinstance(a[3], int):
            got = max(0, min(a[3], fsize - a[1])) if a[1] >= 0 else 0
        ev.append(("read", a[1], bid(a[2]), a[3]))
        sem.set_out(it, a[4], got)
        return 0
    fpos = [0]

    def fseek(ev, a, it):
        fpos[0] = a[1]
        return 0

    def fread(ev, a, it):
        want = a[1] * a[2] if isinstance(a[1], int) and isinstance(a[2], int) else a[2]
        got = max(0, min(want, fsize - fpos[0])) if isinstance(want, int) and isinstance(fpos[0], int) and fpos[0] >= 0 else want
        ev.append(("read", fpos[0], bid(a[0]), want))
        return got

    def read_page(ev, a, it):
        ev.append(("consume-page", bid(a[1]), a[2]))
        nv = it.heap.get((a[3].base, a[3].off + dho["num_values"])) if isinstance(a[3], Ptr) and isinstance(a[3].off, int) else U
        if len(a) > 8:
            sem.set_out(it, a[8], nv)       # *values_read: the decoder reports the page's value count
        return 0

    def codec_hook(name):
        def h(ev, a, it):
            ev.append(("decompress", name, bid(a[0]), a[1], bid(a[2]), a[3]))
            if len(a) > 4:
                sem.set_out(it, a[4], usize)
            return 0
        return h
    def crc_update(ev, a, it):
        # chained CRC: consecutive ranges of one buffer folded one after the other are one checksummed range
        prev, b, n = a[0], bid(a[1]), a[2]
        last = next((e for e in reversed(ev) if e[0] == "crc"), None)
        if prev != 0 and last is not None and isinstance(b, tuple) and isinstance(last[1], tuple) and last[1][0] == b[0] and \
                isinstance(last[2], int) and isinstance(b[1], int) and isinstance(last[1][1], int) and last[1][1] + last[2] == b[1] and isinstance(n, int):
            i_ = len(ev) - 1 - ev[::-1].index(last)
            ev[i_] = ("crc", last[1], last[2] + n)
        else:
            ev.append(("crc", b, n))
        return computed_crc
    hooks = {"parquet_parse_page_header": parse_hdr, "malloc": malloc, "carquet_crc32_update": crc_update,
             "free": lambda ev, a, it: ev.append(("free", bid(a[0]))),
             "fseek": fseek, "fread": fread,         # (the seek-and-read helper of the stdio loaders runs as written)
             "mmap_available": lambda ev, a, it: (max(0, fsize - a[1]) if isinstance(a[1], int) and a[1] >= 0 else 0),
             "carquet_crc32": lambda ev, a, it: ev.append(("crc", bid(a[0]), a[1])) or computed_crc,
             "carquet_error_set": lambda ev, a, it: None,
             "carquet_read_dictionary_page": lambda ev, a, it: ev.append(("consume-dict", bid(a[1]), a[2])) or 0,
             "carquet_read_data_page_v1": read_page,
             "memset": lambda ev, a, it: ev.append(("memset", bid(a[0]), a[2])) or a[0], "memcpy": lambda ev, a, it: ev.append(("copy", bid(a[0]), bid(a[1]), a[2])) or a[0]}
    for st in ("snappy", "lz4", "gzip", "zstd"):
        hooks["carquet_%s_decompress" % st] = codec_hook(st)
    if native_geometry:
        del hooks["mmap_available"]     # the real availability / extent predicates are interpreted
    ret, ev, heap = sem.run(P, fn, [Ptr("rd", 0, 1), 0], heap0=heap0, hooks=hooks, single=True, max_forks=64, budget=200000, on_start=lambda: (nm.__setitem__(0, 0), fpos.__setitem__(0, 0)),
                            align={"map": map_align, "dv": 0, "ddl": 0, "drl": 0, "m1": 0, "m2": 0, "m3": 0, "m4": 0})
    view = heap.get(("rd", ro["decoded_values"]))
    return ret, ev, {"decoded_values": bid(view), "page_loaded": heap.get(("rd", ro["page_loaded"])),
                     "decoded_def_levels": bid(heap.get(("rd", ro["decoded_def_levels"]))),
                     "decoded_rep_levels": bid(heap.get(("rd", ro["decoded_rep_levels"]))),
                     "decoded_capacity": heap.get(("rd", ro["decoded_capacity"])),
                     "data_start_offset": heap.get(("rd", ro["data_start_offset"])),
                     "decoded_ownership": heap.get(("rd", ro["decoded_ownership"])),
                     "page_values_read": heap.get(("rd", ro["page_values_read"])),
                     "page_header_size": heap.get(("rd", ro["page_header_size"])),
                     "page_compressed_size": heap.get(("rd", ro["page_compressed_size"])),
                     "page_num_values": heap.get(("rd", ro["page_num_values"]))}
