"""R2: resource pairing on all paths (intra-procedural, path-sensitive on clang's CFG).

Per function, every resource acquired in that function is tracked along every CFG path:
  owned(aliases) -> released | escaped(owner lvalue) | returned
Reported with a path witness:
  leak          an owned, non-NULL resource is still owned when the function exits
  double-free   a released resource is released again
  dangling      a resource that was stored into a longer-lived owner (struct field, out-param)
                is released through another alias while that owner still holds the pointer when
                the function exits (the owner will release it again / use it)
  realloc-leak  `X = realloc(X, n)`: on failure the only pointer to the old block is lost
Branches on `p`, `!p`, `p == NULL`, `p != NULL` (each a separate CFG block thanks to clang's
short-circuit lowering) prune the NULL arm; `a != b` alias-equality tests select the arm
consistent with the tracked aliasing (the case cppcheck 2.10 gets wrong at page_reader.c).
"""
from ..facts import src
from .results import lvalue_text, _strip_up

ACQ_PTR = {"malloc": "free", "calloc": "free", "realloc": "free", "strdup": "free", "strndup": "free",
           "fopen": "fclose", "fdopen": "fclose"}
RELEASE = {"free": "heap", "fclose": "stream"}
# constructor -> destructor pairs of the repo (return a pointer)
CTOR = {
    "carquet_page_writer_create": {"carquet_page_writer_destroy"},
    "carquet_column_writer_create": {"carquet_column_writer_destroy"},
    "carquet_row_group_writer_create": {"carquet_row_group_writer_destroy"},
    "carquet_statistics_builder_create": {"carquet_statistics_builder_destroy"},
    "carquet_column_index_builder_create": {"carquet_column_index_builder_destroy"},
    "carquet_offset_index_builder_create": {"carquet_offset_index_builder_destroy"},
    "carquet_bloom_filter_create": {"carquet_bloom_filter_destroy"},
    "carquet_bloom_filter_from_data": {"carquet_bloom_filter_destroy"},
    "carquet_schema_create": {"carquet_schema_free"},
    "carquet_mmap_open": {"carquet_mmap_close"},
    "carquet_reader_open": {"carquet_reader_close"},
    "carquet_reader_get_column": {"carquet_column_reader_free"},
}
# init(&obj) / destroy(&obj) pairs on objects named by address
INIT = {"carquet_buffer_init": {"carquet_buffer_destroy"},
        "carquet_buffer_init_capacity": {"carquet_buffer_destroy"},
        "dict_builder_init": {"dict_builder_destroy"},
        # zlib streams (inflateInit2 / deflateInit2 are macros over the *_ entry points; Z_OK == 0)
        "inflateInit2_": {"inflateEnd"}, "inflateInit_": {"inflateEnd"},
        "deflateInit2_": {"deflateEnd"}, "deflateInit_": {"deflateEnd"}}
INIT_RETURNS_STATUS = {"carquet_buffer_init_capacity", "dict_builder_init", "carquet_arena_init",
                       "inflateInit2_", "inflateInit_", "deflateInit2_", "deflateInit_"}

MAX_STATES = 6000


class Res:
    __slots__ = ("site", "kind", "aliases", "status", "owner", "rel", "maybe_null", "statusvar")

    def __init__(self, site, kind, aliases, rel):
        self.site = site          # acquiring call node
        self.kind = kind
        self.aliases = frozenset(aliases)
        self.status = "owned"     # owned | released | escaped | dangling
        self.owner = None         # lvalue text of the longer-lived owner
        self.rel = rel            # set of release function names
        self.maybe_null = True
        self.statusvar = None

    def key(self):
        return (self.site.i, self.aliases, self.status, self.owner, self.maybe_null, self.statusvar)

    def clone(self):
        r = Res(self.site, self.kind, self.aliases, self.rel)
        r.status, r.owner, r.maybe_null, r.statusvar = self.status, self.owner, self.maybe_null, self.statusvar
        return r


def _is_local_text(fn, text):
    """Does the lvalue text name a plain local variable (not a parameter, not a member)?"""
    if text is None or "->" in text or "." in text or "[" in text or text.startswith("*"):
        return False
    return text not in [p["n"] for p in fn.params]


def _addr_text(arg):
    """`&x` / `&x->f` -> text of the object whose address is taken."""
    a = arg.strip_casts()
    if a is not None and a.k == "UnaryOperator" and a.op == "&":
        return lvalue_text(a.c[0])
    return None


class Analyzer:
    def __init__(self, P, fn, extra_ctor=None, extra_release=None):
        self.P = P
        self.fn = fn
        self.cfg = fn.cfg
        self.findings = []   # (kind, res, node, path)
        self.ctor = dict(CTOR)
        if extra_ctor:
            self.ctor.update(extra_ctor)
        self.all_release = set(RELEASE)
        for v in self.ctor.values():
            self.all_release |= v
        for v in INIT.values():
            self.all_release |= v
        self.site_ids = set()
        self.capped = False
        self.frees_param = frees_param_summaries(P)
        self.stores_param = stores_param_summaries(P)
        self.fresh_out = fresh_out_summaries(P)

    # ---- state = tuple of Res (immutable by convention: always clone before change)
    def run(self):
        cfg = self.cfg
        if cfg is None:
            return
        start = (cfg.entry, ())
        seen = set()
        work = [(cfg.entry, (), (cfg.entry,))]
        nstates = 0
        while work:
            bid, state, path = work.pop()
            sk = (bid, tuple(sorted(r.key() for r in state)))
            if sk in seen:
                continue
            seen.add(sk)
            nstates += 1
            if nstates > MAX_STATES:
                self.capped = True
                return
            B = cfg.blocks[bid]
            state = list(state)
            for e in B.elems:
                state = self.step(e, state, path)
            if bid == cfg.exit or not [s for s in B.succs if s is not None]:
                self.at_exit(state, path)
                continue
            for si, s in enumerate(B.succs):
                if s is None:
                    continue
                st2 = self.refine(B, si, state)
                if st2 is None:
                    continue
                if s == cfg.exit:
                    self.at_exit(st2, path + (s,))
                else:
                    work.append((s, tuple(st2), path + (s,) if len(path) < 400 else path))

    # ---- transfer
    def step(self, e, state, path):
        k = e.k
        if k == "CallExpr" and e.callee:
            name = e.callee
            if name in ACQ_PTR or name in self.ctor:
                self.site_ids.add(e.i)
                state = self.acquire_ptr(e, state, path)
            elif name in INIT:
                obj = _addr_text(e.args()[0]) if e.args() else None
                if obj is not None and _is_local_text(self.fn, obj.split(".")[0].split("->")[0]) and "->" not in obj:
                    self.site_ids.add(e.i)
                    r = Res(e, "object", {"&" + obj}, INIT[name])
                    r.maybe_null = False
                    if name in INIT_RETURNS_STATUS:
                        r.statusvar = self._status_dest(e)
                    state = [x for x in state if "&" + obj not in x.aliases] + [r]
            if name in self.fresh_out:
                # the callee hands a fresh block (or NULL) back through `&local`: the caller owns it now
                for ai in sorted(self.fresh_out[name]):
                    if ai < len(e.args()):
                        obj = _addr_text(e.args()[ai])
                        if obj is not None and _is_local_text(self.fn, obj) and "->" not in obj and "." not in obj:
                            self.site_ids.add(e.i)
                            r = Res(e, "heap", {obj}, {"free"})
                            r.maybe_null = True
                            if self.fresh_out[name][ai]:
                                r.statusvar = self._status_dest(e)      # handed over only when the callee reports success
                            state = self._kill_alias(state, obj, e, path, quiet=True) + [r]
            if name in self.all_release:
                state = self.release(e, state, path)
            elif name in self.frees_param:
                for ai in self.frees_param[name]:
                    state = self.release(e, state, path, ai)
            if name in self.stores_param:
                for ai, oj in self.stores_param[name].items():
                    if ai < len(e.args()) and oj < len(e.args()):
                        t = lvalue_text(e.args()[ai])
                        owner = lvalue_text(e.args()[oj])
                        if t is not None and owner is not None:
                            state = self._escape_alias(state, t, owner + "->(adopted)")
        elif k == "BinaryOperator" and e.op == "=":
            state = self.assign(e, state, path)
        elif k == "DeclStmt":
            state = self.declare(e, state, path)
        elif k == "ReturnStmt":
            if e.c and e.c[0] is not None:
                t = lvalue_text(e.c[0])
                if t is not None:
                    state = self._escape_alias(state, t, "returned")
        return state

    def _status_dest(self, call):
        p = _strip_up(call)
        if p is not None and p.k == "BinaryOperator" and p.op == "=":
            return lvalue_text(p.c[0])
        if p is not None and p.k == "DeclStmt":
            for d, init in zip(p.get("decls", []), p.c):
                if init is not None and any(x is call for x in init.walk()):
                    return d.get("n")
        if p is not None and p.k == "BinaryOperator" and p.op in ("!=", "=="):
            return "@cond"
        return None

    def acquire_ptr(self, call, state, path):
        # destination lvalue
        p = _strip_up(call)
        while p is not None and p.k == "CStyleCastExpr":
            p = _strip_up(p)
        dest = None
        if p is not None and p.k == "BinaryOperator" and p.op == "=" and any(x is call for x in p.c[1].walk()):
            dest = lvalue_text(p.c[0])
        elif p is not None and p.k == "DeclStmt":
            for d, init in zip(p.get("decls", []), p.c):
                if init is not None and any(x is call for x in init.walk()):
                    dest = d.get("n")
        rel = {ACQ_PTR[call.callee]} if call.callee in ACQ_PTR else self.ctor[call.callee]
        new = list(state)
        if call.callee == "realloc" and call.args():
            old = lvalue_text(call.args()[0])
            if old is not None:
                if dest is not None and dest == old:
                    # X = realloc(X, n): failure loses the old block
                    self.findings.append(("realloc-leak", None, call, path))
                    new = [r for r in new if old not in r.aliases]
                else:
                    # the old block is released on success; on failure it stays valid. Keep it
                    # attached to the new resource so the NULL arm can restore it.
                    new2 = []
                    for r in new:
                        if old in r.aliases and r.status in ("owned", "escaped"):
                            r2 = r.clone()
                            r2.status = "moving"
                            new2.append(r2)
                        else:
                            new2.append(r)
                    new = new2
        if dest is None:
            return new
        r = Res(call, "heap" if call.callee in ACQ_PTR else "object", {dest}, rel)
        # overwrite of a tracked alias
        new = self._kill_alias(new, dest, call, path)
        if not _is_local_text(self.fn, dest):
            # born into a longer-lived owner (field / out-param): the owner is responsible
            r.status = "escaped"
            r.owner = dest
        new.append(r)
        return new

    def _null(self, node, text):
        r = Res(node, "null", {text}, set())
        r.status = "null"
        r.maybe_null = True
        return r

    def _kill_alias(self, state, text, node, path, quiet=False):
        out = []
        for r in state:
            if r.kind in ("null", "flag"):
                if text in r.aliases:
                    continue
                out.append(r)
                continue
            if text in r.aliases:
                r2 = r.clone()
                r2.aliases = r.aliases - {text}
                if r2.status == "escaped" and r2.owner == text:
                    # the owner now holds something else
                    r2.owner = None
                    r2.status = "released" if True else r2.status
                    out.append(r2) if r2.aliases else None
                    continue
                if r2.status == "dangling" and r2.owner == text:
                    r2.status = "released"
                    r2.owner = None
                    out.append(r2) if r2.aliases else None
                    continue
                if not r2.aliases and r2.status == "owned" and not r2.maybe_null and not quiet:
                    self.findings.append(("leak-overwrite", r, node, path))
                    continue
                if not r2.aliases:
                    continue
                out.append(r2)
            else:
                out.append(r)
        return out

    def _escape_alias(self, state, text, owner):
        out = []
        for r in state:
            if text in r.aliases and r.status in ("owned",):
                r2 = r.clone()
                r2.status = "escaped"
                r2.owner = owner
                out.append(r2)
            else:
                out.append(r)
        return out

    def assign(self, e, state, path):
        lhs = lvalue_text(e.c[0])
        rhs_node = e.c[1].strip_casts() if e.c[1] is not None else None
        if rhs_node is not None and rhs_node.k == "CallExpr" and (rhs_node.callee in ACQ_PTR or rhs_node.callee in self.ctor):
            return state  # handled at the call element (executed before the assignment)
        rhs = lvalue_text(rhs_node) if rhs_node is not None else None
        if lhs is None:
            return state
        new = list(state)
        if rhs_node is not None and rhs_node.cv == 0 and "*" in (e.c[0].t or ""):
            new = self._kill_alias(new, lhs, e, path)
            new.append(self._null(e, lhs))
            return new
        if rhs_node is not None and rhs_node.k in ("CompoundLiteralExpr", "InitListExpr"):
            # `*obj = (T){ .member = res, ... }`: every resource named in the literal is stored in the object
            owner = (lhs[1:].strip("()") + "->(literal)") if lhs.startswith("*") else lhs + ".(literal)"
            for x in rhs_node.walk():
                if x.k == "DeclRefExpr":
                    t_ = lvalue_text(x)
                    if t_ is not None and any(t_ in r.aliases for r in new):
                        if _is_local_text(self.fn, owner):
                            new = [r if t_ not in r.aliases else (lambda r2: (setattr(r2, "aliases", r.aliases | {owner}), r2)[1])(r.clone()) for r in new]
                        else:
                            new = self._escape_alias(new, t_, owner)
            return new
        src_res = [r for r in new if rhs is not None and rhs in r.aliases]
        # the old content of lhs is overwritten
        if not (rhs is not None and any(lhs in r.aliases for r in src_res)):
            new = self._kill_alias(new, lhs, e, path)
        if src_res:
            out = []
            for r in new:
                if rhs in r.aliases:
                    r2 = r.clone()
                    r2.aliases = r.aliases | {lhs}
                    if not _is_local_text(self.fn, lhs) and r2.status == "owned":
                        r2.status = "escaped"
                        r2.owner = lhs
                    out.append(r2)
                else:
                    out.append(r)
            new = out
        return new

    def declare(self, e, state, path):
        new = list(state)
        for d, init in zip(e.get("decls", []), e.c):
            rn0 = init.strip_casts() if init is not None else None
            acq = rn0 is not None and rn0.k == "CallExpr" and (rn0.callee in ACQ_PTR or rn0.callee in self.ctor)
            if "n" in d and not acq:
                # a new instance of the variable: stale aliases from a previous iteration die
                new = self._kill_alias(new, d["n"], e, path, quiet=True)
                new = [r for r in new if not (r.kind == "null" and d["n"] in r.aliases)]
                if init is not None and init.strip_casts() is not None and init.strip_casts().cv == 0 \
                        and "*" in d.get("t", ""):
                    new.append(self._null(e, d["n"]))
            if init is None or "n" not in d:
                continue
            rn = init.strip_casts()
            if rn is not None and rn.k == "CallExpr" and (rn.callee in ACQ_PTR or rn.callee in self.ctor):
                continue
            rhs = lvalue_text(rn)
            if rhs is None:
                continue
            out = []
            for r in new:
                if rhs in r.aliases:
                    r2 = r.clone()
                    r2.aliases = r.aliases | {d["n"]}
                    out.append(r2)
                else:
                    out.append(r)
            new = out
        return new

    def release(self, call, state, path, argi=0):
        args = call.args()
        if len(args) <= argi:
            return state
        t = lvalue_text(args[argi])
        a = _addr_text(args[argi])
        names = set()
        if t is not None:
            names.add(t)
        if a is not None:
            names.add("&" + a)
        out = []
        summ = call.callee in self.frees_param
        for r in state:
            if r.kind in ("null", "flag"):
                out.append(r)
                continue
            if t is not None and r.owner is not None and r.owner.startswith(t + "->"):
                # the object that owns this resource is itself released
                r2 = r.clone()
                if r.status == "dangling":
                    r2.status = "released"
                out.append(r2)
                continue
            if r.aliases & names and (summ or call.callee in r.rel | ({"free"} if r.kind == "heap" else set())):
                if r.status == "released":
                    if idempotent_release(self.P, call.callee):
                        out.append(r)       # the first call nulled what it freed: this one frees nothing
                        continue
                    self.findings.append(("double-free", r, call, path))
                    out.append(r)
                    continue
                r2 = r.clone()
                if r.status == "escaped" and r.owner is not None and r.owner not in names \
                        and r.owner not in ("returned",):
                    # released through another alias while the owner still holds it
                    r2.status = "dangling"
                else:
                    r2.status = "released"
                out.append(r2)
            else:
                out.append(r)
        return out

    # ---- branch refinement
    def refine(self, B, si, state):
        if B.cond is None or len(B.succs) != 2:
            return list(state)
        taken = (si == 0)
        c = B.cond.strip()
        neg = False
        while c is not None and c.k == "UnaryOperator" and c.op == "!":
            neg = not neg
            c = c.c[0].strip()
        if c is None:
            return list(state)
        truth = taken != neg   # truth value of the inner expression c on this edge
        # pointer truth / NULL comparison
        tgt = None
        null_when = None
        if c.k == "BinaryOperator" and c.op in ("==", "!="):
            l, r = c.c[0].strip_casts(), c.c[1].strip_casts()
            lt, rt = lvalue_text(l), lvalue_text(r)
            if r is not None and (r.cv == 0) and lt is not None and any(x.statusvar == lt for x in state):
                return self._refine_status(c, truth, state)
            if r is not None and (r.cv == 0) and lt is not None:
                tgt, null_when = lt, (c.op == "==")
            elif l is not None and (l.cv == 0) and rt is not None:
                tgt, null_when = rt, (c.op == "==")
            elif lt is not None and rt is not None:
                # alias (in)equality test
                live = [x for x in state if x.kind not in ("null", "flag")]
                nulls = set()
                for x in state:
                    if x.kind == "null":
                        nulls |= x.aliases
                same = any(lt in x.aliases and rt in x.aliases for x in live)
                known = any(lt in x.aliases for x in live) and any(rt in x.aliases for x in live)
                nn = lambda t: any(t in x.aliases and not x.maybe_null for x in live)
                if (lt in nulls and nn(rt)) or (rt in nulls and nn(lt)):
                    known = True
                # a block handed out by an allocator (or NULL) is never the address of a local object:
                # `if (tmp != stack_buf) free(tmp);` releases exactly the heap arm
                def stackobj(n):
                    if n is None:
                        return False
                    if n.k == "UnaryOperator" and n.op == "&" and n.c and n.c[0] is not None:
                        n = n.c[0].strip()
                        return n is not None and n.k == "DeclRefExpr" and n.get("dk") == "local"
                    return n.k == "DeclRefExpr" and n.get("dk") == "local" and "[" in (n.t or "")
                held = lambda t: any(t in x.aliases for x in live) or t in nulls
                if not same and ((stackobj(r) and held(lt)) or (stackobj(l) and held(rt))):
                    known = True
                if same:
                    eq = True
                elif known:
                    eq = False
                else:
                    eq = None
                if eq is not None:
                    expr_true = eq if c.op == "==" else (not eq)
                    if truth != expr_true:
                        return None  # infeasible edge
                return list(state)
            else:
                # status comparison for init-style acquisitions
                return self._refine_status(c, truth, state)
        else:
            lt = lvalue_text(c)
            if lt is not None and c.k == "DeclRefExpr" and "*" not in (c.t or "") and c.get("dk") == "local":
                # a boolean/integer local used as a flag: remember its truth value on this path
                for x in state:
                    if x.kind == "flag" and lt in x.aliases:
                        return list(state) if (x.status == "true") == truth else None
                fl = Res(B.cond, "flag", {lt}, set())
                fl.status = "true" if truth else "false"
                return list(state) + [fl]
            if lt is not None:
                tgt, null_when = lt, False   # `p` true means non-NULL
            elif c.k == "CallExpr":
                return list(state)
        if tgt is None:
            return list(state)
        is_null = (truth == null_when)
        for x in state:
            if x.kind == "null" and tgt in x.aliases and not is_null:
                return None
        out = []
        for r in state:
            if tgt in r.aliases:
                if is_null:
                    if r.status == "moving":
                        continue
                    # this resource is NULL on this edge: nothing is held
                    if r.site.callee == "realloc":
                        # the old block (status moving) stays owned by its aliases
                        pass
                    continue
                r2 = r.clone()
                r2.maybe_null = False
                out.append(r2)
            else:
                out.append(r)
        # realloc: resolve `moving` resources
        res = []
        realloc_null = is_null and any(tgt in r.aliases and r.site.callee == "realloc" for r in state)
        realloc_ok = (not is_null) and any(tgt in r.aliases and r.site.callee == "realloc" for r in state)
        for r in out:
            if r.status == "moving":
                r2 = r.clone()
                if realloc_null:
                    r2.status = "escaped" if r.owner else "owned"
                    res.append(r2)
                elif realloc_ok:
                    # moved: the old pointer value is dead, its aliases are stale
                    continue
                else:
                    res.append(r)
            else:
                res.append(r)
        return res

    def _refine_status(self, c, truth, state):
        # `status != CARQUET_OK` / `status == CARQUET_OK` for init-style acquisitions
        l, r = c.c[0].strip_casts(), c.c[1].strip_casts()
        var = None
        if r is not None and r.cv == 0:
            var = lvalue_text(l)
            if var is None and l.k == "CallExpr" and l.callee in INIT:
                var = "@cond"
        if var is None:
            return list(state)
        failed = truth if c.op == "!=" else (not truth)
        out = []
        for x in state:
            if x.statusvar == var and x.status == "owned":
                if failed:
                    continue
                x2 = x.clone()
                x2.statusvar = None
                out.append(x2)
            else:
                out.append(x)
        return out

    def at_exit(self, state, path):
        for r in state:
            if r.kind in ("null", "flag"):
                continue
            if r.status == "owned" and not r.maybe_null:
                self.findings.append(("leak", r, r.site, path))
            elif r.status == "owned" and r.maybe_null:
                # never tested: leak on the non-NULL arm as well (only if it was never tested at all)
                self.findings.append(("leak", r, r.site, path))
            elif r.status == "dangling":
                self.findings.append(("dangling", r, r.site, path))
            elif r.status == "moving":
                pass


_fp_cache = {}


_sp_cache = {}


def stores_param_summaries(P):
    """fn name -> {param index: owner param index}: the function stores pointer parameter i into a
    member of the object parameter j points to (an `adopt`/`set`/`attach` helper): the caller's
    resource is handed over to that object."""
    if '_sp_cache' in P.__dict__.setdefault("_memo", {}):
        return P.__dict__["_memo"]['_sp_cache']
    summ = {}
    for f in P.functions.values():
        names = [p["n"] for p in f.params]
        for a in f.body.walk():
            if not (a.k == "BinaryOperator" and a.op == "="):
                continue
            l = a.c[0].strip()
            r = a.c[1].strip_casts()
            if l.k != "MemberExpr" or r.k != "DeclRefExpr" or r.get("dk") != "param":
                continue
            base = l
            while base is not None and base.k in ("MemberExpr", "ArraySubscriptExpr"):
                base = base.c[0].strip_casts() if base.c else None
            if base is not None and base.k == "DeclRefExpr" and base.get("dk") == "param" and "*" in (r.t or ""):
                summ.setdefault(f.name, {})[names.index(r.name)] = names.index(base.name)
    P.__dict__.setdefault("_memo", {})['_sp_cache'] = summ
    return summ


_fo_cache = {}


def fresh_out_summaries(P):
    """fn name -> set(param index): the function stores a block it has just allocated (malloc / calloc /
    strdup, directly or through a local that only ever holds such a result) into `*param` and nowhere
    else - an allocating helper with an out-parameter."""
    if '_fo_cache' in P.__dict__.setdefault("_memo", {}):
        return P.__dict__["_memo"]['_fo_cache']
    summ = {}
    for f in P.functions.values():
        names = [p["n"] for p in f.params]
        fresh_locals = {}
        for n in f.body.walk():
            if n.k == "DeclStmt":
                for d, init in zip(n.get("decls", []), n.c):
                    x = init.strip_casts() if init is not None else None
                    if x is not None and x.k == "CallExpr" and x.callee in ACQ_PTR and x.callee != "realloc":
                        fresh_locals[d.get("d")] = True
            elif n.k == "BinaryOperator" and n.op == "=" and n.c[0].strip().k == "DeclRefExpr" and n.c[0].strip().get("dk") == "local":
                x = n.c[1].strip_casts()
                d = n.c[0].strip().get("d")
                if x.k == "CallExpr" and x.callee in ACQ_PTR and x.callee != "realloc":
                    fresh_locals.setdefault(d, True)
                else:
                    fresh_locals[d] = False
        stores = {}
        for n in f.body.walk():
            if n.k == "BinaryOperator" and n.op == "=":
                l = n.c[0].strip()
                if l.k == "UnaryOperator" and l.op == "*" and l.c[0].strip_casts().k == "DeclRefExpr" and \
                        l.c[0].strip_casts().get("dk") == "param":
                    pn = l.c[0].strip_casts().name
                    r = n.c[1].strip_casts()
                    ok = (r.k == "CallExpr" and r.callee in ACQ_PTR and r.callee != "realloc") or \
                        (r.k == "DeclRefExpr" and fresh_locals.get(r.get("d")) is True) or r.cv == 0
                    stores.setdefault(pn, []).append((ok, r.cv == 0))
        for pn, lst in stores.items():
            if pn in names and all(ok for ok, _z in lst) and any(not z for _ok, z in lst):
                # does a failure return follow a store?  (then the caller owns the block even on failure)
                only_on_success = True
                if f.cfg is not None and ("status" in (f.ret or "") or (f.ret or "").strip() == "int"):
                    from .flow import find_path_avoiding
                    w = f.cfg.where()
                    for n in f.body.walk():
                        if n.k == "BinaryOperator" and n.op == "=" and n.c[0].strip().k == "UnaryOperator" and n.c[0].strip().op == "*" \
                                and n.c[0].strip().c[0].strip_casts().k == "DeclRefExpr" and n.c[0].strip().c[0].strip_casts().name == pn \
                                and n.c[1].strip_casts().cv != 0 and n.i in w:
                            b_, i_ = w[n.i]
                            if find_path_avoiding(f.cfg, lambda e: False,
                                                  lambda e: e.k == "ReturnStmt" and e.c and e.c[0] is not None and e.c[0].cv != 0,
                                                  None, (b_, i_ + 1)) is not None:
                                only_on_success = False
                else:
                    only_on_success = False
                summ.setdefault(f.name, {})[names.index(pn)] = only_on_success
    P.__dict__.setdefault("_memo", {})['_fo_cache'] = summ
    return summ


def idempotent_release(P, name):
    """True when calling `name(p)` a second time releases nothing: every deallocation in its body is
    `free(p->m)` of a member of its parameter, and a store `p->m = NULL` post-dominates each of them
    (the destroy-and-reset idiom). Anything else (frees the parameter itself, calls another releaser,
    no reset on some path) is not idempotent."""
    memo = P.__dict__.setdefault("_memo", {}).setdefault("_idem", {})
    if name in memo:
        return memo[name]
    memo[name] = False
    defs = [f for f in P.by_name.get(name, []) if f.cfg is not None]
    if len(defs) != 1:
        return False
    f = defs[0]
    params = [p["n"] for p in f.params]
    rel = set(RELEASE)
    for v in list(CTOR.values()) + list(INIT.values()):
        rel |= v
    summ = frees_param_summaries(P)
    frees = []
    for c in f.calls():
        if c.callee == "free":
            frees.append(c)
        elif c.callee in rel or c.callee in summ:
            return False
    if not frees:
        return False
    w = f.cfg.where()
    pdom = f.cfg.postdominators()
    for c in frees:
        a = c.args()[0].strip_casts()
        if a.k != "MemberExpr" or lvalue_text(a.c[0]) not in params:
            return False
        t = lvalue_text(a)
        ok = False
        for q in f.body.walk():
            if q.k == "BinaryOperator" and q.op == "=" and lvalue_text(q.c[0].strip()) == t and \
                    (q.c[1].cv == 0 or (q.c[1].strip_casts() is not None and q.c[1].strip_casts().cv == 0)) \
                    and q.i in w and c.i in w:
                bq, iq = w[q.i]
                bc, ic = w[c.i]
                if (bq == bc and iq > ic) or (bq != bc and bq in pdom.get(bc, ())):
                    ok = True
        if not ok:
            return False
    memo[name] = True
    return True


def frees_param_summaries(P):
    """fn name -> set(param index) that the function releases (free/fclose/destroy of the parameter
    itself on some path), computed to a fixpoint over direct calls."""
    if '_fp_cache' in P.__dict__.setdefault("_memo", {}):
        return P.__dict__["_memo"]['_fp_cache']
    rel = set(RELEASE)
    for v in list(CTOR.values()) + list(INIT.values()):
        rel |= v
    summ = {}
    changed = True
    rounds = 0
    while changed and rounds < 4:
        changed = False
        rounds += 1
        for f in P.functions.values():
            names = [p["n"] for p in f.params]
            for c in f.calls():
                if not c.callee or not c.args():
                    continue
                idxs = [0] if c.callee in rel else sorted(summ.get(c.callee, ()))
                for ai in idxs:
                    if ai >= len(c.args()):
                        continue
                    t = lvalue_text(c.args()[ai])
                    if t in names:
                        pi = names.index(t)
                        if pi not in summ.setdefault(f.name, set()):
                            summ[f.name].add(pi)
                            changed = True
    P.__dict__.setdefault("_memo", {})['_fp_cache'] = summ
    return summ


def analyse(P, fn, **kw):
    a = Analyzer(P, fn, **kw)
    a.run()
    # de-duplicate by (kind, site)
    seen = {}
    for kind, r, node, path in a.findings:
        site = (r.site if r is not None else node)
        k = (kind, site.i, node.i)
        if k not in seen or len(path) < len(seen[k][3]):
            seen[k] = (kind, r, node, path)
    return a, list(seen.values())


def check(ctx, fns, rule="R2", key_prefix="own", suppress=None):
    """Run the ownership analysis over fns and record one obligation per acquisition site plus
    one violation per finding."""
    from .results import call_ordinals
    from .flow import describe_path
    P = ctx.P
    suppress = suppress or {}
    nsites = 0
    for fn in fns:
        if fn.cfg is None:
            continue
        a, fs = analyse(P, fn)
        if a.capped:
            ctx.inconclusive(rule + ".cap", "%s-cap|%s:%s" % (key_prefix, P.rel(fn.file), fn.name),
                             P.where(fn.body), "state cap reached in ownership analysis")
            continue
        ords = call_ordinals(fn)
        bad_sites = {}
        for kind, r, node, path in fs:
            site = r.site if r is not None else node
            bad_sites.setdefault(site.i, []).append((kind, r, node, path))
        for sid in sorted(a.site_ids):
            nsites += 1
            site = fn.nodes[sid]
            base = "%s|%s:%s|%s" % (key_prefix, P.rel(fn.file), fn.name, ords.get(sid, site.callee))
            what = "resource acquired by %s is released, handed over or returned exactly once on every path" % site.callee
            if sid not in bad_sites:
                ctx.ok(rule + ".pair", base, P.where(site), what)
                continue
            for kind, r, node, path in bad_sites[sid]:
                key = base + "|" + kind
                desc = {"leak": "still owned when the function exits (leak)",
                        "leak-overwrite": "the only pointer is overwritten (leak)",
                        "double-free": "released twice",
                        "dangling": "released through another alias while `%s` still holds it" % (r.owner if r else "?"),
                        "realloc-leak": "X = realloc(X, n): the old block is lost when realloc fails"}[kind]
                if key in suppress:
                    ctx.suppressed(rule + "." + kind, key, P.where(node), what, suppress[key])
                else:
                    ctx.bad(rule + "." + kind, key, P.where(node),
                            "%s from %s (line %d): %s" % ("/".join(sorted(r.aliases)) if r else "block", site.callee, site.l, desc),
                            "path: %s" % describe_path(fn, fn.cfg, path), witness={"blocks": list(path)[-40:]})
    return nsites
