"""R5 (ii)/(iii): extraction of Thrift struct grammars from writer and parser functions.

Writer side: the ordered sequence of thrift_write_* calls of a function is folded into a tree
  WStruct{ id -> [WField(type, value, conds)] }
Parser side: the `while (thrift_read_field_begin(dec,&T,&ID))` loops with their switch / if-chain
dispatch on ID are folded into
  PStruct{ id -> PField(actions) }
Both are expressed in field ids, wire types, reader/writer function names and struct-member
paths only (no local names, no positions).
"""
from ..canon import Canon
from ..facts import src
from ..util import switch_table, is_assign

T = {"STOP": 0, "TRUE": 1, "FALSE": 2, "BYTE": 3, "I16": 4, "I32": 5, "I64": 6, "DOUBLE": 7,
     "BINARY": 8, "LIST": 9, "SET": 10, "MAP": 11, "STRUCT": 12, "UUID": 13}
TN = {v: k for k, v in T.items()}
TN["BOOL"] = "BOOL"

W_PRIM = {"thrift_write_byte": "BYTE", "thrift_write_i16": "I16", "thrift_write_i32": "I32",
          "thrift_write_i64": "I64", "thrift_write_double": "DOUBLE", "thrift_write_binary": "BINARY",
          "thrift_write_string": "BINARY", "thrift_write_bool": "BOOL", "thrift_write_uuid": "UUID"}
R_PRIM = {"thrift_read_byte": "BYTE", "thrift_read_i16": "I16", "thrift_read_i32": "I32",
          "thrift_read_i64": "I64", "thrift_read_double": "DOUBLE", "thrift_read_bool": "BOOL",
          "arena_strdup_thrift": "BINARY", "arena_bindup_thrift": "BINARY",
          "thrift_read_binary": "BINARY", "thrift_read_string_alloc": "BINARY",
          "thrift_read_uuid": "UUID"}


def member_path(n):
    """Member chain of an expression like enc-arg `&x->a.b[i].c` -> ('a','b','c'); () when the
    expression is the struct parameter itself; None when it is not a member path."""
    n = n.strip_casts()
    path = []
    while n is not None:
        n = n.strip_casts()
        if n.k == "MemberExpr":
            if not n.get("anon"):
                path.append(n.name)
            n = n.c[0]
        elif n.k == "ArraySubscriptExpr":
            n = n.c[0]
        elif n.k == "UnaryOperator" and n.op in ("&", "*"):
            n = n.c[0]
        elif n.k == "DeclRefExpr":
            init = _cached_init(n)
            if init is not None:
                # `T *const p = &x->a[i];` / `const E t = x->type;`: the local stands for the member it caches
                n = init
                continue
            return tuple(reversed(path))
        else:
            return None
    return None


_INIT_CACHE = {}     # id(function body) -> (body kept alive, {decl id: initialiser or None})


def _cached_init(ref):
    """Initialiser of a local that is defined exactly once (its declaration) from a member expression and
    never modified or address-taken afterwards; None for anything else (parameters, reassigned locals)."""
    if ref.get("dk") != "local" or ref.get("d") is None:
        return None
    root = ref
    for a in ref.ancestors():
        root = a
    cache = _INIT_CACHE.setdefault(id(root), (root, {}))[1]
    d = ref.get("d")
    if d in cache:
        return cache[d]
    init, bad = None, False
    for n in root.walk():
        if n.k == "DeclStmt":
            for dd, i in zip(n.get("decls", []), n.c):
                if dd.get("d") == d:
                    init = i
        elif is_assign(n) or (n.k == "UnaryOperator" and n.op in ("++", "--", "&")):
            t = n.c[0].strip()
            if t.k == "DeclRefExpr" and t.get("d") == d:
                bad = True
    res = None
    if init is not None and not bad:
        x = init.strip_casts()
        while x is not None and x.k == "UnaryOperator" and x.op == "&":
            x = x.c[0].strip_casts()
        if x is not None and x.k in ("MemberExpr", "ArraySubscriptExpr") and \
                any(m.k == "MemberExpr" for m in x.walk()):
            res = init
    cache[d] = res
    return res


class WField:
    def __init__(self, fid, wtype, node, conds):
        self.id = fid
        self.wtype = wtype      # wire type name, or 'BOOL' for header-encoded booleans
        self.node = node
        self.conds = conds      # list of rendered enclosing conditions
        self.value = None       # ('prim', kind, path) | ('struct', WStruct) | ('ref', fn) | ('list', et, elem)
        self.boolexpr = None

    def __repr__(self):
        return "W(%s:%s %s)" % (self.id, self.wtype, self.value)


class WStruct:
    def __init__(self):
        self.fields = {}        # id -> [WField]
        self.ended = False

    def add(self, f):
        self.fields.setdefault(f.id, []).append(f)


class _ListElem:
    def __init__(self, owner, et):
        self.owner = owner
        self.et = et
        self.value = None


def _conds(call):
    """Rendered conditions of the enclosing if/switch arms of a call (innermost last)."""
    out = []
    cur = call
    for a in call.ancestors():
        if a.k == "IfStmt":
            kids = [x for x in a.c if x is not None]
            cond = kids[0]
            then = kids[1] if len(kids) > 1 else None
            els = kids[2] if len(kids) > 2 else None
            if _inside(cur, then):
                out.append(src(cond))
            elif _inside(cur, els):
                out.append("!(" + src(cond) + ")")
        elif a.k == "CaseStmt":
            out.append("case " + src(a.c[0]))
        elif a.k == "DefaultStmt":
            out.append("default")
        cur = a
    out.reverse()
    return out


def _inside(n, root):
    if root is None:
        return False
    x = n
    while x is not None:
        if x is root:
            return True
        x = x.parent
    return False


def extract_writer(P, fn, writer_names=None):
    """Fold the ordered thrift_write_* calls of fn into a WStruct tree. Returns (root, problems)."""
    problems = []
    root = None
    stack = []
    pending = None
    calls = [n for n in fn.body.walk() if n.k == "CallExpr" and n.callee]
    # pre-order walk visits an outer call before calls nested in its arguments: fine here
    for c in calls:
        name = c.callee
        if name == "thrift_write_struct_begin":
            S = WStruct()
            if pending is not None:
                pending.value = ("struct", S)
            elif not stack and root is None:
                root = S
            elif stack:
                problems.append(("struct_begin without a field header", c))
            stack.append(S)
            pending = None
        elif name == "thrift_write_struct_end":
            if stack:
                stack[-1].ended = True
                stack.pop()
            else:
                problems.append(("struct_end without begin", c))
            pending = None
        elif name == "thrift_write_field_header":
            a = c.args()
            tnode, idnode = a[1], a[2]
            if idnode.cv is None:
                problems.append(("non-constant field id", c))
                continue
            if tnode.cv is not None:
                wt = TN.get(tnode.cv, str(tnode.cv))
                boolexpr = None
            else:
                x = tnode.strip_casts()
                if x.k == "ConditionalOperator" and x.c[1].cv == 1 and x.c[2].cv == 2:
                    wt = "BOOL"
                    boolexpr = x.c[0]
                else:
                    problems.append(("unrecognised wire type expression " + src(tnode), c))
                    continue
            f = WField(idnode.cv, wt, c, _conds(c))
            f.boolexpr = boolexpr
            if boolexpr is not None:
                f.value = ("prim", "BOOL", member_path(boolexpr))
            if not stack:
                problems.append(("field header outside a struct", c))
                continue
            stack[-1].add(f)
            pending = f if boolexpr is None else None
        elif name in W_PRIM:
            val = ("prim", W_PRIM[name], member_path(c.args()[1]) if len(c.args()) > 1 else None,
                   name)
            if pending is None:
                problems.append(("value written without a field header: " + src(c), c))
            else:
                pending.value = val
                if isinstance(pending, _ListElem):
                    pass
                else:
                    pending = None
        elif name in ("thrift_write_list_begin", "thrift_write_set_begin"):
            a = c.args()
            et = TN.get(a[1].cv, src(a[1]))
            if pending is None or isinstance(pending, _ListElem):
                problems.append(("list header without a field header", c))
                continue
            le = _ListElem(pending, et)
            pending.value = ("list", et, le, member_path(a[2]))
            pending = le
        elif writer_names and name in writer_names:
            a = c.args()
            val = ("ref", name, member_path(a[1]) if len(a) > 1 else None)
            if pending is None:
                problems.append(("nested writer without a field header: " + src(c), c))
            else:
                pending.value = val
                if not isinstance(pending, _ListElem):
                    pending = None
    if stack:
        problems.append(("struct_begin without struct_end", fn.body))
    return root, problems


# ----------------------------------------------------------------------------- parser side
class PField:
    def __init__(self, fid, node):
        self.id = fid
        self.node = node
        self.actions = []   # ('prim', kind, path, fn) ('ref', fn, path) ('struct', PStruct)
                            # ('list', elem actions) ('skip',) ('flag', path) ('tag', path, const)

    def kinds(self):
        return [a[0] for a in self.actions]

    def __repr__(self):
        return "P(%s %s)" % (self.id, self.actions)


class PStruct:
    def __init__(self):
        self.fields = {}
        self.default_skips = None  # True when unknown fields are skipped with their own type
        self.typevar = None
        self.node = None


def _field_loop_info(loop):
    """For `while (thrift_read_field_begin(dec, &T, &ID))` return (typevar decl id, idvar decl id)."""
    cond = loop.c[0] if loop.k == "WhileStmt" else None
    if cond is None:
        return None
    call = None
    for n in cond.walk():
        if n.k == "CallExpr" and n.callee == "thrift_read_field_begin":
            call = n
    if call is None:
        return None
    a = call.args()

    def decl_of(x):
        x = x.strip_casts()
        if x.k == "UnaryOperator" and x.op == "&":
            y = x.c[0].strip_casts()
            if y.k == "DeclRefExpr":
                return y.get("d")
        return None
    return decl_of(a[1]), decl_of(a[2])


def _is_var(n, d):
    n = n.strip_casts()
    return n.k == "DeclRefExpr" and n.get("d") == d


def _arms(body, idvar):
    """Dispatch of a field loop body: returns ({id: [stmts]}, default_stmts or None, problems)."""
    stmts = body.kids() if body.k == "CompoundStmt" else [body]
    arms = {}
    default = None
    other = []
    for s in stmts:
        if s.k == "SwitchStmt" and _is_var(s.c[-2], idvar):
            table, order = switch_table(s)
            for lab, seq in table.items():
                if lab == "default":
                    default = seq
                else:
                    arms.setdefault(lab, []).extend(seq)
        elif s.k == "IfStmt" and _if_on(s, idvar) is not None:
            cur = s
            while cur is not None and cur.k == "IfStmt" and _if_on(cur, idvar) is not None:
                kids = [x for x in cur.c if x is not None]
                arms.setdefault(_if_on(cur, idvar), []).append(kids[1])
                cur = kids[2] if len(kids) > 2 else None
            if cur is not None:
                default = [cur]
        else:
            other.append(s)
    return arms, default, other


def _if_on(ifs, idvar):
    cond = [x for x in ifs.c if x is not None][0].strip()
    if cond.k == "BinaryOperator" and cond.op == "==":
        if _is_var(cond.c[0], idvar) and cond.c[1].cv is not None:
            return cond.c[1].cv
        if _is_var(cond.c[1], idvar) and cond.c[0].cv is not None:
            return cond.c[0].cv
    return None


def _loops_in(stmts):
    """Outermost field loops inside a statement list (not descending into other field loops)."""
    out = []

    def rec(n):
        if n.k == "WhileStmt" and _field_loop_info(n) is not None:
            out.append(n)
            return
        for ch in n.kids():
            rec(ch)
    for s in stmts:
        rec(s)
    return out


def extract_parser_struct(stmts, parser_names):
    """Parse a statement list that reads exactly one struct (one outermost field loop)."""
    loops = _loops_in(stmts)
    if not loops:
        return None
    loop = loops[0]
    typevar, idvar = _field_loop_info(loop)
    S = PStruct()
    S.node = loop
    S.typevar = typevar
    arms, default, other = _arms(loop.c[-1], idvar)
    for fid, seq in arms.items():
        pf = PField(fid, seq[0] if seq else loop)
        pf.actions = _actions(seq, parser_names, typevar)
        S.fields[fid] = pf
    if default is not None:
        acts = _actions(default, parser_names, typevar)
        S.default_skips = any(a[0] == "skip" and a[1] for a in acts)
    else:
        S.default_skips = False
    S.other = other
    return S


def _actions(stmts, parser_names, typevar):
    acts = []
    nested_loops = _loops_in(stmts)
    nested_set = set(id(l) for l in nested_loops)

    def in_nested(n):
        for a in n.ancestors():
            if id(a) in nested_set:
                return True
        return False

    for s in stmts:
        for n in s.walk():
            if id(n) in nested_set or in_nested(n):
                continue
            if is_assign(n) and n.op == "=":
                lhs = n.c[0]
                path = member_path(lhs)
                rhs = n.c[1].strip_casts()
                if rhs.k == "CallExpr" and rhs.callee in R_PRIM:
                    extra = None
                    if rhs.callee == "arena_bindup_thrift" and len(rhs.args()) >= 3:
                        extra = member_path(rhs.args()[2])
                    acts.append(("prim", R_PRIM[rhs.callee], path, rhs.callee, extra))
                elif rhs.cv is not None and path:
                    if path[-1].startswith("has_") and rhs.cv == 1:
                        acts.append(("flag", path))
                    else:
                        acts.append(("tag", path, rhs.cv))
            elif n.k == "CallExpr" and n.callee:
                if n.callee in ("thrift_skip", "thrift_skip_field"):
                    own = len(n.args()) > 1 and _is_var(n.args()[1], typevar)
                    acts.append(("skip", own))
                elif parser_names and n.callee in parser_names:
                    a = n.args()
                    acts.append(("ref", n.callee, member_path(a[-1]) if a else None))
                elif n.callee in ("thrift_read_list_begin", "thrift_read_set_begin"):
                    acts.append(("listbegin",))
                elif n.callee in R_PRIM and not (n.parent is not None and _assigned(n)):
                    acts.append(("prim", R_PRIM[n.callee], None, n.callee, None))
    for l in nested_loops:
        sub = extract_parser_struct([l], parser_names)
        acts.append(("struct", sub))
    return acts


def _assigned(call):
    p = call.parent
    while p is not None and p.k in ("ImplicitCastExpr", "CStyleCastExpr", "ParenExpr"):
        p = p.parent
    return p is not None and is_assign(p)


def extract_parser(P, fn, parser_names):
    return extract_parser_struct([fn.body], parser_names)
