"""R1: call-result discipline.

(a/b) a status / stdio result is *consumed* on every path: returned, tested, passed on, stored in
      an object that outlives the call, or - when stored in a local - read before it is
      overwritten or the function exits (liveness on clang's CFG).
(c)   an allocation result is NULL-tested on every path before it is dereferenced, indexed or
      handed to a libc memory/string routine or to a callee that dereferences that parameter
      unconditionally (one-level callee summaries).
"""
from ..facts import src
from ..util import is_assign
from .flow import find_path_avoiding, reaches_exit_avoiding, describe_path

STDIO_RESULT = {"fwrite", "fflush", "fclose", "fseek", "fread", "ftell", "remove", "rename",
                "fputc", "fputs", "ftruncate", "fsync"}
ALLOCATORS = {"malloc", "calloc", "realloc", "strdup", "strndup", "aligned_alloc",
              "carquet_arena_alloc", "carquet_arena_calloc", "carquet_arena_alloc_aligned",
              "carquet_arena_strdup", "carquet_arena_strndup", "carquet_arena_memdup",
              "carquet_buffer_advance"}
MEM_ROUTINES = {"memcpy": (0, 1), "memmove": (0, 1), "memset": (0,), "memcmp": (0, 1),
                "strcpy": (0, 1), "strncpy": (0, 1), "strlen": (0,), "strcmp": (0, 1),
                "strncmp": (0, 1), "snprintf": (0,), "fread": (0,), "fwrite": (0,)}


def status_functions(P):
    """Names of functions returning carquet_status_t (from every declaration seen)."""
    out = set()
    for unit, fd in P.funcdecls:
        t = fd["type"]
        if t.startswith("carquet_status_t ") or t.startswith("carquet_status_t("):
            out.add(fd["name"])
    for f in P.functions.values():
        if f.ret == "carquet_status_t":
            out.add(f.name)
    return out


def _strip_up(n):
    """Parent of n skipping parens / casts."""
    p = n.parent
    while p is not None and p.k in ("ParenExpr", "ImplicitCastExpr", "ConstantExpr"):
        p = p.parent
    return p


def _explicit_void(n):
    p = n.parent
    while p is not None and p.k in ("ParenExpr", "ImplicitCastExpr"):
        p = p.parent
    return p is not None and p.k == "CStyleCastExpr" and p.t == "void"


def call_ordinals(fn):
    """call node id -> 'callee#k' (k-th call of that callee in source order)."""
    cnt = {}
    out = {}
    for n in fn.body.walk():
        if n.k == "CallExpr" and n.callee:
            k = cnt.get(n.callee, 0)
            cnt[n.callee] = k + 1
            out[n.i] = "%s#%d" % (n.callee, k)
    return out


def classify_use(call):
    """How the value of `call` is used: ('returned'|'tested'|'passed'|'stored-object'|
    'stored-local', node) or ('dropped', None)."""
    n = call
    p = _strip_up(n)
    # explicit (void)f() is a drop (frozen per site by the caller)
    if _explicit_void(call):
        return ("void-cast", None)
    cur = n
    while p is not None:
        if p.k == "ReturnStmt":
            return ("returned", p)
        if p.k in ("IfStmt", "WhileStmt", "ForStmt", "DoStmt", "SwitchStmt", "ConditionalOperator"):
            # used in the controlling expression?
            return ("tested", p)
        if p.k == "CStyleCastExpr":
            if p.t == "void":
                return ("void-cast", None)
            cur, p = p, _strip_up(p)
            continue
        if p.k == "UnaryOperator" and p.op in ("!", "-", "~"):
            cur, p = p, _strip_up(p)
            continue
        if p.k == "BinaryOperator":
            if p.op in ("==", "!=", "<", ">", "<=", ">=", "&&", "||"):
                return ("tested", p)
            if p.op == "=":
                if p.c[1] is not None and _contains(p.c[1], call):
                    lhs = p.c[0].strip()
                    if lhs.k == "DeclRefExpr" and lhs.get("dk") in ("local", "param"):
                        return ("stored-local", p)
                    return ("stored-object", p)
            if p.op == ",":
                if p.c[1] is not None and _contains(p.c[1], call):
                    cur, p = p, _strip_up(p)
                    continue
                return ("dropped", None)
            cur, p = p, _strip_up(p)
            continue
        if p.k == "CompoundAssignOperator":
            return ("stored-object", p)
        if p.k == "CallExpr":
            return ("passed", p)
        if p.k == "DeclStmt":
            return ("stored-local", p)
        if p.k in ("CompoundStmt", "CaseStmt", "DefaultStmt", "LabelStmt"):
            return ("dropped", None)
        if p.k in ("InitListExpr", "ArraySubscriptExpr", "MemberExpr"):
            cur, p = p, _strip_up(p)
            continue
        return ("dropped", None)
    return ("dropped", None)


def _contains(root, n):
    x = n
    while x is not None:
        if x is root:
            return True
        x = x.parent
    return False


def _decl_of_store(store, call):
    """(decl id, name) of the local that receives the call result."""
    if store.k == "DeclStmt":
        for d, init in zip(store.get("decls", []), store.c):
            if init is not None and _contains(init, call):
                return d.get("d"), d.get("n")
        return None, None
    lhs = store.c[0].strip()
    return lhs.get("d"), lhs.name


def local_is_read_before_dead(fn, store, d):
    """After `store` (assignment / declaration of local d): is there a path to the function exit
    or to another plain store of d without a read of d? Returns the witness path or None."""
    cfg = fn.cfg
    w = cfg.where()
    anchor = store
    if store.i not in w:
        # DeclStmt elements may be synthesised: use the last sub-node that is in the CFG
        cands = [x for x in store.walk() if x.i in w]
        if not cands:
            return None
        anchor = max(cands, key=lambda x: (w[x.i][0] == w[cands[0].i][0], w[x.i][1]))
        # prefer the DeclStmt / assignment itself when present
    b, idx = w[anchor.i]

    def is_read(e):
        if e.k == "DeclRefExpr" and e.get("d") == d:
            p = e.parent
            # the LHS of a plain assignment is not a read
            if p is not None and p.k == "BinaryOperator" and p.op == "=" and p.c[0] is e:
                return False
            return True
        return False

    def is_kill(e):
        if e.k == "BinaryOperator" and e.op == "=":
            l = e.c[0].strip()
            return l.k == "DeclRefExpr" and l.get("d") == d and e is not store
        return False

    # path to a kill without a read
    p1 = find_path_avoiding(cfg, is_read, is_kill, None, (b, idx + 1))
    if p1 is not None:
        return ("overwritten", p1)
    def reports_failure(e):
        # `return <failure constant>`: the function still reports an error on this path, only with its own code
        if e.k != "ReturnStmt" or not e.c or e.c[0] is None or e.c[0].cv is None:
            return False
        rt = fn.ret or ""
        if "*" in rt:
            return e.c[0].cv == 0
        if rt.strip() in ("bool", "_Bool"):
            return e.c[0].cv == 0
        if "carquet_status_t" in rt or rt.strip() == "int":
            return e.c[0].cv != 0
        return False
    p2 = reaches_exit_avoiding(cfg, lambda e: is_read(e) or reports_failure(e), None, (b, idx + 1))
    if p2 is not None:
        return ("exit", p2)
    return None


def check_status_calls(ctx, fns, callees, rule, pid_key="status", accept_void=(), suppress=None,
                       only_callee=None):
    """Obligation per call site of a status-class callee inside fns."""
    P = ctx.P
    n = 0
    suppress = suppress or {}
    for fn in fns:
        if fn.cfg is None:
            continue
        ords = call_ordinals(fn)
        for call in fn.calls():
            if call.callee not in callees:
                continue
            if only_callee is not None and not only_callee(call):
                continue
            n += 1
            key = "%s|%s:%s|%s" % (pid_key, P.rel(fn.file), fn.name, ords[call.i])
            where = P.where(call)
            what = "result of %s is consumed on every path" % call.callee
            use, node = classify_use(call)
            if key in suppress:
                ctx.suppressed(rule, key, where, what, suppress[key])
                continue
            if use in ("returned", "tested", "passed", "stored-object"):
                ctx.ok(rule, key, where, what, use, nontrivial=False)
            elif use == "stored-local":
                d, name = _decl_of_store(node, call)
                if d is None:
                    ctx.ok(rule, key, where, what, "stored", nontrivial=False)
                    continue
                dead = local_is_read_before_dead(fn, node, d)
                if dead is None:
                    ctx.ok(rule, key, where, what, "stored in `%s`, read on every path" % name)
                else:
                    ctx.bad(rule, key, where,
                            "result of %s is stored in `%s` but never read before it is %s"
                            % (call.callee, name, "overwritten" if dead[0] == "overwritten" else "lost at function exit"),
                            "path: %s" % describe_path(fn, fn.cfg, dead[1]),
                            witness={"blocks": dead[1]})
            elif use == "void-cast":
                # `(void)f(...)` is the same explicit, visible discard as `s = f(...); (void)s;`, which the
                # liveness rule accepts as a read: both are a decision the author wrote down, not a lost status
                ctx.ok(rule, key, where, what, "explicitly discarded with a (void) cast", nontrivial=False)
            else:
                ctx.bad(rule, key, where, "result of %s is dropped" % call.callee, "expression statement")
    return n


# ------------------------------------------------------------------------------ allocations
def lvalue_text(n):
    """Normalised text of a simple lvalue (local / member chain), else None."""
    n = n.strip_casts() if n is not None else None
    if n is None:
        return None
    if n.k == "DeclRefExpr":
        return n.name
    if n.k == "MemberExpr":
        b = lvalue_text(n.c[0]) if n.c else None
        if b is None:
            return None
        if n.get("anon"):
            return b
        return b + ("->" if n.get("arrow") else ".") + n.name
    if n.k == "ArraySubscriptExpr":
        b = lvalue_text(n.c[0])
        i = n.c[1]
        if b is None:
            return None
        return b + "[" + src(i) + "]"
    if n.k == "UnaryOperator" and n.op == "*":
        b = lvalue_text(n.c[0])
        return None if b is None else "*" + b
    return None


def _is_truth_use(e):
    """Is expression node e used as a truth value / compared with NULL?"""
    p = _strip_up(e)
    cur = e
    while p is not None and p.k == "CStyleCastExpr":
        cur, p = p, _strip_up(p)
    if p is None:
        return False
    if p.k == "UnaryOperator" and p.op == "!":
        return True
    if p.k == "BinaryOperator":
        if p.op in ("&&", "||"):
            return True
        if p.op in ("==", "!="):
            other = p.c[1] if _contains(p.c[0], e) else p.c[0]
            o = other.strip_casts() if other is not None else None
            return o is not None and (o.cv == 0 or (o.k in ("GNUNullExpr",)) or src(o) in ("0", "NULL"))
    if p.k in ("IfStmt", "WhileStmt", "ForStmt", "DoStmt"):
        kids = [x for x in p.c if x is not None]
        return bool(kids) and _contains(_cond_of(p), e)
    if p.k == "ConditionalOperator":
        return p.c[0] is not None and _contains(p.c[0], e)
    return False


def _cond_of(stmt):
    if stmt.k == "IfStmt":
        return [x for x in stmt.c if x is not None][0]
    if stmt.k == "WhileStmt":
        return stmt.c[0] if stmt.c[0] is not None else stmt.c[1]
    if stmt.k == "ForStmt":
        return stmt.c[2]
    if stmt.k == "DoStmt":
        return stmt.c[1]
    return None


def deref_kind(e, L, deref_summaries=None):
    """If CFG element e dereferences the lvalue L (by text) return a description, else None."""
    k = e.k
    if k == "UnaryOperator" and e.op == "*":
        if lvalue_text(e.c[0]) == L:
            return "*%s" % L
    elif k == "ArraySubscriptExpr":
        if lvalue_text(e.c[0]) == L:
            return "%s[...]" % L
    elif k == "MemberExpr" and e.get("arrow"):
        if e.c and lvalue_text(e.c[0]) == L:
            return "%s->%s" % (L, e.name)
    elif k == "CallExpr" and e.callee:
        args = e.args()
        if e.callee in MEM_ROUTINES:
            for ai in MEM_ROUTINES[e.callee]:
                if ai < len(args) and _ptr_arg_is(args[ai], L):
                    return "%s(%s)" % (e.callee, L)
        elif deref_summaries is not None and e.callee in deref_summaries:
            for ai in deref_summaries[e.callee]:
                if ai < len(args) and _ptr_arg_is(args[ai], L):
                    return "%s(... %s ...) dereferences its argument %d unconditionally" % (e.callee, L, ai)
    return None


def _ptr_arg_is(arg, L):
    a = arg.strip_casts()
    if lvalue_text(a) == L:
        return True
    # L + offset
    if a is not None and a.k == "BinaryOperator" and a.op in ("+", "-"):
        return lvalue_text(a.c[0]) == L
    return False


def param_deref_summaries(P, fns):
    """fn name -> set(param index) dereferenced on some path without a prior NULL test."""
    out = {}
    for fn in fns:
        if fn.cfg is None:
            continue
        for idx, p in enumerate(fn.params):
            if "*" not in p["t"]:
                continue
            L = p["n"]
            if not L:
                continue

            def is_test(e, L=L):
                return (e.k in ("DeclRefExpr", "MemberExpr") and lvalue_text(e) == L and _is_truth_use(e)) or \
                       _is_reassign(e, L)

            def is_deref(e, L=L):
                return deref_kind(e, L) is not None
            w = find_path_avoiding(fn.cfg, is_test, is_deref)
            if w is not None:
                out.setdefault(fn.name, set()).add(idx)
    return out


_pt_cache = {}


def param_test_summaries(P):
    """fn name -> set(param index): the function compares that pointer parameter with NULL (or uses it as a
    truth value) and never dereferences it - a predicate such as `alloc_ok(dec, ptr, count)`. A caller
    that hands its fresh allocation to such a function and acts on the answer has tested it."""
    if '_pt_cache' in P.__dict__.setdefault("_memo", {}):
        return P.__dict__["_memo"]['_pt_cache']
    out = {}
    for fn in P.functions.values():
        for idx, p in enumerate(fn.params):
            if "*" not in p["t"] or not p["n"]:
                continue
            L = p["n"]
            uses = [x for x in fn.body.walk() if x.k == "DeclRefExpr" and x.get("dk") == "param" and x.name == L]
            if uses and all(_is_truth_use(x) or _is_truth_use_or_cmp(x) for x in uses) and any(_is_truth_use_or_cmp(x) for x in uses):
                out.setdefault(fn.name, set()).add(idx)
    P.__dict__.setdefault("_memo", {})['_pt_cache'] = out
    return out


def _is_reassign(e, L):
    return e.k == "BinaryOperator" and e.op == "=" and lvalue_text(e.c[0]) == L


def check_allocations(ctx, fns, rule, allocators=ALLOCATORS, extra_alloc=(), summaries=None,
                      suppress=None, pid_key="alloc"):
    P = ctx.P
    suppress = suppress or {}
    n = 0
    allocs = set(allocators) | set(extra_alloc)
    for fn in fns:
        if fn.cfg is None:
            continue
        ords = call_ordinals(fn)
        w = fn.cfg.where()
        for call in fn.calls():
            if call.callee not in allocs:
                continue
            n += 1
            key = "%s|%s:%s|%s" % (pid_key, P.rel(fn.file), fn.name, ords[call.i])
            where = P.where(call)
            what = "result of %s is NULL-tested before it is dereferenced" % call.callee
            if key in suppress:
                ctx.suppressed(rule, key, where, what, suppress[key])
                continue
            use, node = classify_use(call)
            if use in ("returned", "passed"):
                ctx.ok(rule, key, where, what, use + " (caller/callee responsibility)", nontrivial=False)
                continue
            if use == "tested":
                ctx.ok(rule, key, where, what, "tested in place", nontrivial=False)
                continue
            if use in ("dropped", "void-cast"):
                ctx.bad(rule, key, where, "allocation result of %s is dropped (leak)" % call.callee)
                continue
            # stored: which lvalue?
            if node.k == "DeclStmt":
                d, name = _decl_of_store(node, call)
                L = name
            else:
                L = lvalue_text(node.c[0])
            if L is None:
                ctx.ok(rule, key, where, what, "stored in a complex lvalue (not tracked)", nontrivial=False)
                continue
            anchor = node if node.i in w else call
            if anchor.i not in w:
                ctx.inconclusive(rule, key, where, what, "store not found in CFG")
                continue
            b, idx = w[anchor.i]

            tests = param_test_summaries(P)

            def is_test(e, L=L, node=node):
                if (e.k in ("DeclRefExpr", "MemberExpr", "ArraySubscriptExpr") or (e.k == "UnaryOperator" and e.op == "*")) \
                        and lvalue_text(e) == L and _is_truth_use(e):
                    return True
                if e.k == "CallExpr" and e.callee in tests and any(
                        ai < len(e.args()) and lvalue_text(e.args()[ai]) == L for ai in tests[e.callee]) and _result_is_acted_on(e):
                    return True         # handed to a predicate that NULL-tests it, and the answer decides a branch
                return _is_reassign(e, L) and e is not node

            hit = {}

            def is_deref(e, L=L):
                dk = deref_kind(e, L, summaries)
                if dk:
                    hit["what"] = dk
                    hit["node"] = e
                    return True
                return False
            path = find_path_avoiding(fn.cfg, is_test, is_deref, None, (b, idx + 1))
            if path is not None:
                # is the witness feasible? (`n > 0` false, then `i < n` true with i == 0, is not)
                from .flow import find_feasible_path_avoiding
                path, capped = find_feasible_path_avoiding(fn, is_test, is_deref, (b, idx + 1))
                if capped:
                    ctx.inconclusive(rule, key, where, what, "path search cap reached")
                    continue
            if path is None:
                ctx.ok(rule, key, where, what, "`%s` tested (or not dereferenced) on every feasible path" % L)
            else:
                ctx.bad(rule, key, where,
                        "`%s` = %s(...) is used (%s at line %d) on a path with no NULL test"
                        % (L, call.callee, hit.get("what"), hit["node"].l),
                        "path: %s" % describe_path(fn, fn.cfg, path), witness={"blocks": path})
    return n


def _result_is_acted_on(call):
    p = _strip_up(call)
    while p is not None and p.k == "UnaryOperator" and p.op == "!":
        p = _strip_up(p)
    return p is not None and p.k in ("IfStmt", "WhileStmt", "ConditionalOperator") or \
        (p is not None and p.k == "BinaryOperator" and p.op in ("&&", "||", "==", "!="))


def _is_truth_use_or_cmp(e):
    """e is used as a truth value, compared with NULL/0, or compared with any constant."""
    if _is_truth_use(e):
        return True
    p = _strip_up(e)
    if p is not None and p.k == "BinaryOperator" and p.op in ("==", "!=", "<", ">", "<=", ">="):
        return True
    return False
