"""Opaque integer terms produced by the interpreter's Sym values: normal form, evaluation, comparison.

A term is an int, a leaf tuple (("hash",), ("n",), ("load", base, off, bits)) or
(op, a, b, bits) for + - * / % << >> & | ^, ("cast", bits, a), ("cmp", op, a, b), ("~"|"-", a, bits).
Two terms are *the same formula* when their normal forms are equal (commutative operands sorted, casts that
cannot change the value dropped). When they are not, `differ()` looks for an assignment of the leaves on
which they evaluate differently: that is the witness a violation needs; without one the comparison is
inconclusive."""

COMM = ("+", "*", "&", "|", "^")


def width(t):
    if isinstance(t, int):
        return None
    if t[0] == "cast":
        return t[1]
    if t[0] == "cmp":
        return 32
    if t[0] == "load":
        return t[3] if len(t) > 3 else None
    if t[0] in ("~", "-") and len(t) == 3:
        return t[2]
    if len(t) == 4:
        return t[3]
    return 64


def norm(t):
    if isinstance(t, int) or not isinstance(t, tuple):
        return t
    if t[0] == "cast":
        a = norm(t[2])
        wa = width(a)
        if isinstance(a, int):
            return a & ((1 << t[1]) - 1)
        if wa is not None and wa <= t[1]:
            return a
        return ("cast", t[1], a)
    if t[0] == "cmp":
        return ("cmp", t[1], norm(t[2]), norm(t[3]))
    if t[0] in ("~", "-") and len(t) == 3:
        return (t[0], norm(t[1]), t[2])
    if len(t) == 4 and isinstance(t[0], str) and t[0] not in ("load",):
        a, b = norm(t[1]), norm(t[2])
        if isinstance(a, int) and isinstance(b, int):
            return evaluate((t[0], a, b, t[3]), {})
        if t[0] in COMM and repr(a) > repr(b):
            a, b = b, a
        return (t[0], a, b, t[3])
    return t


def leaves(t, out=None):
    out = set() if out is None else out
    if isinstance(t, tuple):
        if t[0] in ("load",) or len(t) == 1:
            out.add(t)
        else:
            for x in t[1:]:
                if isinstance(x, tuple):
                    leaves(x, out)
    return out


def evaluate(t, env):
    if isinstance(t, int):
        return t
    if t in env:
        return env[t]
    if t[0] == "load" or len(t) == 1:
        raise KeyError(t)
    if t[0] == "cast":
        return evaluate(t[2], env) & ((1 << t[1]) - 1)
    if t[0] == "cmp":
        a, b = evaluate(t[2], env), evaluate(t[3], env)
        return int({"<": a < b, "<=": a <= b, ">": a > b, ">=": a >= b, "==": a == b, "!=": a != b}[t[1]])
    if t[0] in ("~", "-") and len(t) == 3:
        v = evaluate(t[1], env)
        return (~v if t[0] == "~" else -v) & ((1 << t[2]) - 1)
    op, a, b, bits = t[0], evaluate(t[1], env), evaluate(t[2], env), t[3]
    m = (1 << bits) - 1
    a &= m
    b &= m
    if op == "+":
        r = a + b
    elif op == "-":
        r = a - b
    elif op == "*":
        r = a * b
    elif op == "/":
        r = a // b if b else 0
    elif op == "%":
        r = a % b if b else 0
    elif op == "<<":
        r = a << (b & 63)
    elif op == ">>":
        r = a >> (b & 63)
    elif op == "&":
        r = a & b
    elif op == "|":
        r = a | b
    elif op == "^":
        r = a ^ b
    else:
        raise KeyError(op)
    return r & m


SAMPLES64 = [0, 1, 0xFFFFFFFF, 0x100000000, 0x80000000, 0x7FFFFFFF, 0xFFFFFFFFFFFFFFFF, 0x8000000000000000,
             0x0123456789ABCDEF, 0xDEADBEEFCAFEBABE, 0x9E3779B97F4A7C15, 0xC2B2AE3D27D4EB4F, 0x00000001FFFFFFFF,
             0xFFFFFFFF00000001, 0x5555555555555555, 0xAAAAAAAAAAAAAAAA, 0x0000000100000000, 0x00000000FFFFFFFE,
             0x7FFFFFFFFFFFFFFF, 0x1234567800000000, 0x00000000DEADBEEF, 0x47b6137b44974d91, 0x3, 0x1F, 0x20, 0xFFFF]


def differ(t1, t2, domains=None):
    """'same' | ('witness', env, v1, v2) | 'unknown' for two terms over the same leaves.
    domains: {leaf: [values]} (default: SAMPLES64 for every leaf)."""
    n1, n2 = norm(t1), norm(t2)
    if n1 == n2:
        return "same"
    ls = sorted(leaves(n1) | leaves(n2), key=repr)
    domains = domains or {}
    import itertools
    doms = [domains.get(l, SAMPLES64) for l in ls]
    count = 0
    for combo in itertools.product(*doms):
        count += 1
        if count > 20000:
            break
        env = dict(zip(ls, combo))
        try:
            v1, v2 = evaluate(n1, env), evaluate(n2, env)
        except (KeyError, ZeroDivisionError):
            return "unknown"
        if v1 != v2:
            return ("witness", env, v1, v2)
    return "unknown"


def show(t):
    if isinstance(t, int):
        return hex(t) if t > 9 else str(t)
    if t[0] == "load":
        return "%s[%s]" % (t[1], t[2])
    if len(t) == 1:
        return t[0]
    if t[0] == "cast":
        return "(u%d)%s" % (t[1], show(t[2]))
    if t[0] == "cmp":
        return "(%s %s %s)" % (show(t[2]), t[1], show(t[3]))
    if t[0] in ("~", "-") and len(t) == 3:
        return "%s%s" % (t[0], show(t[1]))
    return "(%s %s %s)" % (show(t[1]), t[0], show(t[2]))
