"""R37: the thread count selects a schedule, never the work.

Thread-count values are the configured counts (a frozen (record, member) table), what the OpenMP runtime
reports (omp_get_max_threads, omp_get_num_threads, omp_get_num_procs), locals computed from those, and the
parameters of library functions that receive them. Such a value may be copied, defaulted or clamped
(`if (n <= 0) n = omp_get_max_threads();`), handed on, and named in OpenMP clauses. It may not decide whether
effectful work happens: a branch on it whose arms differ in the library calls they make or the memory they
store to - in particular an early `return` / `continue` that skips later effectful statements - makes what the
caller gets depend on the setting. The witness is the pair of settings that take different arms.

Branches whose arms do the same calls (serial loop versus parallel loop over the same callee) are accepted;
arithmetic uses of a thread count (chunk sizes) are not judged by this rule."""
from ..facts import src
from ..util import is_assign

MEMBERS = {("carquet_batch_reader_config", "num_threads"), ("carquet_reader_options", "num_threads")}
OMP_QUERY = ("omp_get_max_threads", "omp_get_num_threads", "omp_get_num_procs", "omp_get_thread_limit")


def _seed(n, members):
    return (n.k == "MemberExpr" and (n.get("rec"), n.name) in members) or (n.k == "CallExpr" and n.callee in OMP_QUERY)


def tainted_locals(fn, params, members):
    """decl ids of locals/params of fn that hold a thread count or something computed from one."""
    t = set(params)
    changed = True
    while changed:
        changed = False
        for n in fn.body.walk():
            pairs = []
            if n.k == "DeclStmt":
                pairs = [(dd.get("d"), init) for dd, init in zip(n.get("decls", []), n.c) if init is not None]
            elif is_assign(n) and n.c[0].strip().k == "DeclRefExpr":
                pairs = [(n.c[0].strip().get("d"), n.c[1])]
            for d, e in pairs:
                if d is None or d in t:
                    continue
                if any(_seed(x, members) or (x.k == "DeclRefExpr" and x.get("d") in t) for x in e.walk()):
                    t.add(d)
                    changed = True
    return t


def _mentions(e, t, members):
    return e is not None and any(_seed(x, members) or (x.k == "DeclRefExpr" and x.get("d") in t) for x in e.walk())


def _effects(P, stmts, t):
    """Effectful things in a list of statements: library calls that can write through an argument, stores to
    anything but thread-count locals, exits."""
    out = []
    for s in stmts:
        if s is None:
            continue
        for n in s.walk():
            if n.k == "CallExpr" and n.callee and not n.callee.startswith("omp_") and not n.callee.startswith("__builtin"):
                defs = P.by_name.get(n.callee, [])
                if not defs:
                    if n.callee in ("free", "malloc", "calloc", "realloc", "memcpy", "memset", "memmove", "fread", "fwrite", "fseek", "close", "fclose"):
                        out.append(("call", n.callee))
                    continue
                g = defs[0]
                if any("*" in p_["t"] and "const " not in p_["t"].split("*")[0] for p_ in g.params) or \
                        any(x.k == "DeclRefExpr" and x.get("dk") == "global" for x in (g.body.walk() if g.body is not None else ())):
                    out.append(("call", n.callee))
            elif is_assign(n) or (n.k == "UnaryOperator" and n.op in ("++", "--")):
                tg = n.c[0].strip()
                if tg.k == "DeclRefExpr" and tg.get("dk") in ("local", "param"):
                    if tg.get("d") in t:
                        continue
                    out.append(("store-local", tg.name))
                else:
                    out.append(("store", src(tg)[:40]))
    return out


def _after(stmt):
    """Statements that follow stmt in its enclosing blocks up to the function body (what an early return skips)."""
    out = []
    cur = stmt
    p = stmt.parent
    while p is not None:
        if p.k == "CompoundStmt":
            kids = [x for x in p.c if x is not None]
            for i, x in enumerate(kids):
                if x is cur:
                    out += kids[i + 1:]
        elif p.k in ("ForStmt", "WhileStmt", "DoStmt") and out is not None:
            pass
        cur = p
        p = p.parent
    return out


def check(ctx, fns, rule="R37.thread-count", key_prefix="thread-count", members=None):
    P = ctx.P
    members = MEMBERS if members is None else members
    fns = [f for f in fns if f.body is not None]
    byname = {}
    for f in fns:
        byname.setdefault(f.name, []).append(f)
    # parameters that receive thread counts (fixpoint over direct calls among the given functions)
    ptaint = {f.key(): set() for f in fns}
    changed = True
    rounds = 0
    while changed and rounds < 6:
        changed = False
        rounds += 1
        for f in fns:
            t = tainted_locals(f, ptaint[f.key()], members)
            for c in f.calls():
                for g in byname.get(c.callee or "", []):
                    for i, a in enumerate(c.args()):
                        if i < len(g.params) and a is not None and _mentions(a, t, members) and "*" not in g.params[i]["t"]:
                            d = g.params[i]["d"]
                            if d not in ptaint[g.key()]:
                                ptaint[g.key()].add(d)
                                changed = True
    n = 0
    for f in fns:
        t = tainted_locals(f, ptaint[f.key()], members)
        idx = 0
        for s in f.body.walk():
            if s.k != "IfStmt":
                continue
            kids = [x for x in s.c if x is not None]
            cond, then = kids[0], kids[1]
            els = kids[2] if len(kids) > 2 else None
            if not _mentions(cond, t, members):
                continue
            n += 1
            idx += 1
            key = "%s|%s:%s|L%d" % (key_prefix, P.rel(f.file), f.name, idx)
            what = "the branch on `%s` only defaults or clamps the thread count, or runs the same work on another schedule" % src(cond)[:60]
            e_then, e_else = _effects(P, [then], t), _effects(P, [els], t)
            exits_then = any(x.k in ("ReturnStmt", "ContinueStmt", "BreakStmt", "GotoStmt") for x in then.walk())
            exits_else = els is not None and any(x.k in ("ReturnStmt", "ContinueStmt", "BreakStmt", "GotoStmt") for x in els.walk())
            if exits_then != exits_else:
                skipped = _effects(P, _after(s), t)
                # inside a loop a `continue` skips the rest of the body only
                if skipped:
                    ctx.bad(rule, key, P.where(s), what,
                            "one arm leaves early, and what it skips is effectful (%s): a caller gets different state for thread counts on "
                            "either side of `%s`" % (", ".join(sorted(set("%s %s" % x for x in skipped)))[:160], src(cond)[:50]))
                    continue
            calls_then = sorted(x for x in e_then if x[0] != "store-local")
            calls_else = sorted(x for x in e_else if x[0] != "store-local")
            if calls_then != calls_else:
                ctx.bad(rule, key, P.where(s), what,
                        "the arms differ in their effects (%s versus %s): what is done depends on the thread count" % (
                            calls_then[:4] or "nothing", calls_else[:4] or "nothing"))
                continue
            ctx.ok(rule, key, P.where(s), what)
    return n
