"""R20: multi-byte integers are assembled little-endian.

Every multi-byte integer of the Parquet format (RLE run values, PLAIN values, page lengths,
Snappy/LZ4 offsets, Thrift varint groups) is little-endian: byte k contributes `byte << 8k`. The
big-endian accumulation idiom - the accumulator itself shifted left by a whole number of bytes and
OR-ed/added with a freshly read byte, `v = (v << 8) | b` or `v <<= 8; v |= b` - assembles the bytes
in the opposite order and is never right in a decoder of this format."""
from ..facts import src
from ..util import is_assign


def _same_lvalue(a, b):
    return src(a.strip_casts()) == src(b.strip_casts())


def sites(fns):
    """accumulate-shift-left-by-bytes statements: [(fn, node)]"""
    out = []
    for fn in fns:
        for n in fn.body.walk():
            if not is_assign(n):
                continue
            lhs = n.c[0].strip()
            if n.op == "=":
                r = n.c[1].strip_casts()
                if r.k == "BinaryOperator" and r.op in ("|", "+", "^"):
                    for side in r.c:
                        x = side.strip_casts()
                        if x.k == "BinaryOperator" and x.op == "<<" and x.c[1].cv is not None and x.c[1].cv % 8 == 0 \
                                and x.c[1].cv > 0 and _same_lvalue(x.c[0], lhs):
                            out.append((fn, n))
            elif n.op == "<<=" and n.c[1].cv is not None and n.c[1].cv % 8 == 0 and n.c[1].cv > 0:
                # followed by an OR into the same variable in the same block
                p = n.parent
                while p is not None and p.k not in ("CompoundStmt",):
                    p = p.parent
                if p is not None:
                    for m in p.walk():
                        if is_assign(m) and m.op in ("|=", "+=") and _same_lvalue(m.c[0], lhs) and m.i > n.i:
                            out.append((fn, n))
                            break
    return out


def check(ctx, fns, rule="R20.endian", key_prefix="byte-order"):
    P = ctx.P
    ss = sites(fns)
    for fn, n in ss:
        ctx.bad(rule, "%s|%s:%s|%s" % (key_prefix, P.rel(fn.file), fn.name, src(n.c[0])[:24]), P.where(n),
                "`%s` accumulates bytes most-significant first; the format is little-endian" % src(n)[:70])
    ctx.ok(rule, key_prefix + "|scope", "decoders", "no big-endian byte accumulation in %d decoder-side functions" % len(fns),
           "%d sites" % len(ss))
    return len(ss)
