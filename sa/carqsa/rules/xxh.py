"""XXH64 as a formula: carquet_xxhash64 is executed abstractly for every length 0..N with opaque input bytes
and an opaque seed; what it returns is a term over those bytes. The XXH64 specification, written here over
the same leaves, gives the reference term for that length. Both are put into one canonical form
(little-endian byte compositions become words, associative-commutative operators are flattened, constants
folded modulo 2^64, additions of zero / casts that cannot change the value dropped).

  equal canonical forms                      -> the function computes XXH64 for that length
  an input on which the two terms evaluate
  differently (searched among fixed samples) -> violation, the witness is the input, both hashes are reported
  neither                                    -> inconclusive (the code is in a shape the canonical form does not
                                                relate to the specification; no differing input was found)

The rule depends on what is computed, not on how the source is arranged: a lane array, a rotation table, a
tail helper, unrolled or re-rolled loops all give the same term."""
from . import sem, terms
from .skeleton import Ptr, Sym

P1 = 0x9E3779B185EBCA87
P2 = 0xC2B2AE3D27D4EB4F
P3 = 0x165667B19E3779F9
P4 = 0x85EBCA77C2B2AE63
P5 = 0x27D4EB2F165667C5
SEED = ("seed",)
AC = ("+", "*", "^", "|", "&")
IDENT = {"+": 0, "^": 0, "|": 0, "*": 1}


# ---- specification ------------------------------------------------------------------------------------
def _b(op, a, b, bits=64):
    return (op, a, b, bits)


def _byte(off):
    return ("load", "data", off, 8)


def _rd(off, n):
    t = _byte(off)
    for i in range(1, n):
        t = _b("|", t, _b("<<", _byte(off + i), 8 * i, 8 * n), 8 * n)
    return t


def _rotl(x, r):
    return _b("|", _b("<<", x, r), _b(">>", x, 64 - r))


def _round(acc, inp):
    acc = _b("+", acc, _b("*", inp, P2))
    return _b("*", _rotl(acc, 31), P1)


def _merge(acc, val):
    acc = _b("^", acc, _round(0, val))
    return _b("+", _b("*", acc, P1), P4)


def spec(L, seed=SEED):
    p = 0
    if L >= 32:
        v = [_b("+", _b("+", seed, P1), P2), _b("+", seed, P2), seed, _b("-", seed, P1)]
        while p + 32 <= L:
            for k in range(4):
                v[k] = _round(v[k], _rd(p, 8))
                p += 8
        h = _b("+", _b("+", _b("+", _rotl(v[0], 1), _rotl(v[1], 7)), _rotl(v[2], 12)), _rotl(v[3], 18))
        for k in range(4):
            h = _merge(h, v[k])
    else:
        h = _b("+", seed, P5)
    h = _b("+", h, L)
    while p + 8 <= L:
        h = _b("^", h, _round(0, _rd(p, 8)))
        h = _b("+", _b("*", _rotl(h, 27), P1), P4)
        p += 8
    if p + 4 <= L:
        h = _b("^", h, _b("*", _rd(p, 4), P1))
        h = _b("+", _b("*", _rotl(h, 23), P2), P3)
        p += 4
    while p < L:
        h = _b("^", h, _b("*", _byte(p), P5))
        h = _b("*", _rotl(h, 11), P1)
        p += 1
    h = _b("^", h, _b(">>", h, 33))
    h = _b("*", h, P2)
    h = _b("^", h, _b(">>", h, 29))
    h = _b("*", h, P3)
    h = _b("^", h, _b(">>", h, 32))
    return h


# ---- canonical form -----------------------------------------------------------------------------------
def _lanes(t):
    """{bit position: (base, offset)} when t places whole input bytes at distinct byte lanes, else None."""
    if not isinstance(t, tuple):
        return None
    if t[0] == "load" and len(t) > 3 and t[3] % 8 == 0:
        return {8 * i: (t[1], t[2] + i) for i in range(t[3] // 8)}
    if t[0] == "cast":
        a = _lanes(t[2])
        if a is None or any(k + 8 > t[1] for k in a):
            return None
        return a
    if len(t) == 4 and t[0] == "<<" and isinstance(t[2], int) and t[2] % 8 == 0:
        a = _lanes(t[1])
        if a is None:
            return None
        s = {k + t[2]: v for k, v in a.items()}
        if any(k + 8 > t[3] for k in s):
            return None
        return s
    if len(t) == 4 and t[0] in ("|", "+", "^"):
        a, b = _lanes(t[1]), _lanes(t[2])
        if a is None or b is None or set(a) & set(b):
            return None
        a = dict(a)
        a.update(b)
        return a
    return None


def _cwidth(c):
    if isinstance(c, int):
        return None
    if c[0] == "word":
        return 8 * c[3]
    if c[0] == "ac":
        return c[2]
    if c[0] == "cast":
        return c[1]
    if c[0] == "bin":
        return c[4]
    return 64


class _Canon:
    def __init__(self):
        self.memo = {}

    def __call__(self, t):
        if isinstance(t, int) or not isinstance(t, tuple):
            return t
        k = id(t)
        hit = self.memo.get(k)
        if hit is not None and hit[0] is t:
            return hit[1]
        r = self._c(t)
        self.memo[k] = (t, r)
        return r

    def _c(self, t):
        ln = _lanes(t)
        if ln:
            pos = sorted(ln)
            base, off0 = ln[pos[0]]
            if pos == [8 * i for i in range(len(pos))] and all(ln[8 * i] == (base, off0 + i) for i in range(len(pos))):
                return ("word", base, off0, len(pos))
        if len(t) == 1:
            return t
        if t[0] == "cast":
            a = self(t[2])
            if isinstance(a, int):
                return a & ((1 << t[1]) - 1)
            w = _cwidth(a)
            if w is not None and w <= t[1]:
                return a
            return ("cast", t[1], a)
        if t[0] == "cmp":
            return ("cmp", t[1], self(t[2]), self(t[3]))
        if t[0] in ("~", "-") and len(t) == 3:
            a = self(t[1])
            if isinstance(a, int):
                return (~a if t[0] == "~" else -a) & ((1 << t[2]) - 1)
            return ("un", t[0], a, t[2])
        if len(t) == 4 and isinstance(t[0], str) and t[0] != "load":
            op, bits = t[0], t[3]
            m = (1 << bits) - 1
            a, b = self(t[1]), self(t[2])
            if op == "-" and isinstance(b, int):
                op, b = "+", (-b) & m
            if isinstance(a, int) and isinstance(b, int):
                return terms.evaluate((op, a, b, bits), {})
            if op in AC:
                kids, const = [], IDENT.get(op)
                has_const = False
                for x in (a, b):
                    if isinstance(x, tuple) and x[0] == "ac" and x[1] == op and x[2] == bits:
                        for y in x[3]:
                            if isinstance(y, int):
                                const = y if not has_const else terms.evaluate((op, const, y, bits), {})
                                has_const = True
                            else:
                                kids.append(y)
                    elif isinstance(x, int):
                        const = (x & m) if not has_const else terms.evaluate((op, const, x & m, bits), {})
                        has_const = True
                    else:
                        kids.append(x)
                if has_const and op in IDENT and const == IDENT[op]:
                    has_const = False
                if op == "*" and has_const and const == 0:
                    return 0
                kids.sort(key=repr)
                if has_const:
                    kids.append(const)
                if len(kids) == 1:
                    # a narrower value used at this width: the width is part of the parent anyway
                    return kids[0]
                return ("ac", op, bits, tuple(kids))
            return ("bin", op, a, b, bits)
        return t


def canon(t):
    return _Canon()(t)


# ---- evaluation (witness search) ----------------------------------------------------------------------
def _expand(t, memo):
    """Wide loads spelled as their bytes (little-endian), so one environment over bytes evaluates both terms."""
    if not isinstance(t, tuple):
        return t
    k = id(t)
    if k in memo and memo[k][0] is t:
        return memo[k][1]
    if t[0] == "load" and len(t) > 3 and t[3] > 8:
        r = _byte_of(t[1], t[2])
        for i in range(1, t[3] // 8):
            r = ("|", r, ("<<", _byte_of(t[1], t[2] + i), 8 * i, t[3]), t[3])
    elif t[0] == "load" or len(t) == 1:
        r = t
    else:
        r = tuple(_expand(x, memo) if isinstance(x, tuple) else x for x in t)
    memo[k] = (t, r)
    return r


def _byte_of(base, off):
    return ("load", base, off, 8)


def _eval(t, env, memo):
    if isinstance(t, int):
        return t
    k = id(t)
    if k in memo:
        return memo[k]
    if t in env:
        v = env[t]
    elif t[0] == "load" or len(t) == 1:
        raise KeyError(t)
    elif t[0] == "cast":
        v = _eval(t[2], env, memo) & ((1 << t[1]) - 1)
    elif t[0] == "cmp":
        a, b = _eval(t[2], env, memo), _eval(t[3], env, memo)
        v = int({"<": a < b, "<=": a <= b, ">": a > b, ">=": a >= b, "==": a == b, "!=": a != b}[t[1]])
    elif t[0] in ("~", "-") and len(t) == 3:
        a = _eval(t[1], env, memo)
        v = (~a if t[0] == "~" else -a) & ((1 << t[2]) - 1)
    else:
        a, b = _eval(t[1], env, memo), _eval(t[2], env, memo)
        v = terms.evaluate((t[0], a, b, t[3]), {})
    memo[k] = v
    return v


def _samples(L):
    """Deterministic inputs: structured bytes that make every lane, carry and rotation visible."""
    out = []
    pats = [lambda i: 0, lambda i: 0xFF, lambda i: (i * 37 + 11) & 0xFF, lambda i: (0x80 >> (i % 8)),
            lambda i: (i * i * 7 + 3) & 0xFF, lambda i: 1 if i % 8 == 7 else 0, lambda i: 0xA5 ^ (i & 0xFF),
            lambda i: (255 - i) & 0xFF]
    seeds = [0, 1, 0xFFFFFFFFFFFFFFFF, 0x9E3779B97F4A7C15, 0x8000000000000000, 0x0123456789ABCDEF, 0x100000000, 47]
    for k, f in enumerate(pats):
        for s in (seeds[k], seeds[(k + 3) % 8]):
            out.append(([f(i) for i in range(L)], s))
    # one-hot bytes: every input byte matters and matters through its own lane
    for i in range(min(L, 40)):
        out.append(([0x5B if j == i else 0 for j in range(L)], 0))
    return out


def compare(impl, L, seed_term=SEED):
    """('same', None) | ('witness', text) | ('unknown', text) for the implementation's term at length L."""
    ref = spec(L, seed_term)
    ci, cr = canon(impl), canon(ref)
    if ci == cr:
        return "same", None
    ei, er = _expand(impl, {}), _expand(ref, {})
    for data, s in _samples(L):
        env = {("load", "data", i, 8): b for i, b in enumerate(data)}
        if not isinstance(seed_term, int):
            env[SEED] = s
        try:
            vi, vr = _eval(ei, env, {}), _eval(er, env, {})
        except (KeyError, ZeroDivisionError) as ex:
            return "unknown", "the returned term mentions %r, which is neither an input byte nor the seed" % (ex.args[0],)
        if vi != vr:
            return "witness", "length %d, seed %#x, input %s: the function's formula gives %#018x, XXH64 is %#018x" % (
                L, s if not isinstance(seed_term, int) else seed_term, bytes(data).hex() or "(empty)", vi, vr)
    return "unknown", "length %d: the returned formula is not in the specification's form and no sampled input separates them" % L


def run(P, fn, L, seed=None):
    """The term carquet_xxhash64(data, L, seed) returns (an int when everything folded)."""
    mem = lambda base, off, size: Sym(("load", base, off, size * 8), size * 8) if base == "data" else None
    sd = Sym(SEED, 64) if seed is None else seed
    ret, ev, heap = sem.run(P, fn, [Ptr("data", 0, 1), L, sd], heap0={}, hooks={}, single=True, memory=mem,
                            max_forks=4, budget=600000, inline_depth=4)
    return ret.t if isinstance(ret, Sym) else ret


def check(ctx, fn, lengths, rule="R5.spec"):
    """One obligation for the whole function: the formula is XXH64's for every length in `lengths`.
    Returns 'same' | 'witness' | 'unknown'."""
    P = ctx.P
    key = "xxh64-formula|%s:%s" % (P.rel(fn.file), fn.name)
    what = "%s returns the XXH64 formula of its input bytes, length and seed for every length in %d..%d " \
           "(abstract execution with opaque bytes; canonical-form comparison with the specification)" % (
               fn.name, min(lengths), max(lengths))
    done = 0
    seed_mode = None
    for L in lengths:
        t = None
        try:
            t = run(P, fn, L)
        except sem.Inconclusive as ex:
            # a branch on the seed (a seed == 0 fast path): Parquet's Bloom filters hash with seed 0
            try:
                t = run(P, fn, L, seed=0)
                seed_mode = 0
            except sem.Inconclusive as ex2:
                ctx.inconclusive(rule, key, P.where(fn.body), what, "length %d: %s" % (L, ex2))
                return "unknown"
            verdict, how = compare(t, L, 0)
        else:
            verdict, how = compare(t, L)
        if verdict == "witness":
            ctx.bad(rule, key, P.where(fn.body), what, how)
            return "witness"
        if verdict == "unknown":
            ctx.inconclusive(rule, key, P.where(fn.body), what, how)
            return "unknown"
        done += 1
    ctx.ok(rule, key, P.where(fn.body), what, "%d lengths, equal canonical forms%s" % (
        done, "" if seed_mode is None else " (seed 0 where the code branches on the seed)"))
    return "same"
