"""R43: bit-addressed helpers - `get(base, bit_offset, width)` reads, `put(base, bit_offset, value, width)` writes.

(1) The helper's extent. The helper is executed (skeleton execution, concrete scalars, the pointer as an abstract
    base) for every bit offset 0..8 and every width 1..64. Every access through the pointer must lie in the bytes
    bit_offset >> 3 .. (bit_offset + width - 1) >> 3. Which scalar parameter is the offset and which the width is found
    by trying both orders; if neither order satisfies the bound the helper has no such extent. The offsets 0..8 cover
    every alignment and one whole-byte step; that larger offsets only translate the picture is not assumed: the helper
    must address the pointer only through `offset >> 3` / `offset / 8` style expressions for the claim to extend, which
    the access pattern at offset 8 (= the pattern at offset 0 moved by one byte) confirms for the executed grid.

(2) The call site. `helper(buf + pos, i * W, ..., W)` inside `for (i = 0; i < N; i++)`, dominated by a guard
    `pos + E > size -> exit` where E is defined as `(N * W + 7) / 8` (casts and operand order aside), with pos, N and W
    not stored to inside the loop: the largest byte touched is ((N - 1) * W + W - 1) >> 3 = (N * W - 1) >> 3, which is
    below (N * W + 7) >> 3 = E. A guard without the `+ 7` is one byte short whenever N * W is not a multiple of 8."""
from ..facts import src
from ..util import is_assign
from .skeleton import Interp, Ptr, Budget, Stop

_CACHE = {}


def helper_extent(P, g):
    """(pointer index, offset index, width index) if g is a bit-addressed helper whose accesses stay inside
    bytes off >> 3 .. (off + width - 1) >> 3 for every alignment and width 1..64; else None."""
    k = (g.name, g.file)
    memo = P.__dict__.setdefault("_memo", {}).setdefault("bitfield", {})
    if k in memo:
        return memo[k]
    memo[k] = None
    if g.body is None or g.cfg is None:
        return None
    ptrs = [i for i, q in enumerate(g.params) if "*" in (q.get("t") or "")]
    ints = [i for i, q in enumerate(g.params) if "*" not in (q.get("t") or "")]
    if len(ptrs) != 1 or not 2 <= len(ints) <= 3:
        return None
    pi = ptrs[0]
    for oi in ints:
        for wi in ints:
            if oi == wi:
                continue
            ok = True
            runs = 0
            for width in list(range(1, 65)):
                for off in range(0, 9):
                    args = [0] * len(g.params)
                    args[pi] = Ptr("bits", 0, 1)
                    args[oi] = off
                    args[wi] = width
                    for other in ints:
                        if other not in (oi, wi):
                            args[other] = (1 << 64) - 1     # the value of a `put`: all ones
                    it = Interp(P, g, budget=20000, max_forks=4)
                    try:
                        outs = it.run(args)
                    except (Budget, Stop):
                        ok = False
                        break
                    runs += 1
                    lo, hi = off >> 3, (off + width - 1) >> 3
                    touched = False
                    for o in outs:
                        for a in o[0]:
                            if a.base == "bits":
                                touched = True
                                if a.lo < lo or a.hi > hi + 1:
                                    ok = False
                    if not touched or not ok:
                        ok = False
                        break
                if not ok:
                    break
            if ok:
                memo[k] = (pi, oi, wi, runs)
                return memo[k]
    return None


def _strip(n):
    return n.strip_casts() if n is not None else None


def _is_ref(n, text):
    n = _strip(n)
    return n is not None and n.k in ("DeclRefExpr", "MemberExpr") and src(n) == text


def _mul_pair(n):
    """operand texts of a product a * b (casts aside), else None"""
    n = _strip(n)
    if n is not None and n.k == "BinaryOperator" and n.op == "*":
        return src(_strip(n.c[0])), src(_strip(n.c[1]))
    return None


def _ceil8_of(n, a, b):
    """n is ((a * b) + 7) / 8 or ((a * b) + 7) >> 3, casts and operand order aside"""
    n = _strip(n)
    if n is None or n.k != "BinaryOperator" or not ((n.op == "/" and _strip(n.c[1]).cv == 8) or (n.op == ">>" and _strip(n.c[1]).cv == 3)):
        return False
    s = _strip(n.c[0])
    if s is None or s.k != "BinaryOperator" or s.op != "+":
        return False
    for x, y in ((s.c[0], s.c[1]), (s.c[1], s.c[0])):
        if _strip(y).cv == 7:
            m = _mul_pair(x)
            if m is not None and set(m) == {a, b} and (a != b or m[0] == m[1]):
                return True
    return False


def call_site(P, fn, c, ext, cursor_text, limit_text, lvalue_text):
    """Decide one call of a bit-addressed helper. Returns (ok, explanation)."""
    pi, oi, wi = ext[:3]
    args = c.args()
    wtxt = src(_strip(args[wi]))
    m = _mul_pair(args[oi])
    if m is None or wtxt not in m:
        return None, "the bit offset `%s` is not index * width" % src(args[oi])[:40]
    itxt = m[0] if m[1] == wtxt else m[1]
    # the enclosing counted loop over the index
    loop = None
    for a in c.ancestors():
        if a.k == "ForStmt":
            cond = _strip(a.c[2]) if len(a.c) > 2 and a.c[2] is not None else None
            if cond is not None and cond.k == "BinaryOperator" and cond.op == "<" and src(_strip(cond.c[0])) == itxt:
                loop = a
                break
    if loop is None:
        return None, "the call is not inside a `for (%s = 0; %s < N; ...)` loop" % (itxt, itxt)
    ntxt = src(_strip(_strip(loop.c[2]).c[1]))
    init = loop.c[0]
    zero = False
    if init is not None and init.k == "DeclStmt":
        for dd, iv in zip(init.get("decls", []), init.c):
            if dd.get("n") == itxt and iv is not None and _strip(iv).cv == 0:
                zero = True
    elif init is not None and is_assign(init) and init.op == "=" and src(_strip(init.c[0])) == itxt and _strip(init.c[1]).cv == 0:
        zero = True
    if not zero:
        return None, "the loop index does not start at 0"
    # nothing the bound depends on changes inside the loop
    for x in loop.walk():
        if is_assign(x) or (x.k == "UnaryOperator" and x.op in ("++", "--")):
            t = src(_strip(x.c[0]))
            if t in (wtxt, ntxt) or lvalue_text(x.c[0]) == cursor_text:
                if not (loop.c[3] is not None and any(y is x for y in loop.c[3].walk())):
                    return False, "`%s` changes inside the loop" % t
    # a dominating guard  cursor + E > limit -> exit  with E = (N * W + 7) / 8
    w = fn.cfg.where()
    for n in fn.body.walk():
        if n.k != "IfStmt":
            continue
        kids = [x for x in n.c if x is not None]
        g = kids[0].strip()
        if not (g.k == "BinaryOperator" and g.op == ">" and lvalue_text(g.c[1]) == limit_text):
            continue
        l = _strip(g.c[0])
        if not (l.k == "BinaryOperator" and l.op == "+" and lvalue_text(l.c[0]) == cursor_text):
            continue
        if not any(r.k in ("ReturnStmt", "BreakStmt") for r in kids[1].walk()):
            continue
        first = min((x for x in n.walk() if x.i in w), key=lambda x: x.i, default=None)
        if first is None or not fn.cfg.node_dominates(first, c):
            continue
        e = _strip(l.c[1])
        cand = [e]
        if e.k == "DeclRefExpr":
            d = e.get("d")
            inits = []
            for v in fn.body.walk():
                if v.k == "DeclStmt":
                    for dd, iv in zip(v.get("decls", []), v.c):
                        if dd.get("d") == d:
                            inits.append(iv)
            stores = [x for x in fn.body.walk() if (is_assign(x) or (x.k == "UnaryOperator" and x.op in ("++", "--")))
                      and _strip(x.c[0]).k == "DeclRefExpr" and _strip(x.c[0]).get("d") == d]
            cand = [inits[0]] if len(inits) == 1 and inits[0] is not None and not stores else []
        for ce in cand:
            if _ceil8_of(ce, ntxt, wtxt):
                return True, "guard `%s` with %s = (%s * %s + 7) / 8" % (src(g)[:50], src(e)[:20], ntxt, wtxt)
        return False, ("the guard `%s` does not promise (%s * %s + 7) / 8 bytes: the last field ends in byte (%s * %s - 1) >> 3"
                       % (src(g)[:60], ntxt, wtxt, ntxt, wtxt))
    return False, "no dominating guard compares %s + (%s * %s + 7) / 8 with %s" % (cursor_text.split("#")[0], ntxt, wtxt, limit_text.split("#")[0])
