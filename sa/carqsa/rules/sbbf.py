"""Split-block Bloom filter: what insert sets, what check tests, which block - as formulas of the hash.

The block-level insert and check functions and the block selection are executed abstractly with the hash
as an opaque term (skeleton.Sym): the interpreter carries it through casts, the salt multiplication, the
shifts and the OR into the block's words, and records every branch on a term. The rules then read
  - the mask OR-ed into word w by insert (a term M_w of the hash) for the 8 words of the block,
  - the (word, mask) pairs check tests, and that a `false` answer is given exactly when one tested bit is
    clear,
  - the block index as a term of (hash, number of blocks),
and compare them with each other and with the Parquet specification
    M_w = 1 << ((SALT[w] * (uint32)hash) >> 27)            index = ((hash >> 32) * n) >> 32.
Equal normal forms discharge; a pair of formulas that evaluate differently for some hash is a violation
with that hash as witness; anything else is inconclusive. How the functions are spelled (loop or unrolled,
pointer walk or index, a helper for the mask, macro or literal constants) does not matter."""
from ..extract import AnalysisBroken
from . import sem, terms
from .skeleton import Ptr, U, Sym

BF = "src/metadata/bloom_filter.c"
SPEC_SALT = [0x47b6137b, 0x44974d91, 0x8824ad5b, 0xa2b7289d, 0x705495c7, 0x2df1424b, 0x9efc4947, 0x5c6bfb31]
HASH = ("hash",)
NB = ("n",)


def spec_mask(w):
    return ("<<", 1, (">>", ("*", SPEC_SALT[w], ("cast", 32, HASH), 32), 27, 32), 32)


SPEC_INDEX = (">>", ("*", (">>", HASH, 32, 64), NB, 64), 32, 64)


def discover(P):
    """(insert_hash, check_hash, block insert, block check, index functions) - the block-level helpers are the
    static callees of the two entry points that take a pointer to 32-bit words; the others that return an
    integer are the block selection."""
    ih = P.fn("carquet_bloom_filter_insert_hash", BF)
    ch = P.fn("carquet_bloom_filter_check_hash", BF)

    def helpers(f):
        blk, idx = [], []
        for c in f.calls():
            for g in P.by_name.get(c.callee or "", []):
                if P.rel(g.file) != BF or not g.static:
                    continue
                if any("uint32_t *" in p["t"] for p in g.params):
                    if g not in blk:
                        blk.append(g)
                elif "*" not in g.ret and g.ret not in ("void", "_Bool", "bool") and g not in idx:
                    idx.append(g)
        return blk, idx
    bi, ii = helpers(ih)
    bc, ic = helpers(ch)
    if len(bi) != 1 or len(bc) != 1:
        raise AnalysisBroken("block-level insert / check helpers of %s not identified (%s / %s)" % (BF, [g.name for g in bi], [g.name for g in bc]))
    return ih, ch, bi[0], bc[0], ii, ic


def _args(fn, flt=False):
    args = []
    for p in fn.params:
        t = p["t"].replace("const ", "").strip()
        if "uint32_t *" in t:
            args.append(Ptr("block", 0, 4))
        elif "*" in t:
            args.append(Ptr("flt", 0, 1))
        elif t in ("uint64_t", "unsigned long"):
            args.append(Sym(HASH, 64) if "hash" in p["n"] or t == "uint64_t" else Sym(NB, 64))
        elif t in ("size_t",):
            args.append(Sym(NB, 64))
        elif t in ("uint32_t", "unsigned int"):
            args.append(Sym(("cast", 32, HASH), 32))
        else:
            args.append(U)
    return args


def _mem(base, off, size):
    return Sym(("load", base, off, size * 8), size * 8) if base == "block" else None


def _split_or(t, w):
    """M for t == load_w | M (either order), else None"""
    if isinstance(t, Sym):
        t = t.t
    if isinstance(t, tuple) and len(t) == 4 and t[0] == "|":
        for a, b in ((t[1], t[2]), (t[2], t[1])):
            if isinstance(a, tuple) and a[0] == "load" and a[1] == "block" and a[2] == 4 * w:
                return b
    return None


def _parse_test(term, decision):
    """(word, mask term, bit is set on this edge) for a recorded branch, or None"""
    t = term
    neg = False
    if t[0] == "cmp" and t[1] in ("==", "!=") and (t[3] == 0 or t[2] == 0):
        inner = t[2] if t[3] == 0 else t[3]
        setp = (t[1] == "!=") == bool(decision)
        t = inner
    elif t[0] == "cmp" and t[1] in ("==", "!="):
        # (x & M) == M
        a, b = t[2], t[3]
        for x, m in ((a, b), (b, a)):
            if isinstance(x, tuple) and x[0] == "&" and (x[1] == m or x[2] == m):
                t = x
                setp = (t is x) and ((term[1] == "==") == bool(decision))
                break
        else:
            return None
    else:
        setp = bool(decision)
    if not (isinstance(t, tuple) and len(t) == 4 and t[0] == "&"):
        return None
    for a, b in ((t[1], t[2]), (t[2], t[1])):
        if isinstance(a, tuple) and a[0] == "load" and a[1] == "block":
            return a[2] // 4, b, setp
    return None


def check(ctx):
    P = ctx.P
    ih, ch, ins, chk, idx_i, idx_c = discover(P)
    n = 0
    # ---- what insert sets
    masks = {}
    key = "mask-shape|%s:%s" % (BF, "bloom_filter_block_insert")
    what = "in every word w of the block insert ORs in the single bit 1 << ((SALT[w] * (uint32)hash) >> 27) (Parquet SBBF), 8 words per block"
    try:
        ret, ev, heap = sem.run(P, ins, _args(ins), heap0={}, hooks={}, single=True, memory=_mem, max_forks=8, budget=100000)
    except sem.Inconclusive as ex:
        ctx.inconclusive("R5.spec", key, P.where(ins.body), what, str(ex))
        heap = None
    if heap is not None:
        written = sorted(o // 4 for (b, o) in heap if b == "block")
        ctx.ob("R5.spec", "words-per-block|%s:bloom_filter_block_insert" % BF, P.where(ins.body), "insert stores into the 8 words of the block, and only those",
               written == list(range(8)), "words %s" % written)
        verdict, how = "ok", ""
        for w in written:
            m = _split_or(heap.get(("block", 4 * w)), w)
            if m is None:
                verdict, how = "inc", "word %d receives %s, not `old | mask`" % (w, terms.show(heap[("block", 4 * w)].t) if isinstance(heap[("block", 4 * w)], Sym) else heap[("block", 4 * w)])
                break
            masks[w] = m
            n += 1
            if w < 8:
                d = terms.differ(m, spec_mask(w))
                if d == "same":
                    continue
                if isinstance(d, tuple):
                    verdict = "bad"
                    how = "word %d: the mask is %s; for hash %#x it is %#x, the specification gives %#x" % (w, terms.show(terms.norm(m)), d[1][HASH], d[2], d[3])
                    break
                verdict, how = "inc", "word %d: the mask %s is not in the specification's form (no differing hash found among the samples)" % (w, terms.show(terms.norm(m)))
        if verdict == "ok":
            ctx.ok("R5.spec", key, P.where(ins.body), what)
        elif verdict == "bad":
            ctx.bad("R5.spec", key, P.where(ins.body), what, how)
        else:
            ctx.inconclusive("R5.spec", key, P.where(ins.body), what, how)
    # ---- what check tests
    key = "bit-test|%s:bloom_filter_block_check" % BF
    what = "check answers `absent` exactly when one of the bits insert sets is clear: it tests the same (word, mask) pairs"
    try:
        outs = sem.run(P, chk, _args(chk), heap0={}, hooks={}, single=False, memory=_mem, max_forks=600, budget=400000)
    except sem.Inconclusive as ex:
        ctx.inconclusive("R11.symmetry", key, P.where(chk.body), what, str(ex))
        outs = None
    if outs is not None and masks:
        verdict, how = "ok", ""
        present = [(r, ev) for r, ev, h in outs if isinstance(r, int) and r != 0]
        absent = [(r, ev) for r, ev, h in outs if r == 0]
        if not present or len(present) + len(absent) != len(outs):
            verdict, how = "inc", "answers %s" % sorted(set(repr(r) for r, ev, h in outs))
        tested = {}
        for r, ev in present:
            for e in ev:
                if e[0] != "branch":
                    continue
                pt = _parse_test(e[1], e[2])
                if pt is None:
                    verdict, how = "inc", "a branch on %s is not a bit test the rule recognises" % terms.show(e[1])
                    continue
                w, m, setp = pt
                if not setp:
                    verdict, how = "bad", "check answers `present` on a path where bit %s of word %d is clear" % (terms.show(m), w)
                tested[w] = m
        for r, ev in absent:
            br = [e for e in ev if e[0] == "branch"]
            pt = _parse_test(br[-1][1], br[-1][2]) if br else None
            if pt is None or pt[2]:
                if verdict == "ok":
                    verdict, how = "bad" if br and pt is not None else "inc", "check answers `absent` %s" % (
                        "although the last bit it tested is set" if pt is not None else "without a bit test the rule recognises")
        if verdict == "ok":
            for w in sorted(masks):
                if w not in tested:
                    verdict, how = "bad", "word %d: insert sets %s, check never tests it - a filter that lacks the bit still answers `present`" % (w, terms.show(terms.norm(masks[w])))
                    break
                d = terms.differ(masks[w], tested[w])
                if d == "same":
                    continue
                if isinstance(d, tuple):
                    verdict = "bad"
                    how = "word %d: insert sets %s, check tests %s; for hash %#x these are %#x and %#x" % (
                        w, terms.show(terms.norm(masks[w])), terms.show(terms.norm(tested[w])), d[1].get(HASH, 0), d[2], d[3])
                    break
                verdict, how = "inc", "word %d: insert sets %s, check tests %s (no differing hash found)" % (w, terms.show(terms.norm(masks[w])), terms.show(terms.norm(tested[w])))
        n += len(tested)
        if verdict == "ok":
            ctx.ok("R11.symmetry", key, P.where(chk.body), what)
        elif verdict == "bad":
            ctx.bad("R11.symmetry", key, P.where(chk.body), what, how)
        else:
            ctx.inconclusive("R11.symmetry", key, P.where(chk.body), what, how)
    # ---- block selection, read off the address the block-level function is given (however it is computed:
    # an index helper, a pointer helper, inline arithmetic): byte offset into the bits = 32 * ((hash >> 32) * n >> 32)
    fo = sem.field_offsets(P, "carquet_bloom_filter")
    addr_decided = set()
    for role, f, blkfn in (("insert", ih, ins), ("check", ch, chk)):
        key = "block-address|%s:%s_hash" % (BF, role)
        what = ("%s_hash hands the block-level function the 32-byte block at byte offset 32 * (((hash >> 32) * num_blocks) >> 32) of the "
                "filter's bits, and the same hash%s" % (role, "" if role == "insert" else "; it returns the block test's answer"))
        seen = []

        def blk_hook(ev, a, it, role=role):
            seen.append(list(a))
            return 1 if role == "check" else None
        heap0 = {("flt", fo["data"]): Ptr("bits", 0, 1), ("flt", fo["num_blocks"]): Sym(NB, 64), ("flt", fo["num_bytes"]): Sym(("*", NB, 32, 64), 64)}
        if "owns_data" in fo:
            heap0[("flt", fo["owns_data"])] = 1
        try:
            outs = sem.run(P, f, [Ptr("flt", 0, 1), Sym(HASH, 64)], heap0=heap0, hooks={blkfn.name: blk_hook}, single=False, max_forks=16,
                           budget=50000, on_start=lambda: seen.clear())
        except sem.Inconclusive:
            continue
        # every path must end in exactly one block-level call; the hooks' record is per path, so re-run per path is not
        # needed when there is a single path (the common case); with several paths fall back to the helper rules
        if len(outs) != 1 or len(seen) != 1:
            continue
        ret, ev, heap = outs[0]
        ptrs = [x for x in seen[0] if isinstance(x, Ptr) and x.base == "bits"]
        hashes = [x for x in seen[0] if isinstance(x, Sym) and terms.norm(x.t) in (HASH, ("cast", 32, HASH))]
        if len(ptrs) != 1 or not isinstance(ptrs[0].off, (Sym, int)):
            continue
        off = ptrs[0].off.t if isinstance(ptrs[0].off, Sym) else ptrs[0].off
        doms = {HASH: terms.SAMPLES64, NB: [1, 2, 3, 4, 7, 8, 31, 64, 1000, 2048, 65536, (1 << 27) - 1]}
        spec_off = ("*", SPEC_INDEX, 32, 64)
        wit = None
        same = terms.norm(off) == terms.norm(spec_off)
        if not same:
            for hv in doms[HASH]:
                for nb in doms[NB]:
                    env = {HASH: hv, NB: nb}
                    try:
                        got, want = terms.evaluate(off, env) if not isinstance(off, int) else off, terms.evaluate(spec_off, env)
                    except (KeyError, ZeroDivisionError):
                        got = want = None
                        break
                    if got != want and wit is None:
                        wit = (hv, nb, got, want)
                if wit:
                    break
        addr_decided.add(role)
        n += 1
        okh = bool(hashes) and (role != "check" or ret == 1)
        if wit:
            ctx.bad("R5.spec", key, P.where(f.body), what, "the block handed on starts at byte %s; for hash %#x and %d blocks that is byte %d, the specification's block starts at byte %d" % (
                terms.show(terms.norm(off)), wit[0], wit[1], wit[2], wit[3]))
        elif not okh:
            ctx.bad("R11.symmetry", key, P.where(f.body), what, "block-level call receives %s, returns %s" % (seen, ret))
        else:
            ctx.ok("R5.spec", key, P.where(f.body), what, "offset %s%s" % (terms.show(terms.norm(off)), "" if same else " (equal to the specification on every sampled hash and size)"))
    # ---- block selection formula (helper form)
    for role, fns_ in (("insert", idx_i), ("check", idx_c)):
        if role in addr_decided:
            continue
        key = "block-index-formula|%s:%s" % (BF, "bloom_filter_block_index" if role == "insert" else "check_hash")
        what = "the block used by %s_hash is ((hash >> 32) * num_blocks) >> 32 (Parquet SBBF), computed in 64 bits" % role
        if len(fns_) != 1:
            ctx.inconclusive("R5.spec", key, P.where((ih if role == "insert" else ch).body), what,
                             "the block selection is not a single helper of the file (%s)" % [g.name for g in fns_])
            continue
        g = fns_[0]
        try:
            outs = sem.run(P, g, _args(g), heap0={("flt", fo["num_blocks"]): Sym(NB, 64)}, hooks={}, single=False, max_forks=16, budget=50000)
        except sem.Inconclusive as ex:
            ctx.inconclusive("R5.spec", key, P.where(g.body), what, str(ex))
            continue
        n += 1
        doms = {HASH: terms.SAMPLES64, NB: [1, 2, 3, 4, 7, 8, 31, 64, 1000, 2048, 65536, (1 << 32) - 1, (1 << 32) + 5]}
        specs = (SPEC_INDEX, ("*", SPEC_INDEX, 32, 64))
        verdicts = []
        for ret, ev, heap in outs:
            # one formula per path; a path taken only for some (hash, num_blocks) is compared on those
            conds = [(e[1], bool(e[2])) for e in ev if e[0] == "branch"]
            if not isinstance(ret, Sym):
                verdicts.append(("inc", "%s returns %s on one path" % (g.name, ret)))
                continue
            if not conds:
                ds = [terms.differ(ret.t, s_, doms) for s_ in specs]
                if "same" in ds:
                    verdicts.append(("ok", terms.show(terms.norm(ret.t))))
                elif all(isinstance(d, tuple) for d in ds):
                    d = ds[0]
                    verdicts.append(("bad", "%s computes %s; for hash %#x and %d blocks that is %d, the specification gives block %d" % (
                        g.name, terms.show(terms.norm(ret.t)), d[1][HASH], d[1][NB], d[2], d[3])))
                else:
                    verdicts.append(("inc", "%s computes %s (no differing input found)" % (g.name, terms.show(terms.norm(ret.t)))))
                continue
            if any(terms.norm(ret.t) == terms.norm(s_) for s_ in specs):
                verdicts.append(("ok", terms.show(terms.norm(ret.t))))
                continue
            wit, reached = None, 0
            for hv in doms[HASH]:
                for nb in doms[NB]:
                    env = {HASH: hv, NB: nb}
                    try:
                        if any(bool(terms.evaluate(c_, env)) != d_ for c_, d_ in conds):
                            continue
                        reached += 1
                        got = terms.evaluate(ret.t, env)
                        wants = [terms.evaluate(s_, env) for s_ in specs]
                    except (KeyError, ZeroDivisionError):
                        continue
                    if got not in wants and wit is None:
                        wit = (hv, nb, got, wants[0])
            cond_txt = " and ".join("%s%s" % ("" if d_ else "not ", terms.show(terms.norm(c_))) for c_, d_ in conds)
            if wit is not None:
                verdicts.append(("bad", "when %s, %s computes %s; for hash %#x and %d blocks that is %d, the specification gives block %d" % (
                    cond_txt, g.name, terms.show(terms.norm(ret.t)), wit[0], wit[1], wit[2], wit[3])))
            elif reached:
                verdicts.append(("inc", "when %s, %s computes %s: equal to the specification on the %d sampled inputs that take this path, "
                                 "not in its form" % (cond_txt, g.name, terms.show(terms.norm(ret.t)), reached)))
            else:
                verdicts.append(("inc", "path under %s not reached by any sampled input" % cond_txt))
        bads = [v for v in verdicts if v[0] == "bad"]
        incs = [v for v in verdicts if v[0] == "inc"]
        if bads:
            ctx.bad("R5.spec", key, P.where(g.body), what, bads[0][1])
        elif incs:
            ctx.inconclusive("R5.spec", key, P.where(g.body), what, incs[0][1])
        else:
            ctx.ok("R5.spec", key, P.where(g.body), what, "; ".join(v[1] for v in verdicts))
    # ---- the entry points hand the selected block and the hash to the block-level functions
    for role, f, blkfn, idxf in (("insert", ih, ins, idx_i), ("check", ch, chk, idx_c)):
        if role in addr_decided:
            continue
        key = "block-index-used|%s:%s_hash" % (BF, role)
        what = "%s_hash works on the 32-byte block selected for the hash, with the same hash%s" % (role, "" if role == "insert" else ", and returns the block test's answer")
        if len(idxf) != 1:
            ctx.inconclusive("R11.symmetry", key, P.where(f.body), what, "block selection helper not identified")
            continue
        g = idxf[0]
        seen = []

        def blk_hook(ev, a, it, blkfn=blkfn):
            seen.append(tuple((x.base, x.off) if isinstance(x, Ptr) else x for x in a))
            return 1 if role == "check" else None
        hooks = {blkfn.name: blk_hook, g.name: lambda ev, a, it: 5}
        heap0 = {("flt", fo["data"]): Ptr("bits", 0, 1), ("flt", fo["num_blocks"]): 9, ("flt", fo["num_bytes"]): 288}
        if "owns_data" in fo:
            heap0[("flt", fo["owns_data"])] = 1
        try:
            ret, ev, heap = sem.run(P, f, [Ptr("flt", 0, 1), Sym(HASH, 64)], heap0=heap0, hooks=hooks, single=True, max_forks=8, budget=50000,
                                    on_start=lambda: seen.clear())
        except sem.Inconclusive as ex:
            ctx.inconclusive("R11.symmetry", key, P.where(f.body), what, str(ex))
            continue
        # the helper may return the index (scaled by 32 here) or the byte offset
        want_blocks = {("bits", 5 * 32), ("bits", 5)}
        ok = len(seen) == 1 and any(x in want_blocks for x in seen[0]) and any(isinstance(x, Sym) and terms.norm(x.t) in (HASH, ("cast", 32, HASH)) for x in seen[0])
        if role == "check":
            ok = ok and ret == 1
        n += 1
        ctx.ob("R11.symmetry", key, P.where(f.body), what, ok, "block-level call receives %s, returns %s" % (seen, ret))
    return n


def merge_rules(ctx):
    """carquet_bloom_filter_merge executed abstractly for filters of 32..288 bytes whose bits are opaque terms:
    every byte of the destination ends up as (old destination | source) of the same offset, once; filters of
    different sizes are refused before any store."""
    P = ctx.P
    mg = P.fn("carquet_bloom_filter_merge", BF)
    fo = sem.field_offsets(P, "carquet_bloom_filter")
    keyc = "merge-coverage|%s:carquet_bloom_filter_merge" % BF
    whatc = ("merge leaves every byte of the destination as old destination | source of the same offset, for every filter size "
             "(abstract execution with opaque bits, sizes 32..288)")
    keyg = "merge-equal-size|%s:carquet_bloom_filter_merge" % BF
    whatg = "merge refuses filters of different size before touching bits"

    def run(nd, ns):
        heap0 = {}
        for b, nb, bits in (("dst", nd, "dbits"), ("src", ns, "sbits")):
            heap0[(b, fo["data"])] = Ptr(bits, 0, 1)
            heap0[(b, fo["num_bytes"])] = nb
            heap0[(b, fo["num_blocks"])] = nb // 32
            if "owns_data" in fo:
                heap0[(b, fo["owns_data"])] = 1
        mem = lambda base, off, size: Sym(("load", base, off, size * 8), size * 8) if base in ("dbits", "sbits") else None
        return sem.run(P, mg, [Ptr("dst", 0, 1), Ptr("src", 0, 1)], heap0=heap0, hooks={"carquet_error_set": lambda ev, a, it: None},
                       single=True, memory=mem, max_forks=8, budget=400000)
    bad = inc = None
    n = 0
    try:
        for nb in (32, 64, 96, 160, 288):
            n += 1
            ret, ev, heap = run(nb, nb)
            cover = {}
            for (b, off), v in heap.items():
                if b != "dbits":
                    continue
                t = v.t if isinstance(v, Sym) else None
                if not (isinstance(t, tuple) and len(t) == 4 and t[0] == "|"):
                    bad = bad or "%d-byte filters: destination offset %d receives %s" % (nb, off, terms.show(t) if t is not None else v)
                    continue
                ops = sorted([t[1], t[2]], key=repr)
                w = t[3] // 8
                want = sorted([("load", "dbits", off, t[3]), ("load", "sbits", off, t[3])], key=repr)
                if ops != want:
                    bad = bad or "%d-byte filters: destination offset %d receives %s" % (nb, off, terms.show(t))
                for k in range(off, off + w):
                    cover[k] = cover.get(k, 0) + 1
            if ret != 0:
                bad = bad or "%d-byte filters of equal size: returns %s" % (nb, ret)
            missing = [k for k in range(nb) if k not in cover]
            if missing and bad is None:
                bad = "%d-byte filters: bytes %d..%d of the destination are not merged" % (nb, missing[0], missing[-1])
            if any(k >= nb for k in cover) and bad is None:
                bad = "%d-byte filters: the destination is written beyond its %d bytes" % (nb, nb)
    except sem.Inconclusive as ex:
        inc = str(ex)
    if inc:
        ctx.inconclusive("R11.coverage", keyc, P.where(mg.body), whatc, inc)
    else:
        ctx.ob("R11.coverage", keyc, P.where(mg.body), whatc, bad is None, bad or "")
    badg = incg = None
    try:
        for nd, ns in ((64, 32), (32, 64), (96, 64)):
            n += 1
            ret, ev, heap = run(nd, ns)
            stores = [k for k in heap if k[0] == "dbits"]
            if ret in (0, None) or stores:
                badg = badg or "destination %d bytes, source %d bytes: returns %s and stores into %d destination offsets" % (nd, ns, ret, len(stores))
    except sem.Inconclusive as ex:
        incg = str(ex)
    if incg:
        ctx.inconclusive("R6.guard", keyg, P.where(mg.body), whatg, incg)
    else:
        ctx.ob("R6.guard", keyg, P.where(mg.body), whatg, badg is None, badg or "")
    return n


def bulk_store_rules(ctx):
    """carquet_bloom_filter_from_data executed abstractly (allocator and memcpy hooked): the image is copied,
    whole, into a buffer allocated by this very call, which becomes the filter's bits with the matching geometry."""
    P = ctx.P
    fd = P.fn("carquet_bloom_filter_from_data", BF)
    fo = sem.field_offsets(P, "carquet_bloom_filter")
    key = "bulk-store|%s:carquet_bloom_filter_from_data|memcpy" % BF
    what = ("from_data copies the whole image into a buffer it has just allocated and publishes it as the filter's bits with "
            "num_bytes / num_blocks of the image (abstract execution, sizes 32..160)")
    bad = None
    try:
        for size in (32, 64, 160):
            nm = [0]
            fresh = {}

            def alloc(ev, a, it, kind="malloc"):
                nm[0] += 1
                sz = a[0] if kind == "malloc" else (a[0] * a[1] if isinstance(a[0], int) and isinstance(a[1], int) else U)
                fresh["m%d" % nm[0]] = sz
                return Ptr("m%d" % nm[0], 0, 1)
            copies = []
            hooks = {"malloc": alloc, "calloc": lambda ev, a, it: alloc(ev, a, it, "calloc"), "free": lambda ev, a, it: None,
                     "memcpy": lambda ev, a, it: copies.append(((a[0].base, a[0].off) if isinstance(a[0], Ptr) else a[0],
                                                                (a[1].base, a[1].off) if isinstance(a[1], Ptr) else a[1], a[2])) or a[0],
                     "memset": lambda ev, a, it: a[0]}
            ret, ev, heap = sem.run(P, fd, [Ptr("img", 0, 1), size], heap0={}, hooks=hooks, single=True, max_forks=8, budget=50000,
                                    on_start=lambda: (nm.__setitem__(0, 0), fresh.clear(), copies.clear()))
            if not isinstance(ret, Ptr):
                bad = bad or "image of %d bytes: returns %s" % (size, ret)
                continue
            data = heap.get((ret.base, fo["data"]))
            ok = (isinstance(data, Ptr) and data.base in fresh and fresh[data.base] == size and copies == [((data.base, 0), ("img", 0), size)]
                  and heap.get((ret.base, fo["num_bytes"])) == size and heap.get((ret.base, fo["num_blocks"])) == size // 32)
            if not ok:
                bad = bad or "image of %d bytes: bits %s (allocations %s), copies %s, num_bytes %s, num_blocks %s" % (
                    size, data, fresh, copies, heap.get((ret.base, fo["num_bytes"])), heap.get((ret.base, fo["num_blocks"])))
    except sem.Inconclusive as ex:
        ctx.inconclusive("R11.monotone", key, P.where(fd.body), what, str(ex))
        return
    ctx.ob("R11.monotone", key, P.where(fd.body), what, bad is None, bad or "")
