"""R1.fail: an allocation failure is reported. The branch taken when an allocator returned NULL leaves
through an error signal: it returns a failure constant (a non-OK status, NULL from a pointer-returning
function, -1/false), jumps to a cleanup label, sets the sticky/status variable to a failure, or -
inside loops - abandons the iteration. It never returns CARQUET_OK, and it does not return the
result of further work (`return f(...)`): continuing with a degraded result is exactly what the
property forbids ("clean error or the correct result, nothing else")."""
from ..facts import src
from ..util import is_assign
from . import results as R


def null_branches(fn, allocators):
    """[(call, target text, if node, then stmt)] for allocations whose result is tested for NULL by an if."""
    out = []
    for call in fn.calls():
        if call.callee not in allocators:
            continue
        p = call.parent
        while p is not None and p.k in ("ImplicitCastExpr", "CStyleCastExpr", "ParenExpr"):
            p = p.parent
        tgt = None
        if p is not None and is_assign(p) and p.op == "=":
            tgt = src(p.c[0].strip())
        elif p is not None and p.k == "DeclStmt":
            for d, init in zip(p.get("decls", []), p.c):
                if init is not None and any(x is call for x in init.walk()):
                    tgt = d["n"]
        if tgt is None:
            continue
        found = None
        for g in fn.body.walk():
            if g.k != "IfStmt" or g.i < call.i:
                continue
            kids = [x for x in g.c if x is not None]
            leaves = []

            def split(c):
                c = c.strip()
                if c.k == "BinaryOperator" and c.op == "||":
                    split(c.c[0])
                    split(c.c[1])
                else:
                    leaves.append(c)
            split(kids[0])
            for lf in leaves:
                t = None
                if lf.k == "UnaryOperator" and lf.op == "!":
                    t = src(lf.c[0].strip_casts())
                elif lf.k == "BinaryOperator" and lf.op == "==" and lf.c[1].strip_casts().cv == 0:
                    t = src(lf.c[0].strip_casts())
                if t == tgt:
                    found = (g, kids[1])
                    break
            if found:
                break
        if found:
            out.append((call, tgt, found[0], found[1]))
    return out


def classify(fn, then):
    """'error' | 'ok-return' | 'call-return' | 'falls-through'"""
    rets = [r for r in then.walk() if r.k == "ReturnStmt"]
    ptr_fn = "*" in (fn.ret or "")
    void_fn = (fn.ret or "").strip() == "void"
    worst = None
    for r in rets:
        if not r.c or r.c[0] is None:
            v = "error" if void_fn else "ok-return"
        else:
            e = r.c[0].strip_casts()
            while e.k == "ParenExpr":
                e = e.c[0].strip_casts()
            if r.c[0].cv is not None or e.cv is not None:
                cv = r.c[0].cv if r.c[0].cv is not None else e.cv
                if ptr_fn:
                    v = "error" if cv == 0 else "ok-return"
                elif (fn.ret or "").strip() in ("bool", "_Bool"):
                    v = "error" if cv == 0 else "ok-return"
                elif "carquet_status_t" in (fn.ret or ""):
                    v = "error" if cv != 0 else "ok-return"
                else:
                    v = "error"      # a count/length: 0 or -1 is the truthful "nothing done"
            elif e.k == "CallExpr":
                v = "call-return"
            else:
                v = "error"          # a status variable: its liveness/assignment is R1.status' business
        if v != "error":
            worst = v
    if worst:
        return worst
    if rets:
        return "error"
    if any(x.k in ("GotoStmt", "BreakStmt", "ContinueStmt") for x in then.walk()):
        return "error"
    if any(x.k == "CallExpr" and x.callee in ("set_error",) for x in then.walk()):
        return "error"
    if any(is_assign(x) and x.c[1].cv not in (0, None) for x in then.walk()):
        return "error"              # status = CARQUET_ERROR_...
    return "falls-through"


def check(ctx, fns, rule="R1.fail", key_prefix="alloc-fail", allocators=None):
    P = ctx.P
    allocators = set(allocators or R.ALLOCATORS)
    n = 0
    for fn in fns:
        ords = R.call_ordinals(fn)
        for call, tgt, g, then in null_branches(fn, allocators):
            n += 1
            c = classify(fn, then)
            key = "%s|%s:%s|%s" % (key_prefix, P.rel(fn.file), fn.name, ords[call.i])
            ctx.ob(rule, key, P.where(g),
                   "when %s fails (`%s` is NULL) the function reports a failure" % (call.callee, tgt), c == "error",
                   {"ok-return": "the NULL branch returns success", "call-return": "the NULL branch returns the result of further work",
                    "falls-through": "the NULL branch carries on without an error signal"}.get(c, ""))
    return n


def check_atomic(ctx, fns, rule="R1.atomic", key_prefix="grow-atomic"):
    """A failed growth leaves the object as it was: before a realloc whose NULL branch reports failure,
    no count / capacity member (integer-typed) of the object that owns the reallocated pointer is
    changed - unless the failing branch puts it back. (Pointer members may change: an earlier realloc of
    a sibling array has already moved it.) Otherwise the object claims room it does not have, and the
    next append writes past its block."""
    P = ctx.P
    n = 0
    bounds = {}     # file -> member names used as a bound (operand of a relational comparison) in that file

    def bound_members(file_):
        if file_ not in bounds:
            s_ = set()
            for f_ in P.functions.values():
                if f_.file != file_:
                    continue
                for x in f_.body.walk():
                    if x.k == "BinaryOperator" and x.op in ("<", "<=", ">", ">="):
                        for m in x.walk():
                            if m.k == "MemberExpr":
                                s_.add(m.name)
            bounds[file_] = s_
        return bounds[file_]
    for fn in fns:
        if fn.cfg is None:
            continue
        ords = R.call_ordinals(fn)
        for call, tgt, g, then in null_branches(fn, {"realloc"}):
            if classify(fn, then) != "error":
                continue            # R1.fail reports that one
            a0 = call.args()[0].strip_casts() if call.args() else None
            if a0 is None or a0.k != "MemberExpr":
                continue
            base = src(a0.c[0].strip_casts()) if a0.c else None
            if not base:
                continue
            n += 1
            w = fn.cfg.where()
            early = []
            for s in fn.body.walk():
                tgt_ = None
                if is_assign(s):
                    tgt_ = s.c[0].strip_casts()
                elif s.k == "UnaryOperator" and s.op in ("++", "--"):
                    tgt_ = s.c[0].strip_casts()
                if tgt_ is None or tgt_.k != "MemberExpr" or not tgt_.c or src(tgt_.c[0].strip_casts()) != base:
                    continue
                if "*" in (tgt_.t or "") or "[" in (tgt_.t or "") or tgt_.name not in bound_members(fn.file):
                    continue        # only members some comparison of the file uses as a bound (capacity, count)
                if s.i in w and call.i in w and s is not call and fn.cfg.node_dominates(s, call):
                    restored = any((is_assign(x) and src(x.c[0].strip_casts()) == src(tgt_)) for x in then.walk())
                    if not restored:
                        early.append(s)
            key = "%s|%s:%s|%s" % (key_prefix, P.rel(fn.file), fn.name, ords[call.i])
            ctx.ob(rule, key, P.where(call),
                   "when growing `%s` fails, the counts and capacities of `%s` are what they were before the attempt"
                   % (src(a0), base), not early,
                   "; ".join("`%s` (line %s) is already changed when realloc fails" % (src(s)[:60], s.l) for s in early[:3]))
    return n
