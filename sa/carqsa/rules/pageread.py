"""Semantic trace of the v1 data-page reader.

`carquet_read_data_page_v1` is executed by the cursor-skeleton interpreter for a finite set of column
configurations (max levels, which level arrays the caller supplies, every value of the encoding enum
and values outside it, dictionary present or not). The level decoder, the index decoder, the PLAIN
dispatcher, the gathers and the little-endian length reads are hooked and recorded, so the rules see
which decoder receives which bytes with which width - however the function is organised."""
from . import sem
from .skeleton import Ptr, U

PR = "src/reader/page_reader.c"
REP_SIZE, DEF_SIZE, PAGE_SIZE, WIDTH_BYTE = 12, 24, 200, 9


def trace(P, max_rep=0, max_def=0, want_rep=True, want_def=True, encoding=0, has_dict=True, ptype=None, rep_size=None, def_size=None, width_byte=None, num_values=0, dict_count=0):
    fn = P.fn("carquet_read_data_page_v1", PR)
    ro = sem.field_offsets(P, "carquet_column_reader")
    ho = sem.field_offsets(P, "parquet_data_page_header")
    pt = P.enum("carquet_physical_type")
    heap0 = {("rd", ro["max_rep_level"]): max_rep, ("rd", ro["max_def_level"]): max_def,
             ("rd", ro["type"]): pt["CARQUET_PHYSICAL_INT32"] if ptype is None else ptype, ("rd", ro["type_length"]): 0,
             ("rd", ro["has_dictionary"]): 1 if has_dict else 0, ("rd", ro["dictionary_data"]): Ptr("dict", 0, 1),
             ("rd", ro["dictionary_count"]): dict_count, ("rd", ro["dictionary_offsets"]): 0,
             ("rd", ro["indices_buffer"]): Ptr("idx", 0, 4), ("rd", ro["indices_capacity"]): 1000,
             ("hdr", ho["num_values"]): num_values, ("hdr", ho["encoding"]): encoding}
    if num_values:
        for i in range(num_values):
            heap0[("idx", 4 * i)] = 1       # what an earlier page of the chunk left in the reused index buffer
    sizes = []
    if max_rep > 0 and want_rep:
        sizes.append(REP_SIZE if rep_size is None else rep_size)
    if max_def > 0 and want_def:
        sizes.append(DEF_SIZE if def_size is None else def_size)
    nread = [0]

    def off(p):
        return (p.base, p.off) if isinstance(p, Ptr) else p

    def u32(ev, a, it):
        i = nread[0]
        nread[0] += 1
        ev.append(("u32", off(a[0])))
        return sizes[i] if i < len(sizes) else 0

    hooks = {"carquet_read_u32_le": u32,
             "carquet_rle_decode_levels": lambda ev, a, it: ev.append(("levels", off(a[0]), a[1], a[2], off(a[3]), a[4])) or a[4],
             "carquet_rle_decode_all": lambda ev, a, it: ev.append(("indices", off(a[0]), a[1], a[2], off(a[3]), a[4])) or a[4],
             "carquet_decode_plain": lambda ev, a, it: ev.append(("plain", off(a[0]), a[1], a[2], a[3], off(a[4]), a[5])) or 0,
             "memset": lambda ev, a, it: ev.append(("memset", off(a[0]), a[1])) or a[0],
             "carquet_error_set": lambda ev, a, it: None, "malloc": lambda ev, a, it: Ptr("idx2", 0, 4),
             "free": lambda ev, a, it: None}
    for g in ("carquet_dispatch_gather_i32", "carquet_dispatch_gather_i64", "carquet_dispatch_gather_float",
              "carquet_dispatch_gather_double"):
        hooks[g] = (lambda ev, a, it, g=g: ev.append(("gather", g, off(a[0]), off(a[1]), a[2], off(a[3]))))
    args = [Ptr("rd", 0, 1), Ptr("page", 0, 1), PAGE_SIZE, Ptr("hdr", 0, 1), Ptr("values", 0, 1), 1000,
            Ptr("defl", 0, 2) if want_def else 0, Ptr("repl", 0, 2) if want_rep else 0, Ptr("nread", 0, 8), 0]
    ret, ev, heap = sem.run(P, fn, args, heap0=heap0, hooks=hooks, single=True, max_forks=64, budget=200000,
                            memory=lambda base, o, size: (WIDTH_BYTE if width_byte is None else width_byte) if base == "page" else None)
    return ret, ev, heap.get(("nread", 0))


def check_level_extents(ctx, rule="R4.extent", key="level-extents|" + PR + ":carquet_read_data_page_v1"):
    """Length prefixes of the level blocks around every boundary of a 200-byte page: the reader accepts the page
    exactly when prefix + block fit in what is left, and everything it then hands to a decoder lies inside the page."""
    P = ctx.P
    fn = P.fn("carquet_read_data_page_v1", PR)
    what = ("for level-block length prefixes around every boundary of a %d-byte page the reader accepts exactly the pages whose blocks "
            "fit, and every byte range it hands to a level / value decoder lies inside the page (abstract execution)" % PAGE_SIZE)
    bad = None
    n = 0
    try:
        for max_rep, max_def in ((1, 1), (0, 1), (1, 0)):
            for r in ((0, 12, 187, 188, 191, 192, 193, 196, 197, 200) if max_rep else (0,)):
                for d in ((0, 24, 172, 176, 180, 184, 185, 188, 192, 195, 196, 197, 200, 201, 4000) if max_def else (0,)):
                    n += 1
                    ret, ev, nread = trace(P, max_rep=max_rep, max_def=max_def, rep_size=r, def_size=d, encoding=0)
                    left = PAGE_SIZE
                    fits = True
                    for on, sz in ((max_rep, r), (max_def, d)):
                        if not on:
                            continue
                        if left < 4 or sz > left - 4:
                            fits = False
                            break
                        left -= 4 + sz
                    sc = "max_rep %d max_def %d, repetition block %d bytes, definition block %d bytes" % (max_rep, max_def, r, d)
                    for e in ev:
                        if e[0] in ("levels", "indices", "plain") and isinstance(e[1], tuple) and e[1][0] == "page":
                            o, sz = e[1][1], e[2]
                            if not isinstance(o, int) or not isinstance(sz, int) or o < 0 or sz < 0 or o + sz > PAGE_SIZE:
                                bad = bad or "%s: the %s decoder is handed page bytes [%s, %s+%s) of a %d-byte page" % (sc, e[0], o, o, sz, PAGE_SIZE)
                    if fits and ret != 0:
                        bad = bad or "%s: the blocks fit but the page is refused (%s)" % (sc, ret)
                    if not fits and ret == 0:
                        bad = bad or "%s: the blocks do not fit in the page but the page is accepted" % sc
    except sem.Inconclusive as ex:
        ctx.inconclusive(rule, key, P.where(fn.body), what, str(ex))
        return 0
    ctx.ob(rule, key, P.where(fn.body), what, bad is None, bad or "")
    return n
