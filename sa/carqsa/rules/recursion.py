"""R8: every recursion cycle is bounded by a depth guard or by a structural progress guard."""
from .. import callgraph
from ..canon import Canon, show, subtrees
from ..facts import src
from ..util import is_assign


def _exits(stmt, fn):
    for r in stmt.walk():
        if r.k == "ReturnStmt":
            return True
    return False


def check(ctx, rule="R8", key_prefix="recursion", roots=None):
    P = ctx.P
    cg = callgraph.get(P)
    n = 0
    for comp in cg.sccs():
        fns = [P.functions[k] for k in comp]
        if not any(P.rel(f.file).startswith("src/") for f in fns):
            continue
        n += 1
        names = sorted(f.name for f in fns)
        if len(fns) != 1:
            # a cycle through static helpers of one function: expand the helpers into it and treat the
            # result as direct recursion (the guard and the growing argument are then in one body)
            # (any function of the cycle whose expanded body carries the guard bounds the whole cycle)
            cands = []
            for cand in sorted(fns, key=lambda g: g.name):
                others = [g for g in fns if g is not cand]
                if all(g.file == cand.file for g in others):
                    v = P.inlined(cand, 3)
                    if v.calls(cand.name) and not any(v.calls(g.name) for g in others):
                        cands.append(v)
            f = cands[0] if cands else None
            alts = cands[1:]
            if f is None:
                ctx.inconclusive(rule, "%s|%s" % (key_prefix, "+".join(names)), P.rel(fns[0].file),
                                 "mutual recursion %s: no guard idiom known" % names)
                continue
        else:
            f = fns[0]
            alts = []
        key = "%s|%s:%s" % (key_prefix, P.rel(f.file), f.name)
        verdict, detail, wit = _bounded(P, f)
        for alt in alts:
            if verdict:
                break
            v2, d2, w2 = _bounded(P, alt)
            if v2:
                f, verdict, detail, wit = alt, v2, d2, w2
                key = "%s|%s:%s" % (key_prefix, P.rel(f.file), f.name)
        calls = [wit] if wit is not None else []
        if verdict:
            ctx.ok(rule, key, P.where(f.body), "recursion of %s is bounded" % f.name, detail)
        else:
            ctx.bad(rule, key, P.where(calls[0]) if calls else P.where(f.body),
                    "%s calls itself without a depth or progress guard (one stack frame per nested input element)" % f.name,
                    detail or "no parameter is compared with a bound before the recursive call")
    return n


def _bounded(P, f):
    """(verdict, detail, witness call or None) for direct recursion of f (possibly a helper-expanded view)."""
    calls = f.calls(f.name)
    cz = Canon(f, inline=False)
    pn = [p["n"] for p in f.params]
    verdict = None
    detail = ""
    for pi, p in enumerate(f.params):
        if "*" in p["t"]:
            continue
        # guard on this parameter at the top, with an exit: `bound <= param` (a depth counting up) or
        # `param <= small` (a budget counting down)
        guard = None
        direction = None
        ptype = p["t"].replace("const ", "")
        for s in f.body.walk():
            if s.k == "IfStmt":
                kids = [x for x in s.c if x is not None]
                t = cz(kids[0])
                if not (t[0] == "bin" and t[1] in ("<=", "<") and _exits(kids[1], f)):
                    continue
                if isinstance(t[3], tuple) and t[3][:2] == ("param", pi):
                    guard, direction = (s, t), "up"
                    break
                if isinstance(t[2], tuple) and t[2][:2] == ("param", pi) and t[3][0] == "int":
                    guard, direction = (s, t), "down"
                    break
        if guard is None:
            continue
        gnode, gt = guard
        if f.cfg is not None:
            first = min((x for x in gnode.walk() if x.i in f.cfg.where()), key=lambda x: x.i)
            dominated = all(f.cfg.node_dominates(first, c) for c in calls)
        else:
            # helper-expanded view (no CFG): the guard is a top-level statement of the body that
            # precedes, in program order, every statement containing a recursive call
            top = f.body.kids()
            order = {id(n_): k_ for k_, st_ in enumerate(top) for n_ in st_.walk()}
            dominated = gnode in top and all(order.get(id(c), -1) > top.index(gnode) for c in calls)
        bound = gt[2] if direction == "up" else gt[3]
        const_bound = bound[0] == "int"

        def moves(t):
            """t is param +/- k with k > 0 in the direction of the guard"""
            if not (isinstance(t, tuple) and t and t[0] == "bin" and t[1] in ("+", "-")):
                return False
            a_, b_ = t[2], t[3]
            isp = lambda x: isinstance(x, tuple) and x[:2] == ("param", pi)
            k = None
            if isp(a_) and isinstance(b_, tuple) and b_[0] == "int":
                k = b_[1] if t[1] == "+" else -b_[1]
            elif isp(b_) and isinstance(a_, tuple) and a_[0] == "int" and t[1] == "+":
                k = a_[1]
            if k is None:
                return False
            return k > 0 if direction == "up" else k < 0
        # recursive calls pass a value strictly closer to the bound
        growing = True
        for c in calls:
            a = c.args()[pi]
            t = Canon(f)(a)
            ok = moves(t) or any(moves(s_) for s_ in subtrees(t))
            if not ok:
                # a local initialised from param +/- k
                x = a.strip_casts()
                if x.k == "DeclRefExpr" and x.get("dk") == "local":
                    inits = [i for n_ in f.body.walk() if n_.k == "DeclStmt"
                             for d, i in zip(n_.get("decls", []), n_.c) if d.get("d") == x.get("d") and i is not None]
                    written = any((is_assign(n_) or (n_.k == "UnaryOperator" and n_.op in ("++", "--"))) and
                                  n_.c[0].strip().k == "DeclRefExpr" and n_.c[0].strip().get("d") == x.get("d") for n_ in f.body.walk())
                    # (a cursor that is re-assigned from the recursive call's own result keeps moving the same way)
                    rewritten_only_by_self = all(
                        not (is_assign(n_) and n_.c[0].strip().k == "DeclRefExpr" and n_.c[0].strip().get("d") == x.get("d")) or
                        (n_.c[1].strip_casts().k == "CallExpr" and n_.c[1].strip_casts().callee == f.name) for n_ in f.body.walk())
                    ok = bool(inits) and (not written or rewritten_only_by_self) and any(
                        moves(s_) for s_ in subtrees(Canon(f, inline=False)(inits[0])))
            growing = growing and ok
        if dominated and growing:
            verdict = True
            detail = "guard `%s` on parameter `%s` (%s bound) precedes all %d recursive calls, which pass a %s value" % (
                src([x for x in gnode.c if x is not None][0]), p["n"], "constant" if const_bound else "input-size", len(calls),
                "larger" if direction == "up" else "smaller")
            break
        detail = "guard on `%s` found but dominated=%s growing=%s" % (p["n"], dominated, growing)
    return verdict, detail, (calls[0] if calls else None)
