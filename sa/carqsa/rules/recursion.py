"""R8: every recursion cycle is bounded by a depth guard or by a structural progress guard."""
from .. import callgraph
from ..canon import Canon, show, subtrees
from ..facts import src
from ..util import is_assign


def _exits(stmt, fn):
    for r in stmt.walk():
        if r.k == "ReturnStmt":
            return True
    return False


def check(ctx, rule="R8", key_prefix="recursion", roots=None):
    P = ctx.P
    cg = callgraph.get(P)
    n = 0
    for comp in cg.sccs():
        fns = [P.functions[k] for k in comp]
        if not any(P.rel(f.file).startswith("src/") for f in fns):
            continue
        n += 1
        names = sorted(f.name for f in fns)
        if len(fns) != 1:
            # a cycle through static helpers of one function: expand the helpers into it and treat the
            # result as direct recursion (the guard and the growing argument are then in one body)
            # (any function of the cycle whose expanded body carries the guard bounds the whole cycle)
            cands = []
            for cand in sorted(fns, key=lambda g: g.name):
                others = [g for g in fns if g is not cand]
                if all(g.file == cand.file for g in others):
                    v = P.inlined(cand, 3)
                    if v.calls(cand.name) and not any(v.calls(g.name) for g in others):
                        cands.append(v)
            f = cands[0] if cands else None
            alts = cands[1:]
            if f is None:
                ctx.inconclusive(rule, "%s|%s" % (key_prefix, "+".join(names)), P.rel(fns[0].file),
                                 "mutual recursion %s: no guard idiom known" % names)
                continue
        else:
            f = fns[0]
            alts = []
        key = "%s|%s:%s" % (key_prefix, P.rel(f.file), f.name)
        verdict, detail, wit = _bounded(P, f)
        for alt in alts:
            if verdict:
                break
            v2, d2, w2 = _bounded(P, alt)
            if v2:
                f, verdict, detail, wit = alt, v2, d2, w2
                key = "%s|%s:%s" % (key_prefix, P.rel(f.file), f.name)
        calls = [wit] if wit is not None else []
        if verdict:
            ctx.ok(rule, key, P.where(f.body), "recursion of %s is bounded" % f.name, detail)
        else:
            ctx.bad(rule, key, P.where(calls[0]) if calls else P.where(f.body),
                    "%s calls itself without a depth or progress guard (one stack frame per nested input element)" % f.name,
                    detail or "no parameter is compared with a bound before the recursive call")
    return n


def _bounded(P, f):
    """(verdict, detail, witness call or None) for direct recursion of f (possibly a helper-expanded view)."""
    calls = f.calls(f.name)
    cz = Canon(f, inline=False)
    pn = [p["n"] for p in f.params]
    verdict = None
    detail = ""
    for pi, p in enumerate(f.params):
        if "*" in p["t"]:
            continue
        # guard on this parameter at the top, with an exit
        guard = None
        for s in f.body.walk():
            if s.k == "IfStmt":
                kids = [x for x in s.c if x is not None]
                t = cz(kids[0])
                if t[0] == "bin" and t[1] in ("<=", "<") and t[3] == ("param", pi, p["t"].replace("const ", "")) \
                        or (t[0] == "bin" and t[1] in ("<=", "<") and isinstance(t[3], tuple) and t[3][:2] == ("param", pi)):
                    if _exits(kids[1], f):
                        guard = (s, t)
                        break
        if guard is None:
            continue
        gnode, gt = guard
        if f.cfg is not None:
            first = min((x for x in gnode.walk() if x.i in f.cfg.where()), key=lambda x: x.i)
            dominated = all(f.cfg.node_dominates(first, c) for c in calls)
        else:
            # helper-expanded view (no CFG): the guard is a top-level statement of the body that
            # precedes, in program order, every statement containing a recursive call
            top = f.body.kids()
            order = {id(n_): k_ for k_, st_ in enumerate(top) for n_ in st_.walk()}
            dominated = gnode in top and all(order.get(id(c), -1) > top.index(gnode) for c in calls)
        bound = gt[2]
        const_bound = bound[0] == "int"
        # recursive calls pass a strictly larger value
        growing = True
        for c in calls:
            a = c.args()[pi]
            t = Canon(f)(a)
            ok = any(s_ == ("bin", "+", ("int", 1), ("param", pi, t_p)) or s_ == ("bin", "+", ("param", pi, t_p), ("int", 1))
                     for s_ in subtrees(t) for t_p in [p["t"].replace("const ", "")]) or \
                (t[0] == "bin" and t[1] == "+" and ("param", pi, p["t"].replace("const ", "")) in (t[2], t[3])
                 and any(x[0] == "int" and x[1] > 0 for x in (t[2], t[3])))
            if not ok:
                # a local initialised from param + k
                x = a.strip_casts()
                if x.k == "DeclRefExpr" and x.get("dk") == "local":
                    inits = [i for n_ in f.body.walk() if n_.k == "DeclStmt"
                             for d, i in zip(n_.get("decls", []), n_.c) if d.get("d") == x.get("d") and i is not None]
                    ok = bool(inits) and any(
                        s_[0] == "bin" and s_[1] == "+" and isinstance(s_[3], tuple) and s_[3][:2] == ("param", pi)
                        or (s_[0] == "bin" and s_[1] == "+" and isinstance(s_[2], tuple) and s_[2][:2] == ("param", pi))
                        for s_ in subtrees(Canon(f, inline=False)(inits[0])))
            growing = growing and ok
        if dominated and growing:
            verdict = True
            detail = "guard `%s` on parameter `%s` (%s bound) precedes all %d recursive calls, which pass a larger value" % (
                src([x for x in gnode.c if x is not None][0]), p["n"], "constant" if const_bound else "input-size", len(calls))
            break
        detail = "guard on `%s` found but dominated=%s growing=%s" % (p["n"], dominated, growing)
    return verdict, detail, (calls[0] if calls else None)
