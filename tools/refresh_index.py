#!/usr/bin/env python3
"""Rebuild /verif/seeded/INDEX.json from the stored seeds and the last full sweep (/tmp/seedsweep/*.log):
expected_checks of a seed = the checks that reported a violation (exit 1) on it in that sweep."""
import glob, json, os, re, subprocess
idx = json.load(open("/verif/seeded/INDEX.json"))
for d in sorted(glob.glob("/verif/seeded/*/")):
    t = os.path.basename(d.rstrip("/"))
    log = "/tmp/seedsweep/%s.log" % t
    if not os.path.exists(log):
        print("no sweep log for", t); continue
    last = open(log).read().strip().splitlines()[-1]
    got = sorted(set(re.findall(r"(C\d\d)=1", last)))
    if t not in idx and t.startswith("revert-"):
        idx[t] = {"kind": "revert-of-fix", "subject": open(d + "subject.txt").read().strip()}
    if t not in idx:
        m = json.load(open(d + "meta.json"))
        idx[t] = {"kind": "independent-seed", "property": m.get("property"), "summary": m.get("summary"), "needs": m.get("needs")}
    old = idx[t].get("expected_checks")
    idx[t]["expected_checks"] = got
    if old is not None and set(old) - set(got):
        print("LOST", t, sorted(set(old) - set(got)))
json.dump(idx, open("/verif/seeded/INDEX.json", "w"), indent=1)
print(len(idx), "entries")
