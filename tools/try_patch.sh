#!/bin/sh
# Apply a patch to a scratch worktree of /repo (never to /repo itself) and run checks on it.
# usage: try_patch.sh <patch.diff> <Cnn> [Cnn...]      (-R first to reverse-apply)
REV=""
if [ "$1" = "-R" ]; then REV="-R"; shift; fi
PATCH=$(realpath "$1"); shift
WT=$(mktemp -d /tmp/carq-mut.XXXXXX)
EV=$(mktemp -d /tmp/carq-ev.XXXXXX)
trap 'git -C /repo worktree remove --force "$WT" >/dev/null 2>&1; rm -rf "$WT" "$EV"' EXIT
git -C /repo worktree add --detach -q "$WT" HEAD || exit 9
# carry over uncommitted changes of /repo's working tree
git -C /repo diff HEAD | git -C "$WT" apply --allow-empty 2>/dev/null
git -C "$WT" apply $REV "$PATCH" || { echo "PATCH DOES NOT APPLY"; exit 9; }
rc=0
for p in "$@"; do
  CARQSA_REPO="$WT" CARQSA_EVID="$EV" /verif/check "$p" quick | sed "s|$WT|/repo|g"
  r=$?
  echo "== $p exit=$(CARQSA_REPO="$WT" CARQSA_EVID="$EV" /verif/check "$p" quick >/dev/null 2>&1; echo $?)"
done
