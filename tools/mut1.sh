#!/bin/sh
# One-off mutant: replace the first occurrence of OLD by NEW in FILE (repo-relative) in a scratch worktree and run checks.
# usage: mut1.sh <file> <old> <new> <Cnn> [Cnn...]
F=$1; OLD=$2; NEW=$3; shift 3
W=$(mktemp -d /tmp/carq-mx.XXXXXX); D=$(mktemp /tmp/carq-mx.XXXXXX.diff)
git -C /repo worktree add --detach -q "$W" HEAD || exit 9
python3 - "$W/$F" "$OLD" "$NEW" <<'PY'
import sys
p,old,new=sys.argv[1:4]; s=open(p).read()
if s.count(old)<1: sys.exit("OLD text not found")
open(p,'w').write(s.replace(old,new,1))
PY
git -C "$W" diff > "$D"; git -C /repo worktree remove --force "$W"; rm -rf "$W"
[ -s "$D" ] && /verif/tools/try_patch.sh "$D" "$@" | grep -E "violated|exit=|BROKEN" | cut -c1-${COLS:-420}
rm -f "$D"
