#!/usr/bin/env python3
"""Regenerates /verif/MANIFEST.json from the table below (kept in one place so the manifest is
always valid and in step with the checks that exist)."""
import json
import os

HERE = os.path.dirname(os.path.dirname(os.path.abspath(__file__)))

TRUST = ("Trusted base: clang 14 front end and clang::CFG, the carqfacts plugin, the carqsa rule "
         "engine, the frozen specification tables and idiom lists in the checker. Decides the "
         "structural clauses named in level_claimed.text, not the runtime behaviour.")

CHECKS = {
    "C20": dict(
        technique="static analysis: canonical-expression sibling agreement + who-may-write + spec tables over clang AST/CFG facts",
        text="Structural clauses: all stores to filter bits are monotone or buffer initialisation; "
             "block_check tests exactly the (word,bit) block_insert sets and every 'false' is guarded "
             "by that test; insert/check select the same block; typed pairs hash identical bytes with "
             "seed 0; write/read/merge preserve bits under size guards; SALT, block geometry, block "
             "index formula and the XXH64 constant fingerprint equal the specification; XXH64 consumes its input in the "
             "reference schedule for every length 0..200 (32-byte stripes, 8-byte words, one 4-byte word, bytes; skeleton "
             "execution); every typed insert reaches "
             "insert_hash on every path and insert_hash/check_hash have the same early exits (check answers true). Not decided: "
             "XXH64 value equality for all inputs, false-positive rate.",
        ref="DESIGN.md §3 C20"),
}

CHECKS["C13"] = dict(
    technique="static analysis: Thrift grammar extraction from writer/parser ASTs, table agreement with a frozen parquet.thrift, CFG must-pass-through and depth-balance dataflow",
    text="Table clauses: every (struct, field id, wire type, member, presence flag, list element) written by "
         "parquet_types.c/page_index.c agrees with the parser's case for that id and with parquet.thrift; "
         "required fields unconditional; unknown fields skipped with their own type in every parser loop; "
         "thrift_skip exhaustive over the 13 wire types; struct begin/end balanced on all non-error paths; "
         "last_field_id updated on every field-yielding path of both header codecs; short/long header forms "
         "complementary; zigzag on both sides; every field-header read/write runs inside a field-id frame pushed by "
         "struct_begin in the same function (also when a struct is only skipped). Not decided: value equality for extreme integers/strings, "
         "bytes consumed = produced.",
    ref="DESIGN.md §3 C13")

CHECKS["C18"] = dict(
    technique="static analysis: call-result liveness on clang CFG, must-pass-through and dominance of validation guards",
    text="Structural clauses: every stdio result in file_writer.c/file_reader.c is consumed on every path; "
         "after the trailing magic every status-OK path of carquet_writer_close passes a checked "
         "fflush/fclose and their failure is folded into the returned status; in the three open paths the "
         "minimum-size, trailing-magic and footer-length guards (with error exits) dominate "
         "parquet_parse_file_metadata and build_schema runs only after the parse status was tested; abort "
         "closes then removes, depending only on {owns_file, file, path}. Not decided: that every proper prefix is rejected (depends on byte values).",
    ref="DESIGN.md §3 C18")
CHECKS["C19"] = dict(
    technique="static analysis: NULL-test-before-use and status liveness on clang CFG with call-graph may-allocate summaries",
    text="Structural clauses over all of src/**: every allocator result is NULL-tested on every path before it "
         "is dereferenced/indexed/passed to a memory routine or to a callee that dereferences that parameter; "
         "the status of every callee that may allocate is consumed on every path (returned, tested, passed on, "
         "or stored and read before it dies); functions initialising a Thrift codec test its sticky error "
         "before returning OK; the NULL branch of every allocation test reports a failure (no success return, no return of "
         "further work); resources are released/handed over exactly once on every path. Not "
         "decided: success results when a NULL is tolerated rather than dereferenced; leak freedom on error "
         "paths beyond the ownership rules.",
    ref="DESIGN.md §3 C19")

CHECKS["C07"] = dict(
    technique="static analysis: OpenMP parallel-region effect analysis over AST + whole-program call graph (dispatch slots resolved)",
    text="Effect clauses: every write inside the two parallel regions of carquet_batch_reader_next is region-"
         "local, selected by the loop index, a monotone flag, or inside omp critical/atomic; every mutable "
         "file-scope/static-local variable of the library is thread-local or an accepted idempotent lazy "
         "initialiser written only by its initialiser with the flag published last (plain or __atomic store); in every function "
         "reachable from a region, positioned stdio on the shared stream is inside omp critical with seek and "
         "read together, and no store reaches the shared reader/metadata/schema objects unprotected. Not "
         "decided: equality of batches across thread counts; races inside zlib/zstd/libgomp.",
    ref="DESIGN.md §3 C07",
    note="Memory-model assumption for the accepted lazy-init idiom: x86-TSO, no compiler reordering across the flag store.")
CHECKS["C14"] = dict(
    technique="static analysis: CFG must-pass-through of the CRC comparison before consumers; cursor-skeleton abstract execution of the CRC routine over lengths 0..80",
    text="Structural clauses: in all four page loaders no path with has_crc && verify_checksums reaches a "
         "consumer of page bytes without the comparison of carquet_crc32(stored bytes, compressed_page_size) "
         "with the header crc, and the mismatch arm returns CRC_MISMATCH; the writer checksums the bytes it "
         "stores and enables CRC by default; the generator uses 0xEDB88320; abstract execution of the cursor "
         "arithmetic of crc32_slicing_by_8 shows for every length 0..80 that reads stay in bounds and every "
         "input byte is read; the header parser sets has_crc whenever field 4 is present. Not decided: equality with zlib for all inputs, incremental composition, the "
         "CRC's detection algebra.",
    ref="DESIGN.md §3 C14")

CHECKS["C16"] = dict(
    technique="static analysis: exhaustive abstract evaluation of the pruning tables over the sign domain, sibling switch-table agreement, CFG must-pass/dominance",
    text="Structural clauses: the operator table of row_group_matches (6 operators x 6 feasible orderings) and the "
         "interval tables of statistics_compare/range_overlaps/page_might_match clear the match flag only where "
         "no value can match; comparators are called as cmp(probe, own bound); might_match=true precedes every "
         "return, errors and absent statistics mean match, filter is ascending and capped; every "
         "type->comparator switch agrees per physical type and typed types never use byte order; comparator "
         "bodies order by their own type; floating min/max updates NaN-guarded; memcpy into min/max storage "
         "bounded; every value reaches the update decision or invalidates the bounds; null count = "
         "num_values - num_non_null; min/max polarity: every store into a min (max) slot reads only min (max) sources "
         "and (pointer,size) argument pairs name one bound, across builder, Thrift struct, reader view and page index; a "
         "value too long for the max storage is rejected, never stored as a truncated prefix. "
         "Not decided: that written min/max bound every input; byte-array ordering "
         "semantics of logical types.",
    ref="DESIGN.md §3 C16")

CHECKS["C17"] = dict(
    technique="static analysis: switch-table extraction vs the textbook level definition, exhaustive abstract evaluation of sibling level expressions over the 3 repetition values, dominance",
    text="Table clauses: the reader's walk adds (def,rep) = OPTIONAL (1,0), REPEATED (1,1), REQUIRED (0,0), passes the "
         "accumulated pair to children, stores it at leaves, consumes exactly its subtree; builder, writer and node "
         "accessors give the same levels for a flat leaf; one leaf predicate for counting and walking; "
         "schema_ensure_capacity grows the four parallel arrays together and dominates every append; accessors "
         "return the field of the same name; the reader's per-leaf arrays are written only by the recursive walk, which "
         "every successful build_schema runs; byte offsets into typed arrays are element-scaled. Not decided: leaf order/levels for arbitrary trees under a rewritten "
         "walk (a non-recursive rewrite makes the anchor vanish: exit 2, human review).",
    ref="DESIGN.md §3 C17")

CHECKS["C15"] = dict(
    technique="static analysis: dispatch-table extraction + cross-unit prototype agreement; cursor-skeleton abstract execution of every kernel over all counts (buffer contents unknown)",
    text="Structural clauses: all 19 dispatch slots get their scalar implementation before any override; overrides "
         "in the order SSE4.2 < AVX2 < AVX-512, each under its capability flag, each kernel from the unit built for "
         "that ISA and named for its slot; wrappers call their own slot with their own parameters; extern kernel "
         "prototypes equal the definitions. Extents: for each of the ~80 kernels (three x86 units + scalar "
         "fallbacks) the cursor arithmetic is executed abstractly for every count 0..N (N = 70/140/280 by ISA): "
         "every load/store (masked forms by mask population) lies inside the contract extent of its buffer and "
         "output kernels write their whole output; match_copy kernels use block copies only as wide as the guarded "
         "match distance; kernels that inspect a buffer's address are analysed per alignment class 0..63. Not decided: output equality with the scalar definition; ARM "
         "kernels (not in this build); adequacy of has_avx512f for the BW/VL encodings (observation in DESIGN.md).",
    ref="DESIGN.md §3 C15")

CHECKS["C02"] = dict(
    technique="static analysis: sibling switch-table agreement, who-may-write over struct fields, paired-update and guard rules, index-space provenance typing on the resolved AST",
    text="Structural clauses: the six type->value-size tables agree; the column reader's cursor fields are written "
         "only by the page reader and a frozen set of co-writers; values_remaining and page_values_read move by "
         "the same amount; current_page advances by header+compressed size only with page_loaded cleared and only "
         "after the page was consumed; a whole-page hand-out requires page_values_read == 0; skip mutates state "
         "only through read_batch; all scalar null-bitmap builders set a bit iff def < max_def and bitmaps start "
         "zeroed; subscripts never mix the projection / file-column / schema-element / row-group index spaces "
         "(provenance of the index vs the array's record+member). Not decided: dense-value offsets for nullable pages, equality of batch and column reader output.",
    ref="DESIGN.md §3 C02")
CHECKS["C03"] = dict(
    technique="static analysis: sibling implementation diff over callee/header-field provenance feature sets; typestate on the ownership tag along CFG paths",
    text="Structural clauses: the mmap and fread variants of the dictionary and data page loaders have equal "
         "feature sets (parsers/decoders called, header field feeding each size argument, guards on header fields "
         "and their error codes, header fields feeding the cursor fields) outside a reasoned allow-list; the three "
         "footer readers reject short files, wrong trailing magic and oversized footer length; free(decoded_values) "
         "is unreachable while the buffer may be a mapped view, a view is stored only with its VIEW tag, and the "
         "published pointer is pointer arithmetic on file_reader->mmap_data on every definition (never a recycled "
         "heap buffer). (Skip/peek cursor changes in the mmap-only paths are decided under C02.) Not decided: row alignment of batches across columns.",
    ref="DESIGN.md §3 C03")

CHECKS["C01"] = dict(
    technique="static analysis: codec-table agreement, CFG must-pass/ordering, status liveness, encoder typestate, cursor-skeleton abstract execution with abstract length fields",
    text="Necessary structural clauses: writer encoder table and reader decoder table name the same PLAIN codec per "
         "type; finalize paths flush/append/reset in order and cover every column; every status on the write path is "
         "consumed; the level encoder never pads mid-stream; PLAIN encoders append exactly what decoders consume "
         "(counts 0..40); PLAIN BYTE_ARRAY accepts every exactly fitting page of 0..3 values with lengths in "
         "{0,1,5} (trailing empty strings included), rejects short pages, stays inside the page; the codec tag alone "
         "selects raw bytes vs codec stream in compress_data, decompress_page and the loaders (no size-based "
         "shortcut). Not decided: value "
         "and null-position equality, row-group partition, multi-batch-per-page level layout (known value-level "
         "limitation, DESIGN.md).",
    ref="DESIGN.md §3 C01")
CHECKS["C05"] = dict(
    technique="static analysis: Thrift grammar extraction vs frozen parquet.thrift, enum tables, reaching-definition rules on page header sizes/CRC, who-may-write on offsets, cross-unit declaration agreement",
    text="Structural clauses: every (struct, id, wire type) written by the metadata writers and the hand-rolled page "
         "header equals parquet.thrift with required fields unconditional; raw enum tags equal the specification; "
         "page header sizes are the sizes of compress_data's input/output, CRC and counts come from the stored "
         "bytes/state, page layout rep|def|values; emitted LZ offsets fit 16 bits; file_offset changes only by "
         "written sizes; chunk offsets from a running offset; duplicated struct definitions and extern prototypes "
         "agree across units; a chunk tagged with a codec only ever stores that compressor's output. Not decided: acceptance by an independent reader, byte-determinism, payload validity.",
    ref="DESIGN.md §3 C05")
CHECKS["C06"] = dict(
    technique="static analysis: switch exhaustiveness/defaults, page-type admission vs header-member use, exhaustive abstract evaluation of the level-width functions over 0..32767, provenance of widths",
    text="Structural clauses: unknown codecs/encodings/types are rejected by error defaults; each loader admits exactly "
         "the page type whose header member it consumes (DATA_PAGE_V2 refused); reader's and writer's "
         "bit_width_for_max equal the bit length for every level 0..32767; level widths derive from the column's max "
         "level, index width from the page byte; enum tags equal parquet.thrift; page bytes are interpreted by the "
         "codec tag alone (only the UNCOMPRESSED arm copies raw bytes); no big-endian byte accumulation on the decoding "
         "side. Not decided: decoded values/levels "
         "equal the stored ones; nested reconstruction.",
    ref="DESIGN.md §3 C06")
CHECKS["C09"] = dict(
    technique="static analysis: dominance of capacity guards over stores, codec-pair table agreement, constant range of emitted offsets",
    text="Capacity clauses: in the built-in compressors the dst_capacity < compress_bound(src_size) refusal dominates "
         "every store through dst; zlib/zstd wrappers pass dst/dst_capacity unchanged; compress_data pairs each "
         "codec's bound with its compressor, allocates `bound` and passes it as capacity; match distances admitted by "
         "the compressors fit the two offset bytes emitted; decompressors report op - dst under capacity checks; block "
         "copies from the output's own history (decoders and match_copy kernels) are nested in a guard distance >= "
         "width. Not "
         "decided: round trip; sufficiency of the bound formulas.",
    ref="DESIGN.md §3 C09")
CHECKS["C11"] = dict(
    technique="static analysis: encoder typestate on the pad store; cursor-skeleton abstract execution of count-driven codecs; implicit-narrowing rule on the typed AST",
    text="Structural clauses: the hybrid encoder's pad store runs only with a full/empty group or as the last emission "
         "of flush; PLAIN (all fixed-width types, BOOLEAN, FIXED_LEN) and BYTE_STREAM_SPLIT encoders/decoders "
         "produce/consume exactly count*width bytes with exact extents for counts 0..40 and refuse short inputs; no "
         "implicit 64->32-bit narrowing of a non-constant exists in the codec and file layers; DELTA_BYTE_ARRAY encoder "
         "and decoder advance their predecessor reference on every iteration; widths come from unsigned maxima; the hybrid "
         "encoder writes pending literals before a run from every control state (0..7 pending x run 1..40). Not decided: "
         "decode(encode(v)) = v for DELTA_*, dictionary, RLE; streaming/one-shot agreement.",
    ref="DESIGN.md §3 C11")

CHECKS["C04"] = dict(
    technique="static analysis: untrusted-field obligations with dominance on clang CFG, argument provenance, recursion guards on the call graph, path-sensitive ownership, index-argument and error-report must-pass rules",
    text="Structural clauses: mapped pointers are formed from footer/page-header offsets only after a check against "
         "the mapped size; page_extent_ok dominates every consumer of page bytes and the byte counts paired with "
         "mapped pointers are the checked field; negative counts rejected before sizing memset/allocation; "
         "dictionary copy bounded by the page size; Thrift list counts validated before sizing allocations/loops; "
         "num_children loops also stop at the element count; recursion guarded; reader functions release what they "
         "acquire on every path; every index parameter is range-checked before subscripting; every error exit with "
         "an error object reports through CARQUET_SET_ERROR or a failing callee, message bounded; a buffer member set "
         "to NULL has its capacity member reset before the capacity is read again; per-leaf arrays are sized and filled "
         "under one leaf predicate. Not decided: "
         "arithmetic adequacy of every guard, running-time bounds, statistics value sizes (noted in DESIGN.md).",
    ref="DESIGN.md §3 C04")
CHECKS["C08"] = dict(
    technique="static analysis: zone-style cursor-bounds dataflow on clang CFG, cursor-skeleton abstract execution of count-driven decoders, array-index invariants, recursion and ownership rules",
    text="Structural clauses: in the hand-written decoders (snappy, lz4, rle, delta, delta-length, delta-strings, "
         "dictionary, plain, thrift/buffer readers) every access through an input/output cursor is covered on every "
         "path by an established bound (constant or symbolic, with counted-loop and lock-step summaries); sub-buffers "
         "travel with their exact remaining length or a declared extent; bit unpackers/PLAIN/BYTE_STREAM_SPLIT read "
         "and write exactly their extents for all counts/widths; indices into fixed-size decoder state are bounded "
         "by guards, validated header invariants or bounded fields whose constants fit the array lengths; index "
         "guards are sign-safe; recursion guarded; temporaries released on every exit. Not decided: termination "
         "bounds, oversized shifts, safety inside zlib/zstd.",
    ref="DESIGN.md §3 C08")

NOT_APPLICABLE = {
    "C10": "conformance of Snappy/LZ4 streams to the external grammars is a statement about emitted/accepted byte values; no structural clause beyond the decoder bounds already decided under C08 (DESIGN.md §6)",
    "C12": "conformance of encoder output to the Parquet encoding specification needs an independent codec as value oracle; no sound structural clause (DESIGN.md §6)",
}

ALL = ["C%02d" % i for i in range(1, 21)]


def main():
    checks = []
    for pid in ALL:
        if pid not in CHECKS:
            continue
        c = CHECKS[pid]
        checks.append({
            "property_id": pid,
            "quick_cmd": "./check %s quick" % pid,
            "thorough_cmd": "./check %s thorough" % pid,
            "evidence_file": "/verif/evidence/%s.json" % pid,
            "replay_cmd_template": "./check --show {path}",
            "engine": "carqsa",
            "level_claimed": {"category": "other", "text": c["text"], "design_ref": c["ref"]},
            "level_note": TRUST + (" " + c["note"] if c.get("note") else ""),
            "technique": c["technique"],
        })
    na = []
    for pid in ALL:
        if pid in CHECKS:
            continue
        na.append({"property_id": pid,
                   "reason": NOT_APPLICABLE.get(pid, "check not built yet in this session (static clauses designed in DESIGN.md §3; claimed once implemented)")})
    m = {
        "version": 1,
        "setup_cmd": "make -C /verif/sa",
        "hooks": {
            "guard": "CARQUET_VERIF",
            "enable": "no source hooks are needed: the checks analyse /repo's sources as built by the normal configuration (compile database regenerated by cmake on every run)",
            "baseline_off_cmd": "/verif/tools/baseline.sh",
            "source_commits": [],
            "add_only": True,
        },
        "engines": [{
            "name": "carqsa",
            "path": "/verif/sa",
            "serves_properties": sorted(CHECKS),
            "kind_free_text": "repository-specific static analysis: clang-14 frontend plugin (AST + clang::CFG facts per translation unit, real build flags) and a Python rule engine (table agreement, call-result discipline, resource pairing, must-pass-through, parallel-region effects, cursor bounds)",
        }],
        "checks": checks,
        "not_applicable": na,
        "notes": "exit 0 holds / exit 1 with VIOLATION line / exit 2 analysis broken (anchor vanished, instance floor, failed control, unrecognised idiom). Known findings: /verif/known_findings.json.",
    }
    json.dump(m, open(os.path.join(HERE, "MANIFEST.json"), "w"), indent=1)
    print("wrote MANIFEST.json: %d checks, %d not_applicable" % (len(checks), len(na)))


if __name__ == "__main__":
    main()
