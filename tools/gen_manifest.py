#!/usr/bin/env python3
"""Regenerates /verif/MANIFEST.json from the table below (kept in one place so the manifest is
always valid and in step with the checks that exist)."""
import json
import os

HERE = os.path.dirname(os.path.dirname(os.path.abspath(__file__)))

TRUST = ("Trusted base: clang 14 front end and clang::CFG, the carqfacts plugin, the carqsa rule "
         "engine, the frozen specification tables and idiom lists in the checker. Decides the "
         "structural clauses named in level_claimed.text, not the runtime behaviour.")

AE = "abstract execution of the source by the checker's constant-propagation interpreter (configuration values concrete, data Unknown, boundary callees hooked, all paths)"
TECH = {
    "C01": "static analysis: " + AE + " for the PLAIN codec tables, column/row-group finalize traces and codec selection; status liveness on clang CFG; encoder typestate; cursor-skeleton execution with abstract length fields",
    "C02": "static analysis: per-enum-value evaluation of the size tables, who-may-write over struct fields, " + AE + " of the page cursor, index-space provenance typing on the resolved AST",
    "C03": "static analysis: " + AE + " of the mmap and stdio loaders on the same scenarios (sibling agreement of verdicts, consumers and reader state; ownership tag of published views); typestate on the ownership tag along CFG paths elsewhere",
    "C04": "static analysis: " + AE + " of the mapped loaders over a grid of lying offsets/sizes with the real extent predicates; count-validation dominance; recursion guards on the call graph; path-sensitive ownership; refill-progress rule; index-argument and feasible-path error-report rules",
    "C05": "static analysis: Thrift grammar extraction vs frozen parquet.thrift, enum tables, " + AE + " of the page finaliser / row-group finalize / row-group flush, lazy-init dominance, cross-unit declaration agreement",
    "C06": "static analysis: " + AE + " per enum value of decompress_page, carquet_decode_plain, the v1 data-page reader and the page loaders; exhaustive evaluation of the level-width functions over 0..32767; spec tables; byte-order idiom rule",
    "C07": "static analysis: OpenMP parallel-region effect analysis over AST + whole-program call graph (dispatch slots resolved)",
    "C08": "static analysis: zone-style cursor-bounds dataflow on clang CFG (helper extents, derived pointers), cursor-skeleton execution of count-driven decoders, array-index invariants, recursion, ownership (incl. zlib streams) and refill-progress rules",
    "C09": "static analysis: dominance of capacity guards over stores, codec-pair table by " + AE + ", constant range of emitted offsets, overlap-copy guards, deflate parameter vs bound agreement",
    "C10": "static analysis: " + AE + " of the Snappy and LZ4 decompressors on streams built from the format documents (structure concrete, payload opaque) compared byte-provenance-wise with a decoder written from the documents; element emitters executed per (length, offset) and decoded by the format's definitions; forward dataflow of field upper bounds in packed tag bytes; LEB128 and length-extension rules",
    "C11": "static analysis: encoder typestate on the pad store and " + AE + " of the hybrid encoder's resting states; cursor-skeleton execution of count-driven codecs; implicit-narrowing rule on the typed AST",
    "C12": "static analysis: " + AE + " of the raw bit packers with opaque input (terms evaluated on the bit basis against the specification's wiring), of the hybrid decoder on specification-written streams with opaque packed payload and a hooked group unpacker, of the hybrid encoder on equality-pattern sequences read back by the specification's decoder, and of BYTE_STREAM_SPLIT by byte provenance; LEB128 rule",
    "C13": "static analysis: Thrift grammar extraction from writer/parser ASTs, table agreement with a frozen parquet.thrift, " + AE + " of the header codecs over their whole input space and of the LogicalType union, CFG must-pass-through and depth-balance dataflow",
    "C14": "static analysis: " + AE + " of the four page loaders over CRC scenarios and of the CRC entry points with the core hooked; lazy-init dominance; cursor-skeleton execution of the CRC routine over lengths 0..80",
    "C15": "static analysis: dispatch-table extraction + cross-unit prototype agreement; " + AE + " of the wrappers with a seeded table; cursor-skeleton execution of every kernel over all counts (buffer contents unknown); lane-width lint on intrinsic dataflow; overlap-copy guards",
    "C16": "static analysis: " + AE + " of the pruning predicates with real integer bounds over every ordering of probe/min/max, of the comparator tables with comparators hooked, of the statistics builder and index builder; min/max polarity dataflow; NaN-guard dominance",
    "C17": "static analysis: " + AE + " of the schema walk on its defining cases and of the leaf-adding entry points per repetition value; LogicalType union tables; who-may-write and must-pass-through on the leaf arrays; units rule on byte offsets",
    "C18": "static analysis: call-result liveness on clang CFG, fwrite short-count rule, " + AE + " of close with a failure injected at every step and of the three open paths over sizes x magic outcomes x footer lengths",
    "C19": "static analysis: NULL-test-before-use (feasible paths) and status liveness on clang CFG with call-graph may-allocate summaries; NULL-branch failure rule; growth atomicity rule; path-sensitive ownership",
    "C20": "static analysis: canonical-expression sibling agreement + who-may-write + spec tables over clang AST/CFG facts; " + AE + " of create/from_data geometry and of the XXH64 schedule",
}
NOTES = {"C07": "Memory-model assumption for the accepted lazy-init idiom: x86-TSO, no compiler reordering across the flag store."}


def _checks():
    """text per property = the clause list the check itself records in its evidence (single source of truth) +
    what is not decided (tools/not_decided.json)."""
    nd = json.load(open(os.path.join(HERE, "tools", "not_decided.json")))
    out = {}
    for pid, tech in TECH.items():
        evp = os.path.join(HERE, "evidence", pid + ".json")
        clauses = []
        if os.path.exists(evp):
            clauses = json.load(open(evp)).get("coverage", {}).get("clauses_decided", [])
        text = "Structural clauses decided: " + "; ".join(clauses) + ". Not decided: " + nd[pid]
        out[pid] = dict(technique=tech, text=text, ref="DESIGN.md §3 " + pid, note=NOTES.get(pid))
    return out


CHECKS = _checks()

NOT_APPLICABLE = {
}

ALL = ["C%02d" % i for i in range(1, 21)]


def main():
    checks = []
    for pid in ALL:
        if pid not in CHECKS:
            continue
        c = CHECKS[pid]
        checks.append({
            "property_id": pid,
            "quick_cmd": "./check %s quick" % pid,
            "thorough_cmd": "./check %s thorough" % pid,
            "evidence_file": "/verif/evidence/%s.json" % pid,
            "replay_cmd_template": "./check --show {path}",
            "engine": "carqsa",
            "level_claimed": {"category": "other", "text": c["text"], "design_ref": c["ref"]},
            "level_note": TRUST + (" " + c["note"] if c.get("note") else ""),
            "technique": c["technique"],
        })
    na = []
    for pid in ALL:
        if pid in CHECKS:
            continue
        na.append({"property_id": pid,
                   "reason": NOT_APPLICABLE.get(pid, "check not built yet in this session (static clauses designed in DESIGN.md §3; claimed once implemented)")})
    m = {
        "version": 1,
        "setup_cmd": "make -C /verif/sa",
        "hooks": {
            "guard": "CARQUET_VERIF",
            "enable": "no source hooks are needed: the checks analyse /repo's sources as built by the normal configuration (compile database regenerated by cmake on every run)",
            "baseline_off_cmd": "/verif/tools/baseline.sh",
            "source_commits": [],
            "add_only": True,
        },
        "engines": [{
            "name": "carqsa",
            "path": "/verif/sa",
            "serves_properties": sorted(CHECKS),
            "kind_free_text": "repository-specific static analysis: clang-14 frontend plugin (AST + clang::CFG facts per translation unit, real build flags) and a Python rule engine (table agreement, call-result discipline, resource pairing, must-pass-through, parallel-region effects, cursor bounds)",
        }],
        "checks": checks,
        "not_applicable": na,
        "notes": "exit 0 holds / exit 1 with VIOLATION line / exit 2 analysis broken (anchor vanished, instance floor, failed control, unrecognised idiom). Known findings: /verif/known_findings.json.",
    }
    json.dump(m, open(os.path.join(HERE, "MANIFEST.json"), "w"), indent=1)
    print("wrote MANIFEST.json: %d checks, %d not_applicable" % (len(checks), len(na)))


if __name__ == "__main__":
    main()
