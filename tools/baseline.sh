#!/bin/sh
# Build /repo's current tree (guard CARQUET_VERIF OFF: there are no source hooks) in a scratch
# directory outside /repo and /verif and run the repository's own test suite.
# usage: baseline.sh [repo-dir]
set -e
REPO=${1:-/repo}
B=$(mktemp -d /tmp/carq-baseline.XXXXXX)
trap 'rm -rf "$B"' EXIT
cmake -S "$REPO" -B "$B" -G Ninja -DCMAKE_BUILD_TYPE=RelWithDebInfo >"$B/configure.log" 2>&1 || { cat "$B/configure.log"; exit 3; }
cmake --build "$B" -j16 >"$B/build.log" 2>&1 || { tail -50 "$B/build.log"; exit 3; }
cd "$B"
set +e
ctest -j8 --timeout 900 >"$B/ctest.log" 2>&1
rc=$?
tail -25 "$B/ctest.log"
exit $rc
