#!/bin/sh
# usage: confirm_and_sweep.sh <tag>...   (seed output in /tmp/seed/<tag>-out); logs to /tmp/seed/cs_<tag>.log
for t in "$@"; do
  { echo "== $t"; /verif/tools/confirm_seed.sh /tmp/seed/$t-out 2>&1 | grep CONFIRM; /verif/tools/sweep_seed.sh /tmp/seed/$t-out/patch.diff $t; } > /tmp/seed/cs_$t.log 2>&1
done
