#!/bin/sh
# Run every check against every stored seeded change (16 at a time); print one line per seed and
# compare with the expected_checks recorded in seeded/INDEX.json.
mkdir -p /tmp/seedsweep; rm -f /tmp/seedsweep/*.log
ls -d ${VERIF_HOME:-/verif}/seeded/*/ | xargs -P 16 -I{} sh -c 't=$(basename {}); ${VERIF_HOME:-/verif}/tools/sweep_seed.sh {}/patch.diff $t > /tmp/seedsweep/$t.log 2>&1'
python3 - <<'PY'
import json, glob, os, re
idx = json.load(open("/verif/seeded/INDEX.json"))
exp = {k: set(v.get("expected_checks", [])) for k, v in idx.items()}
bad = 0
for f in sorted(glob.glob("/tmp/seedsweep/*.log")):
    t = os.path.basename(f)[:-4]
    last = open(f).read().strip().splitlines()[-1]
    got1 = set(re.findall(r"(C\d\d)=1", last)); got2 = set(re.findall(r"(C\d\d)=2", last))
    e = exp.get(t, set())
    lost = e - got1
    flag = "" if not lost else "   <-- LOST %s" % sorted(lost)
    if lost: bad += 1
    print("%-16s viol=%s broken=%s%s" % (t, sorted(got1), sorted(got2), flag))
print("seeds with lost detections:", bad)
PY
