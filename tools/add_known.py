#!/usr/bin/env python3
"""Design-time helper (never used by a check): record current violations of a property whose key
matches a regex as known findings. usage: add_known.py Cnn 'regex' 'what fails' 'replay note' ['why not fixed']"""
import json, re, subprocess, sys, glob
pid, rx, what, replay = sys.argv[1:5]
why = sys.argv[5] if len(sys.argv) > 5 else ""
subprocess.run(["/verif/check", pid, "quick"], capture_output=True)
k = json.load(open("/verif/known_findings.json"))
have = {(f["property"], f["key"]) for f in k["findings"]}
n = 0
for p in sorted(glob.glob("/verif/out/replay/%s-*.json" % pid)):
    o = json.load(open(p))["obligation"]
    if re.search(rx, o["key"]) and (pid, o["key"]) not in have:
        k["findings"].append({"property": pid, "key": o["key"], "what": what + " [" + o["what"][:160] + "]",
                              "replay": replay, "why_not_fixed": why})
        have.add((pid, o["key"]))
        n += 1
json.dump(k, open("/verif/known_findings.json", "w"), indent=1)
print("added", n)
