#!/bin/sh
# Run every check against every behaviour-preserving refactoring in /verif/benign: all must stay silent.
for d in ${VERIF_HOME:-/verif}/benign/*/; do t=$(basename $d); ${VERIF_HOME:-/verif}/tools/sweep_seed.sh $d/patch.diff benign-$t > /tmp/benign_sweep_$t.log 2>&1 & done; wait
for d in ${VERIF_HOME:-/verif}/benign/*/; do t=$(basename $d); grep -E "violated|BROKEN" /tmp/benign_sweep_$t.log | cut -c1-${COLS:-240}; tail -1 /tmp/benign_sweep_$t.log; done
