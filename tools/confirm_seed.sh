#!/bin/sh
# Confirm a seeded change: (1) applies to /repo HEAD, (2) builds, (3) repo tests pass with it,
# (4) demo fails with it, (5) demo passes without it. usage: confirm_seed.sh <dir with patch.diff demo.c> [extra cc flags]
D=$(realpath "$1"); shift
EXTRA="$*"
W=$(mktemp -d /tmp/carq-seed.XXXXXX)
trap 'git -C /repo worktree remove --force "$W/mut" >/dev/null 2>&1; git -C /repo worktree remove --force "$W/clean" >/dev/null 2>&1; rm -rf "$W"' EXIT
for t in mut clean; do
  git -C /repo worktree add --detach -q "$W/$t" HEAD || exit 9
done
git -C "$W/mut" apply "$D/patch.diff" || { echo "CONFIRM: patch does not apply"; exit 9; }
for t in mut clean; do
  cmake -S "$W/$t" -B "$W/$t/_b" -G Ninja -DCMAKE_BUILD_TYPE=RelWithDebInfo >/dev/null 2>&1 && cmake --build "$W/$t/_b" -j16 >"$W/$t.build.log" 2>&1 || { echo "CONFIRM: build failed ($t)"; tail -20 "$W/$t.build.log"; exit 9; }
done
(cd "$W/mut/_b" && ctest -j8 --timeout 900 >"$W/ctest.log" 2>&1); trc=$?
echo "CONFIRM: tests with change: rc=$trc $(grep 'tests passed' "$W/ctest.log")"
for t in mut clean; do
  if [ -f "$D/demo.c" ]; then
    cc -O1 -g -w -I"$W/$t/include" -I"$W/$t/src" $EXTRA "$D/demo.c" "$W/$t/_b/libcarquet.a" -lzstd -lz -lm -fopenmp -lpthread -L/root/miniconda/lib -Wl,-rpath,/root/miniconda/lib -o "$W/demo_$t" || { echo "CONFIRM: demo build failed ($t)"; exit 9; }
    (cd "$W" && timeout 300 "./demo_$t" >"$W/demo_$t.log" 2>&1); rc=$?
  else
    (cd "$D" && WT="$W/$t" timeout 600 sh ./demo.sh "$W/$t" >"$W/demo_$t.log" 2>&1); rc=$?
  fi
  echo "CONFIRM: demo on $t: rc=$rc :: $(tail -2 "$W/demo_$t.log" | tr '\n' ' ' | cut -c1-300)"
done
