#!/bin/sh
# Run every claimed check against one seeded change in a scratch worktree; print "<tag>: Cnn=exit ..." and violated keys.
# usage: sweep_seed.sh <patch.diff> <tag>
PATCH=$(realpath "$1"); TAG=$2
WT=$(mktemp -d /tmp/carq-mut.XXXXXX); EV=$(mktemp -d /tmp/carq-ev.XXXXXX)
trap 'git -C /repo worktree remove --force "$WT" >/dev/null 2>&1; rm -rf "$WT" "$EV"' EXIT
git -C /repo worktree add --detach -q "$WT" HEAD || exit 9
git -C "$WT" apply "$PATCH" || { echo "$TAG: PATCH DOES NOT APPLY"; exit 9; }
line="$TAG:"
for p in C01 C02 C03 C04 C05 C06 C07 C08 C09 C10 C11 C12 C13 C14 C15 C16 C17 C18 C19 C20; do
  out=$(CARQSA_REPO="$WT" CARQSA_EVID="$EV" ${VERIF_HOME:-/verif}/check "$p" quick 2>&1); rc=$?
  if [ $rc -ne 0 ]; then line="$line $p=$rc"; echo "$out" | grep -E "violated:|ANALYSIS-BROKEN property" | sed "s|$WT|/repo|g; s/^/   [$TAG $p] /" | cut -c1-400; fi
done
echo "$line"
