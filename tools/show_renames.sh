#!/bin/sh
# usage: show_renames.sh <patch.diff> : print which file-local symbols of the baseline were re-identified / stay missing
PATCH=$(realpath "$1")
WT=$(mktemp -d /tmp/carq-mut.XXXXXX)
trap 'git -C /repo worktree remove --force "$WT" >/dev/null 2>&1; rm -rf "$WT"' EXIT
git -C /repo worktree add --detach -q "$WT" HEAD || exit 9
git -C "$WT" apply "$PATCH" || exit 9
python3 - "$WT" <<'PY'
import sys, json, os
sys.path.insert(0, "/verif/sa")
from carqsa import facts, renames
P = facts.load(sys.argv[1])
for r in P.renamed: print("MATCHED", r)
base = json.load(open(renames.BASELINE))
for rf, b in sorted(base.items()):
    cur = set(f.name for f in P.funcs_in(rf))
    for n, v in b["functions"].items():
        if n not in cur: print("MISSING", rf, n, "static" if v["static"] else "public", v["ret"], [p[0] for p in v["params"]])
    curg = set(g["name"] for u, g in P.globals if P.rel(g["file"]) == rf)
    for n in b["globals"]:
        if n not in curg: print("MISSING-GLOBAL", rf, n)
new = {}
for f in P.functions.values():
    rf = P.rel(f.file)
    if rf in base and f.name not in base[rf]["functions"]:
        print("NEW", rf, f.name, f.ret, [p["t"] for p in f.params], "static" if f.static else "public")
PY
