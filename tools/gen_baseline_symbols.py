#!/usr/bin/env python3
"""Freeze the file-local symbols of the current /repo tree as the baseline for rename re-identification
(sa/baseline_symbols.json). Run on the unchanged tree only."""
import json, os, sys
sys.path.insert(0, "/verif/sa")
os.environ["CARQSA_NO_RENAMES"] = "1"
from carqsa import extract, renames
cdir = extract.extract("/repo")
meta = json.load(open(os.path.join(cdir, "meta.json")))
units = [json.load(open(os.path.join(cdir, u["facts"]))) for u in meta["units"]]
rel = lambda p: p[len("/repo/"):] if p.startswith("/repo/") else p
d = renames.describe(units, rel)
json.dump(d, open(renames.BASELINE, "w"), indent=0, sort_keys=True)
print(sum(len(v["functions"]) for v in d.values()), "functions,", sum(len(v["globals"]) for v in d.values()), "globals in", len(d), "files")
