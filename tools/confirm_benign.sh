#!/bin/sh
# Confirm a behaviour-preserving patch: applies to /repo HEAD, builds, all repo tests pass. usage: confirm_benign.sh <dir with patch.diff>
D=$(realpath "$1")
W=$(mktemp -d /tmp/carq-ben.XXXXXX)
trap 'git -C /repo worktree remove --force "$W/wt" >/dev/null 2>&1; rm -rf "$W"' EXIT
git -C /repo worktree add --detach -q "$W/wt" HEAD || exit 9
git -C "$W/wt" apply "$D/patch.diff" || { echo "CONFIRM: patch does not apply"; exit 9; }
cmake -S "$W/wt" -B "$W/wt/_b" -G Ninja -DCMAKE_BUILD_TYPE=RelWithDebInfo >/dev/null 2>&1 && cmake --build "$W/wt/_b" -j16 >"$W/build.log" 2>&1 || { echo "CONFIRM: build failed"; tail -20 "$W/build.log"; exit 9; }
(cd "$W/wt/_b" && ctest -j8 --timeout 900 >"$W/ctest.log" 2>&1); trc=$?
echo "CONFIRM $(basename $D): tests rc=$trc $(grep 'tests passed' "$W/ctest.log") warnings=$(grep -c 'warning:' "$W/build.log")"
