#!/usr/bin/env python3
"""Regenerate the generated parts of /verif/DESIGN.md (between <!-- BEGIN:x --> / <!-- END:x -->):
props (from the checks' EXPLANATION strings + the evidence of the last run), seedtable/reverttable
(from seeded/INDEX.json) and fixtable (from known_findings.json). Run the quick checks first."""
import importlib
import json
import os
import re
import sys

HERE = os.path.dirname(os.path.dirname(os.path.abspath(__file__)))
sys.path.insert(0, os.path.join(HERE, "sa"))
PIDS = "C01 C02 C03 C04 C05 C06 C07 C08 C09 C10 C11 C12 C13 C14 C15 C16 C17 C18 C19 C20".split()
NOT = json.load(open(os.path.join(HERE, "tools", "not_decided.json")))


def props():
    idx = json.load(open(os.path.join(HERE, "seeded", "INDEX.json")))
    titles = {}
    for l in open(os.path.join(HERE, "properties.jsonl")):
        d = json.loads(l)
        titles[d["id"]] = d["title"]
    out = []
    for pid in PIDS:
        ev = json.load(open(os.path.join(HERE, "evidence", pid + ".json")))
        c = ev["coverage"]
        mod = importlib.import_module("carqsa.props." + pid)
        out.append("### %s — %s\n" % (pid, titles[pid]))
        out.append("*Decides* (%d obligations on today's tree, %d functions loaded):\n" % (c["obligations"], c["functions_loaded"]))
        for cl in c["clauses_decided"]:
            out.append("* %s" % cl)
        out.append("")
        out.append("*In full.* " + re.sub(r"\s+", " ", mod.EXPLANATION) + "\n")
        out.append("*Rules and instances:* " + ", ".join("%s %d" % (r, v["obligations"]) for r, v in sorted(c["per_rule"].items())) + ".")
        fl = "; ".join("%s %d (floor %d)" % (f["rule"], f["matched"], f["floor"]) for f in c["instance_floors"])
        if fl:
            out.append("*Floors:* " + fl + ".")
        if c["controls"]:
            out.append("*Engine controls run:* %d (all as expected)." % len(c["controls"]))
        if ev["assumptions"]:
            out.append("*Assumption:* " + " ".join(ev["assumptions"]))
        ks = [t for t, m in sorted(idx.items()) if pid in m.get("expected_checks", [])]
        out.append("*Reports these seeded changes* (§4): " + (", ".join(ks) if ks else "—") + ".")
        if c["known_findings"]:
            out.append("*Known findings printed:* %d (§5.2)." % c["known_findings"])
        if c["suppressed_with_reason"]:
            out.append("*Reasoned exceptions:* %d (listed with their reason in the evidence file)." % c["suppressed_with_reason"])
        out.append("*Not decided:* " + NOT[pid] + "\n")
    return "\n".join(out)


def seedtables():
    idx = json.load(open(os.path.join(HERE, "seeded", "INDEX.json")))
    rows, rev = [], []
    for t, m in sorted(idx.items()):
        ec = ", ".join(m.get("expected_checks", []))
        if m["kind"] == "independent-seed":
            s = (m.get("summary") or "").replace("|", "/").replace("\n", " ")
            if len(s) > 230:
                s = s[:227] + "..."
            rows.append("| %s | %s | %s |" % (t, s, ec or ("— (exit 2 on %s)" % ", ".join(m.get("analysis_broken_on", [])))))
        else:
            rev.append("| %s | %s | %s |" % (t, m.get("subject", "").replace("|", "/"), ec))
    a = "| seed | what was changed (independent sub-agent; needs a specific input/fault/schedule) | reported by |\n|---|---|---|\n" + "\n".join(rows) + "\n"
    b = "| reverse of | fix subject | reported by |\n|---|---|---|\n" + "\n".join(rev) + "\n"
    return a, b


def fixtable():
    k = json.load(open(os.path.join(HERE, "known_findings.json")))
    rows = []
    for f in k["fixed"]:
        line = f["line"].replace("fixed: property=%s %s " % (f["property"], f["commit"]), "").replace("|", "/")
        rows.append("| %s | %s | %s |" % (f["property"], f["commit"], line))
    return "| property | commit | what failed (replayed against the real code before the repair) |\n|---|---|---|\n" + "\n".join(rows) + "\n"


def main():
    p = os.path.join(HERE, "DESIGN.md")
    s = open(p).read()
    a, b = seedtables()
    for name, text in (("props", props()), ("seedtable", a), ("reverttable", b), ("fixtable", fixtable())):
        s, n = re.subn(r"<!-- BEGIN:%s -->\n.*?<!-- END:%s -->\n" % (name, name),
                       lambda m: "<!-- BEGIN:%s -->\n%s<!-- END:%s -->\n" % (name, text, name), s, flags=re.S)
        if n != 1:
            raise SystemExit("marker %s not found exactly once" % name)
    open(p, "w").write(s)
    print("DESIGN.md regenerated (%d lines)" % len(s.split("\n")))


if __name__ == "__main__":
    main()
