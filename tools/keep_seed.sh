#!/bin/sh
# keep_seed.sh <tag> "<what I ran / outcome>" : copy a confirmed seeded change into /verif/seeded/<tag>
T=$1; O=/tmp/seed/$T-out; D=/verif/seeded/$T
mkdir -p $D && cp $O/patch.diff $D/ && for f in demo.c demo.sh; do [ -f $O/$f ] && cp $O/$f $D/; done
python3 - "$T" "$2" <<'PY'
import json,sys
t=sys.argv[1]; m=json.load(open('/tmp/seed/%s-out/meta.json'%t))
m['confirmed']=sys.argv[2]
json.dump(m,open('/verif/seeded/%s/meta.json'%t,'w'),indent=1)
PY
git -C /repo worktree remove --force /tmp/seed/$T-wt 2>/dev/null; rm -rf /tmp/seed/$T-wt
ls $D
